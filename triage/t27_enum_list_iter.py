"""C18: enum fields (and list elements) hold and return declared enumerators; indexing and iteration agree."""
import sys
sys.path.insert(0, "/verif/triage")
import _pre  # noqa
import vsc
from enum import IntEnum, auto


class E(IntEnum):
    A = 3
    B = 7
    C = 11


l = vsc.list_t(vsc.enum_t(E))
for e in (E.B, E.C, E.A):
    l.append(e)
by_index = [l[i] for i in range(len(l))]
by_iter = list(l)
bad = []
if by_index != [E.B, E.C, E.A] or not all(isinstance(x, E) for x in by_index):
    bad.append("indexing gives %r" % (by_index,))
if by_iter != by_index or not all(isinstance(x, E) for x in by_iter):
    bad.append("iteration gives %r, indexing %r" % (by_iter, by_index))
if bad:
    print("BROKEN:", "; ".join(bad)); sys.exit(1)
print("HOLDS")
