"""C04/FT4: procedural sum/product/in walk the element storage, not the first `size` elements."""
from _pre import *
@vsc.randobj
class O:
    def __init__(self):
        self.l = vsc.randsz_list_t(vsc.uint8_t())
    @vsc.constraint
    def c(self):
        self.l.size.inside(vsc.rangelist([1, 6]))
        with vsc.foreach(self.l) as it:
            it.inside(vsc.rangelist([1, 9]))
o = O()
bad = []
for i in range(30):
    o.randomize()
    seen = list(o.l)
    if len(seen) != len(o.l): bad.append("len mismatch")
    if o.l.sum != sum(seen): bad.append("call %d: l.sum=%d but the exposed elements %s sum to %d" % (i, o.l.sum, seen, sum(seen)))
    stale = [int(f.get_val()) for f in o.l.get_model().field_l[len(seen):]]
    for v in stale:
        if v not in seen and (v in o.l):
            bad.append("call %d: %d in l is True but the exposed list is %s" % (i, v, seen)); break
    if bad: break
for b in bad[:3]: print(b)
print("BROKEN" if bad else "HOLDS")
raise SystemExit(1 if bad else 0)
