"""C14/C20 SP6: with a solve_order in a rand set, fields of that set that no solve_order names are never swizzled."""
from _pre import *
@vsc.randobj
class O:
    def __init__(self):
        self.a = vsc.rand_bit_t(4)
        self.b = vsc.rand_bit_t(4)
        self.c_ = vsc.rand_bit_t(4)
    @vsc.constraint
    def c(self):
        vsc.solve_order(self.a, self.b)
        self.a <= self.b
        self.c_ <= self.b          # c_ is in the same rand set but unordered
o = O()
vals = set()
for i in range(200):
    o.randomize()
    vals.add(o.c_)
print("distinct values of c_ over 200 calls:", sorted(vals))
bad = len(vals) <= 2
print("BROKEN" if bad else "HOLDS")
raise SystemExit(1 if bad else 0)
