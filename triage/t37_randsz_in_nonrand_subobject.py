import vsc
@vsc.randobj
class Sub:
    def __init__(self):
        self.l = vsc.randsz_list_t(vsc.uint8_t())
        self.x = vsc.rand_uint8_t()
    @vsc.constraint
    def c(self):
        self.l.size in vsc.rangelist(vsc.rng(1, 5))
@vsc.randobj
class Top:
    def __init__(self):
        self.s = vsc.attr(Sub())       # non-random sub-object
        self.y = vsc.rand_uint8_t()
t = Top()
t.s.l.append(3)
before = (list(t.s.l), int(t.s.x))
bad = 0
for i in range(4):
    t.randomize()
    now = (list(t.s.l), int(t.s.x))
    if now != before:
        bad += 1
        print("call %d: non-random sub-object changed: %s -> %s" % (i, before, now)); break
print("HOLDS" if not bad else "BROKEN")
raise SystemExit(1 if bad else 0)
