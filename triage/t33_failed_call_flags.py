"""C16/C03: after a SolveFailure later calls behave as if the failed call never happened: fields of the failed object
that another object's inline constraint merely references are not solve targets."""
import sys
sys.path.insert(0, "/verif/triage")
import _pre  # noqa
import vsc


@vsc.randobj
class Item:
    def __init__(self):
        self.a = vsc.rand_uint8_t()
        self.b = vsc.rand_uint8_t()
        self.lim = vsc.uint8_t(i=10)

    @vsc.constraint
    def c(self):
        self.a < self.lim
        self.b > self.a


x = Item()
y = Item()
x.randomize()
xa, xb = int(x.a), int(x.b)
x.lim = 0
try:
    x.randomize()
    print("unexpected: no SolveFailure"); sys.exit(2)
except vsc.SolveFailure:
    pass
x.lim = 10
before = (int(x.a), int(x.b))
bad = []
for k in range(20):
    with y.randomize_with() as it:
        it.b > x.a
    if (int(x.a), int(x.b)) != before:
        bad.append("call %d on y changed x from %s to %s" % (k, before, (int(x.a), int(x.b))))
        break
if bad:
    print("BROKEN: " + bad[0]); sys.exit(1)
print("HOLDS")
