"""C10/BD5: RangelistModel.compact loses values of overlapping ranges."""
from _pre import *
bad = []
for spec, want in ((((0, 10), (3, 5)), 11), (((0, 5), (3, 10)), 11), (((2, 4), (2, 8)), 7)):
    @vsc.covergroup
    class cg(object):
        def __init__(self):
            self.with_sample(dict(a=vsc.uint8_t()))
            self.cp = vsc.coverpoint(self.a, bins=dict(b=vsc.bin_array([], *spec)))
    c = cg()
    cp = c.get_model().coverpoint_l[0]
    for v in range(0, 16):
        c.sample(v)
    hit = [i for i in range(cp.get_n_bins()) if cp.get_bin_hits(i) > 0]
    total = sum(cp.get_bin_hits(i) for i in range(cp.get_n_bins()))
    if cp.get_n_bins() != want or total != want:
        bad.append("bin_array([], %s): %d bins, %d hits over samples 0..15; the value set has %d values" % (spec, cp.get_n_bins(), total, want))
for x in bad: print(x)
print("BROKEN" if bad else "HOLDS")
raise SystemExit(1 if bad else 0)
