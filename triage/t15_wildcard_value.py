"""C19/CV16: a single wildcard bin given as (value, mask) with value bits set under wildcard positions is never hit."""
from _pre import *
@vsc.covergroup
class cg(object):
    def __init__(self):
        self.with_sample(dict(a=vsc.bit_t(4)))
        # bit1 must be 1; bit0 of the value lies under a wildcard position and is a don't-care
        self.cp = vsc.coverpoint(self.a, bins=dict(w=vsc.wildcard_bin((0b0011, 0b0010))))
c = cg()
for v in range(16):
    c.sample(v)
hits = c.get_model().coverpoint_l[0].get_bin_hits(0)
want = sum(1 for v in range(16) if (v & 0b0010) == (0b0011 & 0b0010))
print("hits", hits, "expected", want)
bad = hits != want
print("BROKEN" if bad else "HOLDS")
raise SystemExit(1 if bad else 0)
