"""C18: part-select writes change only the selected bits (types.py type_base.__setitem__)."""
import sys
sys.path.insert(0, "/verif/triage")
import _pre  # noqa
import vsc

f = vsc.uint16_t(i=0xABCD)
bad = []
f[7:4] = 0x5
if f.get_val() != 0xAB5D:
    bad.append("f=0xABCD; f[7:4]=5 -> 0x%x (expected 0xab5d)" % f.get_val())
g = vsc.uint8_t(i=0xFF)
g[3] = 0
if g.get_val() != 0xF7:
    bad.append("g=0xFF; g[3]=0 -> 0x%x (expected 0xf7)" % g.get_val())
h = vsc.uint8_t(i=0x00)
h[3] = 1
if h.get_val() != 0x08:
    bad.append("h=0; h[3]=1 -> 0x%x (expected 0x08)" % h.get_val())
k = vsc.uint8_t(i=0x0F)
k[7:4] = 0x1F          # wider than the select: only 4 bits may change
if k.get_val() != 0xFF:
    bad.append("k=0x0F; k[7:4]=0x1F -> 0x%x (expected 0xff)" % k.get_val())
if bad:
    print("BROKEN:", "; ".join(bad)); sys.exit(1)
print("HOLDS")
