import vsc
@vsc.randobj
class C:
    def __init__(self):
        self.l = vsc.rand_list_t(vsc.uint8_t(), sz=2)
o = C()
o.randomize()
o.l.append(200)
y = vsc.rand_uint8_t()
before = list(o.l)
bad = 0
for i in range(4):
    with vsc.randomize_with(y):
        y < o.l[2]
    if list(o.l) != before:
        bad += 1; print("list changed by a call it was not passed to: %s -> %s" % (before, list(o.l))); break
print("HOLDS" if not bad else "BROKEN")
raise SystemExit(1 if bad else 0)
