"""C02/LW3: a negation used as an operand of & raises an internal exception on a satisfiable program."""
from _pre import *

@vsc.randobj
class O:
    def __init__(self):
        self.a = vsc.rand_uint8_t()
        self.b = vsc.rand_uint8_t()
    @vsc.constraint
    def c(self):
        (~(self.a < 5)) & (self.b > 3)
o = O()
try:
    o.randomize()
    ok = (not (o.a < 5)) and o.b > 3
    print("a,b", o.a, o.b)
except vsc.SolveFailure:
    ok = False; print("SolveFailure on satisfiable system")
except Exception as e:
    ok = False; print("internal exception:", type(e).__name__, e)
print("HOLDS" if ok else "BROKEN")
raise SystemExit(0 if ok else 1)
