"""C04/C08: nested foreach over a list held by each element of an outer object list."""
import sys
sys.path.insert(0, "/verif/triage")
import _pre  # noqa
import vsc


@vsc.randobj
class Inner:
    def __init__(self, n, lim):
        self.arr = vsc.rand_list_t(vsc.uint8_t(), sz=n)
        self.lim = vsc.uint8_t(i=lim)


@vsc.randobj
class Top:
    def __init__(self):
        self.items = vsc.rand_list_t(vsc.attr(Inner(1, 0)))
        self.items.clear() if hasattr(self.items, "clear") else None
        for n, lim in ((2, 10), (3, 100), (4, 200)):
            self.items.append(vsc.attr(Inner(n, lim)))

    @vsc.constraint
    def c(self):
        with vsc.foreach(self.items, idx=True) as i:
            with vsc.foreach(self.items[i].arr, idx=True) as j:
                self.items[i].arr[j] < self.items[i].lim
                self.items[i].arr[j] >= self.items[i].lim - 5


t = Top()
bad = []
for k in range(10):
    t.randomize()
    for ii, it in enumerate(t.items):
        vals = [int(v) for v in it.arr]
        lim = int(it.lim)
        if len(vals) != (2, 3, 4)[ii] or not all(lim - 5 <= v < lim for v in vals):
            bad.append("call %d item %d lim=%d arr=%s" % (k, ii, lim, vals))
if bad:
    print("BROKEN:", bad[:3]); sys.exit(1)
print("HOLDS")
