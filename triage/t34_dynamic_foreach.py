"""C06/C04: a dynamic constraint containing a foreach constrains every element of the list at the time of each call."""
import sys
sys.path.insert(0, "/verif/triage")
import _pre  # noqa
import vsc


@vsc.randobj
class Pkt:
    def __init__(self):
        self.data = vsc.rand_list_t(vsc.uint8_t(), sz=3)

    @vsc.dynamic_constraint
    def small(self):
        with vsc.foreach(self.data, idx=True) as i:
            self.data[i] < 10


p = Pkt()
bad = []
for step in range(3):
    for k in range(5):
        with p.randomize_with() as it:
            it.small()
        vals = [int(v) for v in p.data]
        if not all(v < 10 for v in vals):
            bad.append("step %d call %d: data=%s" % (step, k, vals))
    for _ in range(2):
        p.data.append(200)
if bad:
    print("BROKEN: " + bad[0]); sys.exit(1)
print("HOLDS")
