"""C04/RN6: sum of a random-size list is expanded over the element count the list has when the constraint is built,
not over the size being solved."""
from _pre import *
@vsc.randobj
class O:
    def __init__(self):
        self.l = vsc.randsz_list_t(vsc.uint8_t())
    @vsc.constraint
    def c(self):
        self.l.size.inside(vsc.rangelist([1, 5]))
        self.l.product == 24
        with vsc.foreach(self.l) as it:
            it.inside(vsc.rangelist([1,9]))
o = O()
bad = []
for i in range(30):
    try:
        o.randomize()
    except vsc.SolveFailure:
        bad.append("call %d: SolveFailure on a satisfiable system (size was solved first, then the sum over that many elements cannot reach 20)" % i)
        continue
    seen = list(o.l)
    import math
    if math.prod(seen) != 24:
        bad.append("call %d: exposed list %s has product %d, constraint says 24" % (i, seen, math.prod(seen)))
for b in bad[:3]: print(b)
print("%d/30 calls violate the sum constraint on the exposed list" % len(bad))
print("BROKEN" if bad else "HOLDS")
raise SystemExit(1 if bad else 0)
