# triage-only helper: enables the real solver path in this sandbox (pyboolector option-name alias)
import pyboolector as p
if not hasattr(p, "BTOR_OPT_INCREMENTAL"):
    p.BTOR_OPT_INCREMENTAL = p.BtorOption.BTOR_OPT_INCREMENTAL
    p.BTOR_OPT_MODEL_GEN = p.BtorOption.BTOR_OPT_MODEL_GEN
import random
random.seed(1)
import vsc
