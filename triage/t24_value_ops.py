"""C02/LW1: constant folding applies Python operators to ValueScalar objects; operators ValueScalar does not define raise TypeError."""
from _pre import *
import itertools
OPS = {"+": lambda a,b: a+b, "-": lambda a,b: a-b, "*": lambda a,b: a*b, "&": lambda a,b: a&b, "|": lambda a,b: a|b, "^": lambda a,b: a^b,
       "<<": lambda a,b: a<<b, ">>": lambda a,b: a>>b, "%": lambda a,b: a%b, "/": lambda a,b: a/b}
bad = []
for name, fn in OPS.items():
    @vsc.randobj
    class O:
        def __init__(self):
            self.l = vsc.rand_list_t(vsc.uint8_t(), 2)
            self.a = vsc.uint8_t(6)
            self.b = vsc.uint8_t(3)
        @vsc.constraint
        def c(self):
            with vsc.foreach(self.l, idx=True) as i:
                with vsc.if_then(fn(self.a, self.b) == 77):
                    self.l[i] == 5
                with vsc.else_then:
                    self.l[i] == 7
    try:
        o = O(); o.randomize()
        if list(o.l) != [7, 7]:
            bad.append("op %s: wrong branch: %s" % (name, list(o.l)))
    except Exception as e:
        bad.append("op %s: %s: %s" % (name, type(e).__name__, str(e)[:60]))
for x in bad: print(x)
print("BROKEN" if bad else "HOLDS")
raise SystemExit(1 if bad else 0)
