"""C04: clearing / re-filling a list acts on exactly the exposed list; indexing, iteration and constraints agree."""
import sys
sys.path.insert(0, "/verif/triage")
import _pre  # noqa
import vsc


@vsc.randobj
class Item:
    def __init__(self, tag):
        self.tag = vsc.uint8_t(i=tag)
        self.v = vsc.rand_uint8_t()


@vsc.randobj
class Top:
    def __init__(self):
        self.items = vsc.rand_list_t(Item(0))
        for t in (1, 2, 3):
            self.items.append(Item(t))

    @vsc.constraint
    def c(self):
        with vsc.foreach(self.items, idx=True) as i:
            self.items[i].v == self.items[i].tag + 10


t = Top()
t.randomize()
t.items.clear()
for tg in (7, 8):
    t.items.append(Item(tg))
t.randomize()
bad = []
if len(t.items) != 2:
    bad.append("len=%d" % len(t.items))
by_index = [(int(t.items[i].tag), int(t.items[i].v)) for i in range(len(t.items))]
by_iter = [(int(it.tag), int(it.v)) for it in t.items]
if by_index != [(7, 17), (8, 18)]:
    bad.append("indexing shows %s" % by_index)
if by_iter != [(7, 17), (8, 18)]:
    bad.append("iteration shows %s" % by_iter)
if bad:
    print("BROKEN: after clear()+append(7,8): " + "; ".join(bad)); sys.exit(1)
print("HOLDS")
