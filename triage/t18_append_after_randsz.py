"""C04/FT4: appending to a random-size list after a solve acts on the pre-extended storage, not on the exposed list."""
from _pre import *
@vsc.randobj
class O:
    def __init__(self):
        self.l = vsc.randsz_list_t(vsc.uint8_t())
    @vsc.constraint
    def c(self):
        self.l.size.inside(vsc.rangelist([1, 3]))
        with vsc.foreach(self.l) as it:
            it.inside(vsc.rangelist([1, 9]))
o = O()
bad = []
for i in range(10):
    o.randomize()
    before = list(o.l)
    o.l.append(77)
    after = list(o.l)
    if after != before + [77]:
        bad.append("call %d: list was %s, after append(77) it is %s (len %d)" % (i, before, after, len(o.l)))
    o.l.clear()
for b in bad[:3]: print(b)
print("BROKEN" if bad else "HOLDS")
raise SystemExit(1 if bad else 0)
