"""C01/C05 RS2: rand-set merge at the array-subscript site removes the retired set by index (KeyError) and drops soft constraints."""
from _pre import *

@vsc.randobj
class O:
    def __init__(self):
        self.arr = vsc.rand_list_t(vsc.uint8_t(), 4)
        self.x = vsc.rand_uint8_t()
        self.y = vsc.rand_uint8_t()
    @vsc.constraint
    def c(self):
        vsc.soft(self.x == 7)      # soft on x's own rand set
        self.y < 200               # separate set
        self.arr[1] < 100          # set holding arr[1]
        self.x < self.arr[1]       # active set (x) meets the existing set of arr[1] at the subscript site
o = O()
bad = None
try:
    hits = 0
    for i in range(20):
        o.randomize()
        if not (o.x < o.arr[1] and o.arr[1] < 100):
            bad = "hard constraint violated"
        if o.x == 7:
            hits += 1
    print("soft honoured", hits, "/ 20")
    if hits < 20:
        bad = bad or "soft(x==7) is compatible with the hard constraints but was honoured only %d/20 times" % hits
except Exception as e:
    bad = "internal exception %s: %s" % (type(e).__name__, e)
print("BROKEN: " + bad if bad else "HOLDS")
raise SystemExit(1 if bad else 0)
