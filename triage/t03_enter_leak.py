"""C16/SH1: randomize_with.__enter__ pushes expression mode before get_model(); if the model is first built there
and a constraint body raises, __exit__ never runs and the process stays in expression mode."""
from _pre import *
from vsc.impl import ctor, expr_mode

@vsc.randobj
class Obj:
    def __init__(self):
        self.a = vsc.rand_uint8_t()
        try:
            with self.randomize_with():
                pass
        except RuntimeError:
            pass
    @vsc.constraint
    def c(self):
        raise RuntimeError("user bug")
try:
    Obj()
except Exception as e:
    print("ctor:", type(e).__name__, e)
n = len(expr_mode._expr_mode)
print("_expr_mode depth", n)
print("BROKEN" if n else "HOLDS")
raise SystemExit(1 if n else 0)
