import vsc
@vsc.randobj
class Item:
    def __init__(self):
        self.a = vsc.rand_uint8_t()
        self.b = vsc.rand_uint8_t()
    @vsc.constraint
    def ab(self):
        self.a < self.b
@vsc.randobj
class Top:
    def __init__(self):
        self.items = vsc.rand_list_t(Item())
        for _ in range(3):
            self.items.append(Item())
    @vsc.constraint
    def c(self):
        with vsc.foreach(self.items) as it:
            it.a > 100
t = Top()
t.randomize()
new = Item()
t.items[1] = new
bad = 0
for i in range(5):
    t.randomize()
    it = t.items[1]
    if it is not new:
        bad += 1; print("items[1] is not the assigned object")
    if not (it.a < it.b and it.a > 100):
        bad += 1; print("call %d: items[1].a=%d b=%d violates a<b / a>100" % (i, it.a, it.b))
print("HOLDS" if not bad else "BROKEN")
raise SystemExit(1 if bad else 0)
