"""C12/C13 CV10: get_coverage ignores at_least (reports honour it) and weight."""
from _pre import *
@vsc.covergroup
class cg(object):
    def __init__(self):
        self.with_sample(dict(a=vsc.uint8_t(), b=vsc.uint8_t()))
        self.options.at_least = 2
        self.cpa = vsc.coverpoint(self.a, bins=dict(x=vsc.bin(1), y=vsc.bin(2)))
c = cg()
c.sample(1, 0); c.sample(2, 0)      # each bin hit once; at_least = 2 -> nothing covered yet
g = c.get_coverage()
rpt = vsc.get_coverage_report_model()
r = rpt.covergroups[0].coverage
print("get_coverage()=%s report=%s" % (g, r))
bad = abs(g - r) > 1e-6
print("BROKEN" if bad else "HOLDS")
raise SystemExit(1 if bad else 0)
