"""C15 RS2: dist weights are lost when the field's rand set is merged into an older one."""
from _pre import *

@vsc.randobj
class O:
    def __init__(self):
        self.a = vsc.rand_uint8_t()
        self.b = vsc.rand_uint8_t()
    @vsc.constraint
    def c(self):
        self.b < 250                                  # older set {b}
        vsc.dist(self.a, [vsc.weight(1, 1), vsc.weight(2, 100)])   # set {a} with dist map
        self.a < self.b                               # merge: a's set retired into b's set
o = O()
ones = 0
N = 300
for i in range(N):
    o.randomize()
    assert o.a in (1, 2) and o.a < o.b
    ones += (o.a == 1)
print("a==1 seen %d/%d (weights 1:100 -> expect about %d)" % (ones, N, N // 101))
bad = ones > 40
print("BROKEN" if bad else "HOLDS")
raise SystemExit(1 if bad else 0)
