"""C16: after a covergroup is constructed the shared expression stack is idle again."""
import sys
sys.path.insert(0, "/verif/triage")
import _pre  # noqa
import vsc
from vsc.impl import ctor


@vsc.covergroup
class cg1(object):
    def __init__(self):
        self.with_sample(dict(a=vsc.bit_t(4), b=vsc.bit_t(4), en=vsc.bit_t(1)))
        self.cp_a = vsc.coverpoint(self.a)
        self.cp_b = vsc.coverpoint(self.b)
        self.cr = vsc.cross([self.cp_a, self.cp_b], iff=(self.en == 1))


bad = []
c = cg1()
if len(ctor.expr_l) != 0:
    bad.append("after constructing a covergroup with cross(..., iff=<expr>) the expression stack holds %d entries" % len(ctor.expr_l))


@vsc.covergroup
class cg2(object):
    def __init__(self):
        self.with_sample(dict(a=vsc.bit_t(4)))
        self.cp_a = vsc.coverpoint(self.a, iff=object())


ctor.expr_l.clear()
try:
    cg2()
except Exception:
    pass
if len(ctor.expr_l) != 0:
    bad.append("after coverpoint(iff=<unsupported>) raised, the expression stack holds %d entries" % len(ctor.expr_l))
if bad:
    print("BROKEN: " + "; ".join(bad)); sys.exit(1)
print("HOLDS")
