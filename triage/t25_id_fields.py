"""C08/FT5: list_t._id_fields skips attributes named sum/product/size when numbering an element class's fields, but the model
(build_field_model) does not: a list element class with a field called `size` gets its later fields' indices shifted by one."""
from _pre import *
@vsc.randobj
class Item:
    def __init__(self):
        self.addr = vsc.rand_uint8_t()
        self.size = vsc.rand_uint8_t()
        self.tag = vsc.rand_uint8_t()
@vsc.randobj
class Top:
    def __init__(self):
        self.items = vsc.rand_list_t(Item(), 0)
        for i in range(3):
            self.items.append(Item())
    @vsc.constraint
    def c(self):
        with vsc.foreach(self.items) as it:
            it.tag == 5
            it.size == 9
bad = []
try:
    t = Top()
    for i in range(5):
        t.randomize()
        for k, it in enumerate(t.items):
            if it.tag != 5 or it.size != 9:
                bad.append("items[%d]: tag=%d size=%d (constraint: tag == 5, size == 9)" % (k, it.tag, it.size)); break
        if bad: break
except Exception as e:
    bad.append("%s: %s" % (type(e).__name__, str(e)[:100]))
for x in bad: print(x)
print("BROKEN" if bad else "HOLDS")
raise SystemExit(1 if bad else 0)
