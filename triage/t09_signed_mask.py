"""C18/FT1: signed scalar assignment is not reduced modulo 2^width."""
from _pre import *
bad = []
x = vsc.int8_t()
x.set_val(200)
if not (-128 <= x.get_val() <= 127): bad.append("int8_t.set_val(200) reads back %d" % x.get_val())
x.val = -300
if not (-128 <= x.val <= 127): bad.append("int8_t.val = -300 reads back %d" % x.val)
@vsc.randobj
class O:
    def __init__(self):
        self.s = vsc.int8_t()
o = O()
o.s = 130
if not (-128 <= o.s <= 127): bad.append("attribute assignment 130 reads back %d" % o.s)
for b in bad: print(b)
print("BROKEN" if bad else "HOLDS")
raise SystemExit(1 if bad else 0)
