"""C12/CV8: bin collections of different length compare equal, so differently parameterised covergroups share one type."""
from _pre import *
@vsc.covergroup
class cg(object):
    def __init__(self, n):
        self.with_sample(dict(a=vsc.uint8_t()))
        self.cp = vsc.coverpoint(self.a, bins=dict(b=vsc.bin_array([n], [0, 15])))
c4 = cg(4)
c8 = cg(8)
same = c4.get_model().type_cg is c8.get_model().type_cg
n4 = c4.get_model().coverpoint_l[0].get_n_bins(); n8 = c8.get_model().coverpoint_l[0].get_n_bins()
print("bins:", n4, n8, "share one type:", same)
bad = same and n4 != n8
print("BROKEN" if bad else "HOLDS")
raise SystemExit(1 if bad else 0)
