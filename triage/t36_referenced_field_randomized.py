import vsc
a = vsc.rand_uint8_t()
b = vsc.rand_uint8_t()
b.set_val(7) if hasattr(b, "set_val") else None
before = int(b.get_val()) if hasattr(b, "get_val") else None
print("before b =", before)
bad = 0
for i in range(5):
    with vsc.randomize_with(a):
        a < b
    print("a=%d b=%d" % (a.get_val(), b.get_val()))
    if int(b.get_val()) != before:
        bad += 1
print("HOLDS" if not bad else "BROKEN: b changed although not passed to randomize_with")
raise SystemExit(1 if bad else 0)
