import vsc
@vsc.randobj
class C:
    def __init__(self):
        self.m = vsc.uint8_t(1)
        self.a = vsc.rand_uint8_t()
    @vsc.constraint
    def c(self):
        with vsc.if_then(self.m):
            vsc.soft(self.a == 10)
        with vsc.else_then:
            vsc.soft(self.a == 20)
o = C()
bad = 0
for mv, exp in ((1, 10), (3, 10), (0, 20), (2, 10)):
    o.m = mv
    for i in range(6):
        o.randomize()
        if o.a != exp:
            bad += 1
            print("m=%d: a=%d expected %d" % (mv, o.a, exp)); break
@vsc.randobj
class D:
    def __init__(self):
        self.m = vsc.uint8_t(2)
        self.k = vsc.uint8_t(1)
        self.a = vsc.rand_uint8_t()
    @vsc.constraint
    def c(self):
        with vsc.if_then(self.m):
            with vsc.if_then(self.k):
                vsc.soft(self.a == 10)
d = D()
for i in range(6):
    d.randomize()
    if d.a != 10:
        bad += 1
        print("nested guards m=2 k=1: a=%d expected 10" % d.a); break
print("HOLDS" if not bad else "BROKEN")
raise SystemExit(1 if bad else 0)
