"""C16/C04 SH4: cached Boolector nodes of list sum/product survive a call."""
from _pre import *

@vsc.randobj
class P:
    def __init__(self):
        self.l = vsc.rand_list_t(vsc.uint8_t(), 3)
    @vsc.constraint
    def c(self):
        self.l.product < 50
        with vsc.foreach(self.l) as it:
            it > 0
@vsc.randobj
class S:
    def __init__(self):
        self.l = vsc.rand_list_t(vsc.uint8_t(), 3)
        self.lim = vsc.uint16_t(0)
    @vsc.constraint
    def c(self):
        self.l.sum == self.lim
bad = []
p_ = P()
try:
    p_.randomize(); p_.randomize()
except Exception as e:
    bad.append("product: second randomize raises %s: %s" % (type(e).__name__, str(e)[:80]))
s = S()
s.lim = 1000            # unsatisfiable (3 x uint8 <= 765)
try:
    s.randomize()
except vsc.SolveFailure:
    pass
s.lim = 30
try:
    s.randomize()
    if sum(s.l) != 30:
        bad.append("sum wrong after failure")
except Exception as e:
    bad.append("sum: randomize after a SolveFailure raises %s: %s" % (type(e).__name__, str(e)[:80]))
for b in bad: print(b)
print("BROKEN" if bad else "HOLDS")
raise SystemExit(1 if bad else 0)
