"""BD5: the three interval-coalescing loops take the later range's upper bound instead of the maximum."""
from _pre import *
bad = []
# (1) C14: inferred range for `a in rangelist` with a nested range
@vsc.randobj
class O:
    def __init__(self):
        self.a = vsc.rand_uint8_t()
    @vsc.constraint
    def c(self):
        self.a.inside(vsc.rangelist((0, 100), (5, 10)))
o = O()
from vsc.visitors.variable_bound_visitor import VariableBoundVisitor
m = o.get_model(); m.set_used_rand(True, 0)
v = VariableBoundVisitor(); v.process([m], [])
fa = [f for f in m.field_l if f.name == "a"][0]
rng = v.bound_m[fa].domain.range_l
if not (rng[0][0] <= 0 and rng[-1][1] >= 100):
    bad.append("C14: a in {[0..100],[5..10]}: inferred range %s does not contain the feasible values 11..100" % rng)
seen = set()
for i in range(200):
    o.randomize(); seen.add(o.a)
if max(seen) <= 10:
    bad.append("C14: in 200 calls a never exceeded %d although 0..100 are legal" % max(seen))
# (2) C19: wildcard bin array from two patterns where one value set contains the other
@vsc.covergroup
class cg(object):
    def __init__(self):
        self.with_sample(dict(a=vsc.bit_t(4)))
        self.cp = vsc.coverpoint(self.a, bins=dict(w=vsc.wildcard_bin_array([], "0b0xxx", "0b001x")))
c = cg()
cp = c.get_model().coverpoint_l[0]
names = [cp.get_bin_name(i) for i in range(cp.get_n_bins())]
if cp.get_n_bins() != 8:
    bad.append("C19: wildcard_bin_array('0b0xxx','0b001x') matches values 0..7 but has %d bins" % cp.get_n_bins())
for x in bad: print(x)
print("BROKEN" if bad else "HOLDS")
raise SystemExit(1 if bad else 0)
