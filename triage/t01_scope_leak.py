"""C16/SH1: exception in a constraint body during construction leaves a scope on constraint_scope_stack
and an entry on srcinfo_mode_s."""
from _pre import *
from vsc.impl import ctor, expr_mode

@vsc.randobj
class Bad:
    def __init__(self):
        self.a = vsc.rand_uint8_t()
    @vsc.constraint
    def c(self):
        raise RuntimeError("user bug")

try:
    Bad()
except RuntimeError:
    pass
state = dict(scope=len(ctor.constraint_scope_stack), srcinfo=len(ctor.srcinfo_mode_s), expr=len(expr_mode._expr_mode), exprs=len(ctor.expr_l))
print(state)

@vsc.randobj
class Good:
    def __init__(self):
        self.a = vsc.rand_uint8_t()
        self.b = vsc.rand_uint8_t()
    @vsc.constraint
    def c(self):
        vsc.solve_order(self.a, self.b)
        self.a < self.b
ok = True
try:
    g = Good()
    g.randomize()
except Exception as e:
    ok = False
    print("later construction fails:", e)
bad = any(v != 0 for v in state.values()) or not ok
print("BROKEN" if bad else "HOLDS")
raise SystemExit(1 if bad else 0)
