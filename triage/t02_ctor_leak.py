"""C16/SH1: exception in the user constructor leaves an entry on srcinfo_mode_s."""
from _pre import *
from vsc.impl import ctor, expr_mode

@vsc.randobj
class Bad:
    def __init__(self):
        self.a = vsc.rand_uint8_t()
        raise RuntimeError("user ctor bug")
for i in range(3):
    try:
        Bad()
    except RuntimeError:
        pass
n = len(ctor.srcinfo_mode_s)
print("srcinfo_mode_s depth", n)
print("BROKEN" if n else "HOLDS")
raise SystemExit(1 if n else 0)
