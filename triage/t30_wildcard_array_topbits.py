"""C19: a wildcard bin array has one bin per matching value, covering exactly the matching values."""
import sys
sys.path.insert(0, "/verif/triage")
import _pre  # noqa
import vsc


def check(pattern, width=4):
    @vsc.covergroup
    class cg(object):
        def __init__(self):
            self.with_sample(dict(a=vsc.bit_t(width)))
            self.cp = vsc.coverpoint(self.a, bins=dict(w=vsc.wildcard_bin_array([], pattern)))
    c = cg()
    digits = pattern[2:].replace("_", "")
    want = []
    for v in range(1 << width):
        bits = format(v, "0%db" % len(digits))
        if len(bits) == len(digits) and all(d in "x?" or d == b for d, b in zip(digits, bits)):
            want.append(v)
    hit = []
    for v in range(1 << width):
        before = [c.cp.get_model().get_bin_hits(i) for i in range(c.cp.get_model().get_n_bins())]
        c.sample(v)
        after = [c.cp.get_model().get_bin_hits(i) for i in range(c.cp.get_model().get_n_bins())]
        if after != before:
            hit.append(v)
    return want, hit, c.cp.get_model().get_n_bins()


bad = []
for p in ("0bxx01", "0b1x0x", "0bx1x0", "0b01xx"):
    want, hit, n = check(p)
    if want != hit or n != len(want):
        bad.append("%s: matching values %s, values that hit a bin %s, bins %d" % (p, want, hit, n))
if bad:
    print("BROKEN:", "; ".join(bad)); sys.exit(1)
print("HOLDS")
