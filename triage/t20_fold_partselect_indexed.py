"""C02/LW8: constant folding of if-conditions that use a part-select or a field of a sub-object."""
from _pre import *
@vsc.randobj
class Cfg:
    def __init__(self):
        self.pad = vsc.uint8_t(0)
        self.mode = vsc.uint8_t(0)
@vsc.randobj
class O:
    def __init__(self):
        self.l = vsc.rand_list_t(vsc.uint8_t(), 2)
        self.m = vsc.rand_list_t(vsc.uint8_t(), 2)
        self.flags = vsc.uint8_t(0)
        self.cfg = vsc.attr(Cfg())
    @vsc.constraint
    def c(self):
        with vsc.foreach(self.l, idx=True) as i:
            with vsc.if_then(self.flags[1] == 1):
                self.l[i] == 5
            with vsc.else_then:
                self.l[i] == 7
        with vsc.foreach(self.m, idx=True) as i:
            with vsc.if_then(self.cfg.mode == 3):
                self.m[i] == 5
            with vsc.else_then:
                self.m[i] == 7
o = O()
bad = []
for flags, mode in ((0, 0), (2, 3), (1, 1), (3, 3)):
    o.flags = flags; o.cfg.mode = mode; o.cfg.pad = 3
    try:
        o.randomize()
    except Exception as e:
        bad.append("flags=%d mode=%d: %s %s" % (flags, mode, type(e).__name__, str(e)[:60])); continue
    wl = 5 if (flags >> 1) & 1 else 7
    wm = 5 if mode == 3 else 7
    if list(o.l) != [wl] * 2: bad.append("flags=%d: l is %s, requires all %d (part-select condition)" % (flags, list(o.l), wl))
    if list(o.m) != [wm] * 2: bad.append("cfg.mode=%d: m is %s, requires all %d (sub-object field condition)" % (mode, list(o.m), wm))
for b in bad: print(b)
print("BROKEN" if bad else "HOLDS")
raise SystemExit(1 if bad else 0)
