import vsc
@vsc.randobj
class C:
    def __init__(self):
        self.en = vsc.list_t(vsc.uint8_t(), sz=4)
        self.d = vsc.rand_list_t(vsc.uint8_t(), sz=4)
    @vsc.constraint
    def c(self):
        with vsc.foreach(self.d, idx=True) as i:
            with vsc.if_then(self.en[i] == 1):
                self.d[i] == 100
            with vsc.else_then:
                self.d[i] < 10
o = C()
bad = 0
for pat in ([1,0,0,0], [0,1,0,1], [1,1,1,0], [0,0,0,1]):
    for k in range(4):
        o.en[k] = pat[k]
    for _ in range(5):
        o.randomize()
        for k in range(4):
            ok = (o.d[k] == 100) if pat[k] == 1 else (o.d[k] < 10)
            if not ok:
                bad += 1
                print("pattern %s: d=%s element %d violates its branch" % (pat, list(o.d), k))
                break
print("HOLDS" if bad == 0 else "BROKEN: %d" % bad)
raise SystemExit(1 if bad else 0)
