"""C03 RN1: a random-size list inside a NON-random sub-object changes its size."""
from _pre import *

@vsc.randobj
class Inner:
    def __init__(self):
        self.l = vsc.randsz_list_t(vsc.uint8_t())
    @vsc.constraint
    def c(self):
        self.l.size.inside(vsc.rangelist([1, 8]))

@vsc.randobj
class Outer:
    def __init__(self):
        self.x = vsc.rand_uint8_t()
        self.inner = vsc.attr(Inner())       # non-random sub-object
o = Outer()
o.inner.randomize()
bad = 0
for i in range(20):
    before = o.inner.l.size
    o.randomize()
    if o.inner.l.size != before:
        bad += 1
print("size of the non-random sub-object's list changed in %d/20 calls" % bad)
print("BROKEN" if bad else "HOLDS")
raise SystemExit(1 if bad else 0)
