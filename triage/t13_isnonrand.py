"""C14/BD1: an expression mixing random and non-random fields is classified by its LAST operand, so the inferred range of
`a` is computed from the random field b's previous value; feasible values of a are then never produced."""
from _pre import *
@vsc.randobj
class O:
    def __init__(self):
        self.a = vsc.rand_uint8_t()
        self.b = vsc.rand_uint8_t()
        self.k = vsc.uint8_t(1)
    def pre_randomize(self):
        self.b = 0                      # history: b always holds 0 when the call starts
    @vsc.constraint
    def c(self):
        self.b < 4
        self.a < (self.b + self.k)     # rhs: random b first, non-random k last -> classified "non-random"
o = O()
# (1) the inferred range itself
from vsc.visitors.variable_bound_visitor import VariableBoundVisitor
m = o.get_model()
m.set_used_rand(True, 0)
o.b = 0
v = VariableBoundVisitor(); v.process([m], [])
fa = [f for f in m.field_l if f.name == "a"][0]
rng = v.bound_m[fa].domain.range_l
print("inferred range of a:", rng, "  feasible values of a: 0..3")
# (2) behaviour
seen = set()
for i in range(200):
    o.randomize()
    assert o.a < o.b + 1 and o.b < 4
    seen.add(o.a)
print("values of a produced in 200 calls:", sorted(seen))
bad = (rng[0][1] < 3) or (seen != {0, 1, 2, 3})
print("BROKEN" if bad else "HOLDS")
raise SystemExit(1 if bad else 0)
