"""C01/C02/C04 LW10: expressions inside a foreach body are copied by ConstraintCopyBuilder; kinds it has no handler for are
replaced by their last operand (part-select -> its index literal) or by None (list.sum -> internal AttributeError)."""
from _pre import *
@vsc.randobj
class A:
    def __init__(self):
        self.l = vsc.rand_list_t(vsc.uint8_t(), 2)
        self.flags = vsc.uint8_t(0)
    @vsc.constraint
    def c(self):
        with vsc.foreach(self.l, idx=True) as i:
            with vsc.if_then(self.flags[1] == 1):
                self.l[i] == 5
            with vsc.else_then:
                self.l[i] == 7
@vsc.randobj
class B:
    def __init__(self):
        self.l = vsc.rand_list_t(vsc.uint8_t(), 3)
        self.m = vsc.rand_list_t(vsc.uint8_t(), 3)
    @vsc.constraint
    def c(self):
        with vsc.foreach(self.l, idx=True) as i:
            self.l[i] < 10
            self.m[i] == self.l.sum
bad = []
a = A()
for f in (0, 2):
    a.flags = f
    a.randomize()
    want = 5 if f & 2 else 7
    if list(a.l) != [want, want]:
        bad.append("part-select in foreach: flags=%d gives %s, requires all %d" % (f, list(a.l), want))
b = B()
try:
    b.randomize()
    if any(x != sum(b.l) for x in b.m):
        bad.append("sum in foreach violated: l=%s m=%s" % (list(b.l), list(b.m)))
except vsc.SolveFailure:
    bad.append("sum in foreach: SolveFailure on a satisfiable system")
except Exception as e:
    bad.append("sum in foreach: internal %s: %s" % (type(e).__name__, str(e)[:70]))
for x in bad: print(x)
print("BROKEN" if bad else "HOLDS")
raise SystemExit(1 if bad else 0)
