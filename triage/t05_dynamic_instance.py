"""C06/FT6: a dynamic constraint referenced through an older instance constrains the most recently constructed one."""
from _pre import *

@vsc.randobj
class O:
    def __init__(self):
        self.a = vsc.rand_uint8_t()
    @vsc.dynamic_constraint
    def small(self):
        self.a < 4
first = O()
second = O()          # the per-class wrapper now points at `second`'s block
bad = 0
for i in range(20):
    with first.randomize_with() as it:
        it.small()
    if first.a >= 4:
        bad += 1
print("violations on first:", bad, "/ 20")
print("BROKEN" if bad else "HOLDS")
raise SystemExit(1 if bad else 0)
