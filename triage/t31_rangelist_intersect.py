"""C10: ignore/illegal values are trimmed from the regular bins; every remaining value lands in exactly one regular bin, in order."""
import sys, itertools
sys.path.insert(0, "/verif/triage")
import _pre  # noqa
from vsc.model.rangelist_model import RangelistModel

bad = []
N = 12
cases = 0
for tgt in ([[1, 1], [2, 2], [3, 10]], [[0, 3], [5, 5], [7, 11]], [[0, 11]], [[2, 2], [4, 4], [6, 6], [8, 8]]):
    for k in (1, 2, 3):
        for excl in itertools.combinations([[a, b] for a in range(N) for b in range(a, min(a + 3, N))], k):
            if any(x[1] >= y[0] for x, y in zip(excl, excl[1:])):
                continue        # keep the exclusion list sorted and disjoint, as compact() leaves it
            cases += 1
            t = RangelistModel([list(r) for r in tgt])
            e = RangelistModel([list(r) for r in excl])
            want = sorted({v for r in tgt for v in range(r[0], r[1] + 1)} - {v for r in excl for v in range(r[0], r[1] + 1)})
            try:
                t.intersect(e)
                got = [v for r in t.range_l for v in range(r[0], r[1] + 1)]
            except Exception as ex:
                got = "%s: %s" % (type(ex).__name__, ex)
            if got != want:
                bad.append("target %s minus %s -> %s, expected values %s" % (tgt, list(excl), t.range_l if not isinstance(got, str) else got, want))
print("cases", cases, "bad", len(bad))
if bad:
    print("BROKEN:", bad[0]); sys.exit(1)
print("HOLDS")
