"""C02/LW8: constant folding of an if-condition ignores a negation (XExprEvaluator inherits the default traversal for unary),
so inside a foreach the wrong branch is kept."""
from _pre import *
@vsc.randobj
class O:
    def __init__(self):
        self.l = vsc.rand_list_t(vsc.uint8_t(), 3)
        self.mode = vsc.uint8_t(0)
    @vsc.constraint
    def c(self):
        with vsc.foreach(self.l, idx=True) as i:
            with vsc.if_then(~(self.mode == 0)):
                self.l[i] == 5
            with vsc.else_then:
                self.l[i] == 7
o = O()
bad = []
for mode in (0, 1, 0):
    o.mode = mode
    try:
        o.randomize()
    except Exception as e:
        bad.append("mode=%d: %s" % (mode, type(e).__name__)); continue
    want = 7 if mode == 0 else 5
    if list(o.l) != [want] * 3:
        bad.append("mode=%d: list is %s, constraint requires all %d" % (mode, list(o.l), want))
for b in bad: print(b)
print("BROKEN" if bad else "HOLDS")
raise SystemExit(1 if bad else 0)
