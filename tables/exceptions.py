"""Frozen, named exceptions: one symbol each, with the reason.  Nothing wider than a symbol."""

# LW9: accept()/override that does not resolve, on a construct no live visitor can reach
LW9_DEAD = {
    "CoverpointBinSingleValModel.accept":
        "bin models are reached through accept() only from ModelVisitor.visit_coverpoint / visit_coverpoint_bin_collection defaults; "
        "the only visitor ever applied to coverage models (CoverageSaveVisitor) overrides visit_coverpoint and reads bins through "
        "the flat getters, and RandInfoBuilder.visit_covergroup returns unless inside a generator (generator.randomize() itself "
        "calls do_randomize with the wrong arity and cannot run)",
    "ExprRefModel.accept":
        "ExprRefModel is built only as coverpoint target/iff (coverage.py) and evaluated with val(); no visitor walks coverpoint targets",
    "FieldBoolModel.accept":
        "FieldBoolModel is never constructed anywhere in src/vsc",
    "FieldrefVisitor.visit_inline_constraint":
        "FieldrefVisitor is instantiated only by its own static find(), which nothing calls",
}

# RS8: iteration over a set that is order-insensitive (key = "<function>:<iterable text>")
RS8_ORDER_FREE = {
    "model.rand_info_builder.RandInfoBuilder.visit_constraint_stmt_leave:self._active_order_randset_s":
        "the loop body only calls add_constraint(c) on each member; RandSet.add_constraint inserts into per-set containers, so the "
        "visiting order of the members cannot be observed (and nothing ever adds to this set today)",
}

# RN3: additional value writers on the randomize path (function -> reason)
RN3_WRITERS = {
}

# ST1: uses of Python's global `random` that are by design (key = function qual without the vsc. prefix)
ST1_GLOBAL_RANDOM = {
    "model.rand_state.RandState.mk":
        "documented default: without an explicit state the per-object seed is drawn once from Python's global random module",
    "methods.randomize":
        "documented default for free-standing vsc.randomize(): the one-call RandState is seeded from the global random module",
    "methods.randomize_with":
        "documented default for free-standing vsc.randomize_with(): the one-call RandState is seeded from the global random module",
    "methods.distselect":
        "procedural helper outside any object: specified to follow the global random seed",
    "model.rand_info_builder.RandInfoBuilder.build":
        "`rng = random` fallback feeds RandInfoBuilder.randint/sample only, which only visit_covergroup (generator path, not live) calls",
    "model.coverpoint_cross_model.CoverpointCrossModel.select_unhit_bin":
        "coverage-driven generator path only (reached from RandInfoBuilder.visit_covergroup, which returns unless inside a generator)",
}

# ST3: effects under a diagnostic guard that are accepted (key = "<function>:<effect>")
ST3_DIAG_EFFECTS = {
}

# RN6: reads of a list's size value that are bookkeeping, not constraint semantics (function -> reason)
RN6_BOOKKEEPING = {
    "ConstraintForeachModel.build": "never runs on the solve path: ArrayConstraintBuilder replaces every foreach by its expansion (a ConstraintOverrideModel, "
                                    "whose build() builds only the replacement) before anything is built, and that expansion unrolls over len(field_l)",
    "FieldArrayModel._set_size": "compares the stored size with the new one to decide whether caches must be invalidated; it then writes the size",
}

# LW8: expression kinds for which inheriting ModelVisitor's handler is correct in XExprEvaluator
LW8_INHERITED_OK = {
    "visit_expr_dynamic": "delegates to the single expanded expression e.expr(), whose own handler computes the value",
    "visit_expr_array_sum": "default forwards to visit_expr_dynamic (single expanded expression)",
    "visit_expr_array_product": "default forwards to visit_expr_dynamic (single expanded expression)",
    "visit_expr_range": "ranges occur only below visit_expr_in, which XExprEvaluator overrides and never descends into",
    "visit_expr_rangelist": "range lists occur only below visit_expr_in, which XExprEvaluator overrides and never descends into",
}

# NM2: statement-model attributes that are per-call working state by design (key = "Class.method:self.attr")
NM2_STATEFUL = {
    "ConstraintDistScopeModel.next_target_range:self.target_range":
        "the bucket chosen for this call; rewritten by every call before it is read (DistConstraintBuilder calls next_target_range per call)",
    "ConstraintDistScopeModel.set_dist_soft_c:self.dist_soft_c":
        "the scope object itself is created per call by DistConstraintBuilder, so this is per-call state",
    "ConstraintBlockModel.set_constraint_enabled:self.enabled":
        "the user-visible constraint_mode flag (C07), not derived state",
}

# OPT1: options that by design do not cascade from the covergroup
OPT1_NO_CASCADE = {"comment": "documented in the source: 'Comment doesn't cascade'"}

# CLONE: constructor-defined fields that clone() deliberately leaves at their default ("Class.attr" -> reason)
CLONE_NOT_COPIED = {
}

# FT17: functions whose build_field_model call needs no `model is None` guard (function -> reason)
FT17_FRESH = {
    "covergroup_interposer.with_sample": "sample parameters are the type objects written in the with_sample(...) call itself; they are created for this "
                                           "covergroup, belong to no other object and have had no value written",
}

# NM5: stores a per-call visitor may leave on a visited object ("<Visitor>.<method>|<attr>" -> reason)
NM5_OK = {
    "ConstraintOverrideRollbackVisitor.visit_constraint_override|depth": "nesting counter of the override wrapper, which is itself installed per call and "
                                                                         "removed by this very visitor",
}

# RS13: RandInfoBuilder visit methods that may stop or gate the walk on the pass number (method -> reason)
RS13_PASS_GATES = {
    "visit_covergroup": "covergroups are only met inside generators, whose coverage goals are turned into constraints in pass 1; nothing below a "
                        "covergroup can hold a solve_order directive or a dynamic-constraint reference",
}
