"""Per-property claim texts for MANIFEST.json (what is decided / assumed).  See DESIGN.md section 5."""

_GEN = ("Decides, exactly and on every path of the analysed functions of today's tree, the structural obligations listed; "
        "each is a necessary condition of the property (breaking it breaks the behaviour). It does not decide the "
        "value-level clauses (listed in DESIGN.md section 5 under 'not decided'), so this is not a proof of the property.")

_NOTE = ("Trusted: Python semantics as modelled by sa/sai.py; third-party code (pyboolector/Boolector, pyucis, toposort) behaves "
         "as documented; reference tables in /verif/tables are the oracle for opcode and bound semantics. ")


def _c(text, technique, note=""):
    return {"text": text + " " + _GEN, "technique": technique, "note": _NOTE + note}


CLAIMS = {
    "C01": _c("(seventh seeded round also: unique_vec compares all pairs; the copier never returns its input in copy mode.) (sixth seeded round also: the override cursor is used before any nested walk; the constant folder reads list[i] from the selected element; list.sum has at least w + ceil(log2 n) bits (decided on the bit_length / shift-loop idioms).) (after two seeded rounds also: conjunction folds keep earlier statements, the foreach copier copies every operand and has a handler for every expression kind, facade operators have a fixed expression-stack effect.) Hard constraints are assumed, checked and asserted before any randomising bit is tried, bits are asserted only "
              "after a SAT answer that included them, the model is read back only in a SAT state; every binary opcode lowers "
              "to the reference Boolector operator with both-signed extension; every constraint statement is attached to a "
              "rand set and survives rand-set merges; enum domains are asserted.",
              "typestate abstract interpretation of the solver protocol; partial evaluation of the opcode dispatcher; "
              "visitor-dispatch and merge-completeness analysis",
              "Value-level arithmetic of part-select / sum widths not decided."),
    "C02": _c("(seventh seeded round also: the failure clean-up covers every rand set; unique_vec folds positions with Or.) (sixth seeded round also: enum domains are an Or over all enumerators; a field added to a rand set is recorded in the field map; the dispose visitor reaches fields through accept.) (also: the constant folder evaluates every expression kind itself and every operator it applies is defined on the value class; no expansion reads a list size that is being solved - three known findings.) SolveFailure is raised exactly on the hard not-SAT branch (all its sub-paths) and nowhere else; soft and swizzle "
              "sections can never raise it; every expression class answers build/width/is_signed/accept; every accept reaches an "
              "existing visitor handler.",
              "typestate abstract interpretation; class-table exhaustiveness; dispatch closure",
              "Completeness of Boolector itself is assumed."),
    "C03": _c("(seventh seeded round also: the failure clean-up covers every rand set; caches built from the size are dropped.) (sixth seeded round also: a scalar field is used-random only through set_used_rand; a list is pre-extended only when its size is solved; list[i] is folded from the selected element.) (also: the used-rand walk below a composite is unconditional; everything build() memoises is reset on both exits of a solve; declared-rand is never derived from the per-call flag.) The used-as-random formula equals is_rand and ((declared and rand_mode) or level==0) on all 16 valuations, is "
              "propagated down the tree, recomputed before anything reads it; field values are written during a call only at the "
              "whitelisted, guarded sites; non-random fields enter the solver as constants of their current value.",
              "truth-table partial evaluation; effect (who-may-write) closure over the call graph; dominance facts in do_randomize"),
    "C04": _c("(seventh seeded round also: every under-populated object list gets its size limit.) (sixth seeded round also: max propagators read the last interval; every facade method that changes the object array changes the model array; sum width.) (also: size-dependent caches are invalidated after the solve, pre-extended elements are dropped, the foreach copier is complete; sum/product over a random-size list read a stale size - recorded as known findings.) List facade operations are bounded by the size field, the sum/product expansions and their solver caches are reset on "
              "both exits, foreach is unrolled over the list's elements with the index bound before the body is visited.",
              "def-use and snapshot-read analysis; effect analysis of cache attributes",
              "Whether each unrolled body holds is value-level."),
    "C05": _c("(seventh seeded round also: solver nodes are built for all fields of a rand set; the copier never returns its input.) (sixth seeded round also: a constant-false if walks whatever else side exists; soft-constraint guards are combined as Booleans.) (also: only soft constraints and the guard wrapper built around one carry the marker RandSet uses to file a statement as soft.) Soft constraints are only asserted after a SAT answer that included them, never raise SolveFailure; the fallback "
              "walks the soft list in descending priority after the sort; priorities are cleared per call and only incremented; soft "
              "guards are pushed/popped in balance; `soft` is forwarded verbatim by every container build().",
              "typestate abstract interpretation; stack-balance interpretation; constant propagation of the soft flag"),
    "C06": _c("(seventh seeded round also: the rollback visitor cannot skip part of the walk; no model builds to true because it is disabled.) (sixth seeded round also: conjunction folds of a block keep what earlier statements contributed.) (also: nothing derived from one instance's block is cached on the per-class wrappers apart from the known `model` slot - known finding FT6D; dynamic-constraint index tables index their own list.) Both randomize_with managers push/pop in balance on every exit and pass the popped block only to that call; dynamic "
              "constraints are stored apart, expanded in place, and resolved per instance.",
              "stack-balance abstract interpretation with exceptional edges; ownership (who-may-write) analysis"),
    "C07": _c("(seventh seeded round also: rand-set merges move all fields; construction stacks balanced on body exceptions.) (sixth seeded round also: no pass-gated return skips a descent; post_randomize runs after the rollback; the rollback visitor never gates on `enabled`.) (also: blocks are elaborated from the instance's own attribute list with no class-level memo; the solve and its callbacks start with expression mode left.) constraint_mode writes only the instance's block model; disabled blocks are skipped by both semantic visitors; "
              "`enabled` has three writers only.",
              "who-may-write effect analysis; guard-dominance check in the two visitors"),
    "C08": _c("(seventh seeded round also: the model update of a list method is not more conditional than the facade update.) (sixth seeded round also: an appended element inherits the list's random-ness; object-list element assignment updates the model.) (also: visitor state saved around nested composites is restored; per-call rewrites never outlive a failed call.) Composite index tables are assigned before the append; used-rand propagates only through declared-random composites; "
              "sub-object blocks are visited only under used-random composites; indexed references walk child indices from the root.",
              "def-use order analysis; truth table; guard dominance"),
    "C09": _c("(seventh seeded round also: dist bucket draws use the caller's state; randint returns a draw from [low, high].) (sixth seeded round also: no used-random forcing outside the root call (diagnostics included); a diagnostic block never rebinds a local the solve path reads.) (also: no per-call visitor leaves state on the objects it visits; per-call rewrites are rolled back on every exit.) Every random draw reachable from do_randomize goes through the RandState; no iteration over set-typed containers on "
              "the solve path; diagnostic-guarded statements have no effect on model, rand state or solver; get/set_randstate clone.",
              "call-graph reachability + receiver typing of RNG calls; set-iteration lint over reachable functions; effect analysis of debug-guarded code",
              "Assumes Boolector is deterministic for an identical API call sequence."),
    "C10": _c("(seventh seeded round also: the signed auto-bin range includes the minimum.) (sixth seeded round also: a pushed cache value is marked valid and type-level clones carry no iff; equals() rejects when any component differs.) (also: a bin container hands each child its own base plus the bins before it; in-place merge loops re-examine the merged range.) Every bin model's sample() sets its hit marker on all paths and reports hits with (bin_idx_base + offset, bin_type); "
              "coverage_ev dispatches exhaustively over the bin kinds and increments exactly one counter; sampling is gated by the iff cache; "
              "bins get contiguous bases.",
              "sibling comparison of the bin-model protocol; partial evaluation of coverage_ev; control-dependence checks",
              "Which (specification, value) pairs land in which bin is value-level and not decided."),
    "C11": _c("(sixth seeded round also: a pushed cache value is marked valid; type-level clones carry no iff.) (also: the value of a callable iff reaches the truth test unchanged; child bin bases are cumulative.) The single cross increment is control-dependent on cross iff, each coverpoint's iff and a found hit per coverpoint; the key "
              "is built in coverpoint order; coverpoints are sampled before crosses and markers reset after every sample.",
              "control-dependence and ordering analysis"),
    "C12": _c("(seventh seeded round also: sub-bin sizes are read through get_n_bins().) (sixth seeded round also: a pushed cache value is marked valid; type-level clones carry no iff; equals() rejects when any component differs.) (also: the registry's shape search examines every registered type; bin hit markers are reset on a miss.) register_cg sets type_cg and appends the instance on every path; equals() compares what clone() copies and fails on length "
              "mismatch; hit counters are only incremented; get_coverage depends on at_least/weight.",
              "sibling comparison of equals/clone; who-writes effect analysis; value-dependence analysis"),
    "C13": _c("(sixth seeded round also: type scopes are named by the type name and weights are handed on unconverted.) In every bin loop of the save visitor the count, name and hit getters and the UCIS kind belong to one category; the "
              "visitor reaches types, instances, coverpoints, crosses and all three bin categories; report/save paths write no "
              "coverage-model attribute.",
              "category-agreement check; effect closure",
              "PyUCIS internals are outside /repo."),
    "C14": _c("(seventh seeded round also: no memo on visited nodes; swizzle candidates are not truncated before the pick.) (sixth seeded round also: the signed base domain includes the most negative value.) (also: interval coalescing keeps the larger upper bound, bound builders are called with the expression's own operator, enum domains are sorted, propagators keep no state on persistent expressions.) Predicate visitors are monotone; bound propagators are only built at statement depth 0 and their op tables "
              "over-approximate; disabled blocks are skipped; the unconstrained draw and the swizzler take their range from the bound map.",
              "monotonicity check; partial evaluation of propagator tables; depth-counter balance",
              "Interval arithmetic of the propagators is value-level."),
    "C15": _c("(seventh seeded round also: every element kind of an inside list builds its own term; next_target_range always draws.) (sixth seeded round also: only soft constraints and their guard wrappers carry the soft marker.) (also: the swizzler's candidate list holds used-random fields only; the dist rewrite is rolled back on every exit.) The dist rewrite adds membership over every weight plus an exclusion per zero weight as hard statements and always "
              "installs the override; zero weights are filtered from the selection list; dist scopes are registered with the field's "
              "rand set and survive merges.",
              "path analysis of the dist builder; merge-completeness",
              "Frequencies are not decided."),
    "C16": _c("(seventh seeded round also: two-operand constructors pop before the second conversion.) (sixth seeded round also: the dispose visitor reaches fields through accept; the rollback reaches disabled blocks.) (also: every diagnostics session disposes what it built; callbacks start with the mode stacks idle.) Every function has net effect 0 on the five global stacks on every exit including exceptional exits at user-code call "
              "sites (context managers: +k on enter, -k on exit); overrides are rolled back in a finally; solver-handle attributes are "
              "reset on both exits of a solve.",
              "stack-balance abstract interpretation with exceptional edges at user callbacks; effect analysis of solver-handle attributes"),
    "C17": _c("(seventh seeded round also: a list forwards set_used_rand unconditionally.) (sixth seeded round also: an appended element inherits the list's random-ness; model building skips only dunder/_int names.) (also: declared-rand of appended elements comes from the declaration; callbacks run outside expression mode.) The callback invocation sites are guarded by used-rand and rand_if; recursion is guarded by the visited list; "
              "pre_randomize propagation precedes bounds/array expansion/solve, post_randomize follows the rollback; each appears in "
              "exactly one loop over the roots.",
              "dominance/ordering facts in do_randomize; guard checks; call-path counting"),
    "C18": _c("(seventh seeded round also: randint returns a draw from [low, high].) (sixth seeded round also: enum domains are an Or over all enumerators.) (also: a field model is built once - unguarded build_field_model only where every override keeps an existing model; the enumerator table is keyed by the enum class.) Every facade write path passes a width-masked value; attribute access routes through get_val/set_val outside raw "
              "mode; enum writes convert with e2v and reads with v2e.",
              "value-dependence (def-use) analysis of the write paths; sibling comparison",
              "Bit arithmetic of part-select is value-level."),
    "C19": _c("(sixth seeded round also: pattern width skips the separators the parser skips.) (also: overlap collapsing re-examines a merged range; containers of wildcard ranges offset their children by their own base.) Each base arm of the pattern parser is self-consistent (shift, mask, radix) and all arms share wildcard characters; the "
              "(value, mask) roles agree at every consumer; the wildcard bin's sample follows the bin protocol.",
              "partial evaluation of the parser arms; role-flow analysis",
              "That valmask2binlist enumerates exactly the matching values is value-level and not decided."),
    "C20": _c("(seventh seeded round also: no class-level container is shared through self.) (sixth seeded round also: bound offsets for `expr >= var`; a field added to a rand set is recorded in the field map.) (also: the expansion of a directive is recomputed per call and visits both sides unconditionally.) solve_order's before/after arguments reach the element/key positions of the dependency map in that direction, are "
              "consumed in pass 0 only and contribute no formula; ordered groups are swizzled in list order inside the same protocol.",
              "role-flow analysis; typestate (shared with C01)",
              "Every statement about probabilities is not decided."),
}

NOT_APPLICABLE = {}
