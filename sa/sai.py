"""SAI: structured abstract interpreter over Python statement syntax.

A syntax-directed forward interpreter over if/for/while/try/with/return/raise/break/
continue with a pluggable finite abstract state.  Loops run to a fixpoint over *sets* of
states (powerset domain, so joins lose nothing); exits are collected per kind.

Exceptional edges exist only where the domain says a call may raise.  Path sensitivity:
call-free branch tests are remembered as facts keyed by their normalised text and are
invalidated by writes to the names they mention; selected counters can be tracked with a
symbolic +k/-k offset (needed for the ``ctor_level == 0`` idiom).
"""
import ast
from collections import namedtuple

from .ir import norm, calls_in_order, assigned_targets, names_in, AnalysisError, dotted

St = namedtuple("St", "facts deltas u")

FALL, RET, RAISE, BRK, CONT = "fall", "return", "raise", "break", "continue"


class Outs:
    """Outcome sets of executing a statement / block."""

    def __init__(self):
        self.fall = set()
        self.ret = set()
        self.brk = set()
        self.cont = set()
        self.rais = set()   # (state, label, site)

    def merge(self, o):
        self.fall |= o.fall
        self.ret |= o.ret
        self.brk |= o.brk
        self.cont |= o.cont
        self.rais |= o.rais
        return self

    def add(self, kind, st, info=None):
        if kind == FALL:
            self.fall.add(st)
        elif kind == RET:
            self.ret.add(st)
        elif kind == BRK:
            self.brk.add(st)
        elif kind == CONT:
            self.cont.add(st)
        elif kind == RAISE:
            lab, site = info if info else (None, None)
            self.rais.add((st, lab, site))
        else:
            raise ValueError(kind)


def _mentions(key_names, target):
    """does assigning `target` invalidate a fact mentioning names `key_names`?"""
    t = target[:-2] if target.endswith("[]") else target
    for n in key_names:
        if n == t or n.startswith(t + ".") or t.startswith(n + "."):
            return True
    return False


class Domain:
    """Base domain: facts + deltas; override on_call / on_test_atom / hooks."""

    delta_names = ()          # dotted names tracked with symbolic offset
    track_facts = True
    #: calls whose name is in this set kill every fact on attribute names (unknown side effects)
    def initial_user(self):
        return ()

    def initial(self):
        return St(frozenset(), frozenset(), self.initial_user())

    # ---- events -----------------------------------------------------------------
    def on_call(self, st, call, ctx):
        """-> list of (kind, state, info) with kind FALL or RAISE"""
        return [(FALL, st, None)]

    def on_assign(self, st, stmt):
        return st

    def on_return(self, st, stmt):
        return st

    def on_stmt(self, st, stmt):
        """hook before a simple statement is evaluated"""
        return st

    def on_test_atom(self, st, atom):
        """Decide an atom containing calls: -> None (unknown) or list of (truth, state)."""
        return None

    def on_with_enter(self, st, item, ctx):
        return [(FALL, st, None)]

    def on_with_exit(self, st, item, exceptional, ctx):
        return [(FALL, st, None)]

    def on_for(self, st, node, first=True):
        """-> list of ('enter'|'exit', state); first = first evaluation of the loop head"""
        return [("enter", st), ("exit", st)]

    def raise_label(self, st, stmt, caught):
        """caught is None or (label, handler_name) of the enclosing except clause"""
        if stmt.exc is None:
            return caught[0] if caught else None
        if isinstance(stmt.exc, ast.Name) and caught is not None and stmt.exc.id == caught[1]:
            return caught[0]
        d = dotted(stmt.exc)
        return d.split(".")[-1] if d else None

    def handler_matches(self, label, handler):
        if handler.type is None:
            return "yes"
        names = []
        t = handler.type
        for e in (t.elts if isinstance(t, ast.Tuple) else [t]):
            d = dotted(e)
            names.append(d.split(".")[-1] if d else None)
        if "Exception" in names or "BaseException" in names:
            return "yes"
        if label is None:
            return "maybe"
        return "yes" if label in names else "no"

    def volatile(self, name):
        return False

    def skip(self, stmt):
        """True => the (compound) statement is irrelevant to this domain and is treated as a no-op
        (its assigned names still invalidate facts).  Must be False for anything containing
        return/raise/break/continue."""
        return False

    PURE_BUILTINS = {"len", "int", "str", "abs", "min", "max", "isinstance", "hasattr", "bool", "type", "id"}

    def pure_call(self, call):
        """calls allowed inside remembered facts"""
        return isinstance(call.func, ast.Name) and call.func.id in self.PURE_BUILTINS

    def while_first(self, st, node, ctx):
        """first evaluation of `while i < B` right after `i = A`: both loops over the same (A, B)
        agree on emptiness."""
        t = node.test
        if not (isinstance(t, ast.Compare) and len(t.ops) == 1 and isinstance(t.left, ast.Name)
                and isinstance(t.ops[0], (ast.Lt, ast.LtE))):
            return None
        if not all(self.pure_call(c) for c in calls_in_order(t)):
            return None
        idx = t.left.id
        init = None
        for k, v in st.facts:
            if k[0].startswith("init %s = " % idx) and v:
                init = k[0][len("init %s = " % idx):]
                init_names = tuple(n for n in k[1] if n != idx)
        if init is None:
            return None
        b = t.comparators[0]
        key = ("range nonempty %s .. %s%s" % (init, norm(b), "=" if isinstance(t.ops[0], ast.LtE) else ""),
               tuple(sorted(set(init_names) | names_in(b))), ())
        for k, v in st.facts:
            if k == key:
                return [(v, st)]
        return [(True, st._replace(facts=st.facts | {(key, True)})),
                (False, st._replace(facts=st.facts | {(key, False)}))]

    def note_init(self, st, stmt):
        """remember `i = <call-free expr>` so that while_first can correlate index loops"""
        if (isinstance(stmt, ast.Assign) and len(stmt.targets) == 1 and isinstance(stmt.targets[0], ast.Name)
                and not calls_in_order(stmt.value) and isinstance(stmt.value, (ast.Name, ast.Attribute, ast.Constant))):
            idx = stmt.targets[0].id
            key = ("init %s = %s" % (idx, norm(stmt.value)), tuple(sorted({idx} | names_in(stmt.value))), ())
            return st._replace(facts=st.facts | {(key, True)})
        return st

    # ---- facts ------------------------------------------------------------------
    def _delta(self, st, name):
        for n, d in st.deltas:
            if n == name:
                return d
        return 0

    def fact_key(self, st, atom):
        """canonical key + polarity for a call-free atom"""
        pol = True
        a = atom
        if isinstance(a, ast.Compare) and len(a.ops) == 1:
            l, op, r = a.left, a.ops[0], a.comparators[0]
            if isinstance(op, (ast.IsNot, ast.NotEq)):
                pol = False
                key = "%s == %s" % (norm(l), norm(r))
            elif isinstance(op, (ast.Is, ast.Eq)):
                key = "%s == %s" % (norm(l), norm(r))
            elif isinstance(op, ast.NotIn):
                pol = False
                key = "%s in %s" % (norm(l), norm(r))
            else:
                key = norm(a)
        else:
            key = norm(a)
        nm = tuple(sorted(names_in(atom)))
        ds = tuple((n, self._delta(st, n)) for n in nm if n in self.delta_names)
        return (key, nm, ds), pol

    def decide(self, st, test, ctx):
        """-> list of (truth, state) plus raising outcomes as ('raise', state, info)"""
        if isinstance(test, ast.UnaryOp) and isinstance(test.op, ast.Not):
            out = []
            for r in self.decide(st, test.operand, ctx):
                out.append(r if r[0] == RAISE else ((not r[0]), r[1]))
            return out
        if isinstance(test, ast.BoolOp):
            is_and = isinstance(test.op, ast.And)
            cur = [st]
            final = []
            for i, v in enumerate(test.values):
                nxt = []
                for s in cur:
                    for r in self.decide(s, v, ctx):
                        if r[0] == RAISE:
                            final.append(r)
                        elif r[0] == is_and:
                            nxt.append(r[1])
                        else:
                            final.append((not is_and, r[1]))
                cur = nxt
            for s in cur:
                final.append((is_and, s))
            return final
        if isinstance(test, ast.Constant):
            return [(bool(test.value), st)]
        calls = calls_in_order(test)
        if calls and not all(self.pure_call(c) for c in calls):
            r = self.on_test_atom(st, test)
            if r is not None:
                return r
            states = [st]
            outs = []
            for c in calls:
                nxt = []
                for s in states:
                    for kind, s2, info in self.on_call(s, c, ctx):
                        if kind == RAISE:
                            outs.append((RAISE, s2, info))
                        else:
                            nxt.append(s2)
                states = nxt
            for s in states:
                outs.append((True, s))
                outs.append((False, s))
            return outs
        if not self.track_facts or any(self.volatile(n) for n in names_in(test)):
            return [(True, st), (False, st)]
        key, pol = self.fact_key(st, test)
        for k, v in st.facts:
            if k == key:
                return [(v == pol, st)]
        return [
            (True, st._replace(facts=st.facts | {(key, pol)})),
            (False, st._replace(facts=st.facts | {(key, not pol)})),
        ]

    def invalidate(self, st, targets, stmt=None):
        if not targets:
            return st
        deltas = dict(st.deltas)
        facts = st.facts
        for t in targets:
            if (stmt is not None and isinstance(stmt, ast.AugAssign) and t in self.delta_names
                    and isinstance(stmt.op, (ast.Add, ast.Sub))
                    and isinstance(stmt.value, ast.Constant) and isinstance(stmt.value.value, int)):
                k = stmt.value.value if isinstance(stmt.op, ast.Add) else -stmt.value.value
                deltas[t] = deltas.get(t, 0) + k
                continue
            facts = frozenset(f for f in facts if not _mentions(f[0][1], t))
        return st._replace(facts=facts, deltas=frozenset((k, v) for k, v in deltas.items() if v != 0))


class Ctx:
    __slots__ = ("caught", "func")

    def __init__(self, func=None, caught=None):
        self.func = func
        self.caught = caught


class Interp:
    def __init__(self, dom, max_iter=200, func=None):
        self.dom = dom
        self.max_iter = max_iter
        self.func = func

    # -------------------------------------------------------------- entry points
    def run(self, fnode, init=None, loop_body=False):
        """loop_body=True: fnode.body is the body of a loop analysed on its own - `continue` ends the iteration like falling off
        the end does (its states are added to outs.fall); `break` states stay in outs.brk"""
        states = {self.dom.initial()} if init is None else set(init)
        outs = self.block(fnode.body, states, Ctx(self.func))
        if loop_body:
            outs.fall |= outs.cont
            outs.cont = set()
            return outs
        if outs.brk or outs.cont:
            raise AnalysisError("break/continue escaping function %s" % getattr(fnode, "name", "?"))
        return outs

    # --------------------------------------------------------------------- blocks
    def block(self, stmts, states, ctx):
        outs = Outs()
        cur = set(states)
        for st in stmts:
            if not cur:
                break
            nxt = set()
            for s in cur:
                o = self.stmt(st, s, ctx)
                nxt |= o.fall
                o.fall = set()
                outs.merge(o)
            cur = nxt
        outs.fall |= cur
        return outs

    def _events(self, s, node, ctx, outs):
        """run the calls under node in order; returns surviving states"""
        states = [s]
        for c in calls_in_order(node):
            nxt = []
            for x in states:
                for kind, x2, info in self.dom.on_call(x, c, ctx):
                    if kind == RAISE:
                        outs.add(RAISE, x2, info)
                    else:
                        nxt.append(x2)
            states = nxt
        return states

    def stmt(self, st, s, ctx):
        dom = self.dom
        outs = Outs()
        if isinstance(st, (ast.If, ast.For, ast.While, ast.Try, ast.With, ast.AsyncFor, ast.AsyncWith)) and dom.skip(st):
            tg = []
            for n in ast.walk(st):
                if isinstance(n, (ast.Assign, ast.AugAssign, ast.AnnAssign, ast.For)):
                    tg += assigned_targets(n)
            outs.add(FALL, dom.invalidate(s, tg))
            return outs
        if isinstance(st, (ast.FunctionDef, ast.AsyncFunctionDef, ast.ClassDef, ast.Pass,
                           ast.Import, ast.ImportFrom, ast.Global, ast.Nonlocal)):
            outs.add(FALL, s)
        elif isinstance(st, (ast.Expr, ast.Assign, ast.AugAssign, ast.AnnAssign, ast.Delete, ast.Assert)):
            s = dom.on_stmt(s, st)
            for x in self._events(s, st, ctx, outs):
                x = dom.invalidate(x, assigned_targets(st), st)
                x = dom.note_init(x, st)
                x = dom.on_assign(x, st) if isinstance(st, (ast.Assign, ast.AugAssign, ast.AnnAssign)) else x
                # `flag = <call-free test>`: the flag's truth is the test's truth at this point
                if (dom.track_facts and isinstance(st, ast.Assign) and len(st.targets) == 1 and isinstance(st.targets[0], ast.Name)
                        and (isinstance(st.value, (ast.Compare, ast.BoolOp))
                             or (isinstance(st.value, ast.UnaryOp) and isinstance(st.value.op, ast.Not)))
                        and not calls_in_order(st.value) and st.targets[0].id not in names_in(st.value)
                        and not dom.volatile(st.targets[0].id)):
                    nm = st.targets[0].id
                    for r in dom.decide(x, st.value, ctx):
                        if r[0] == RAISE:
                            outs.add(RAISE, r[1], r[2])
                        else:
                            outs.add(FALL, r[1]._replace(facts=r[1].facts | {((nm, (nm,), ()), bool(r[0]))}))
                    continue
                outs.add(FALL, x)
        elif isinstance(st, ast.Return):
            s = dom.on_stmt(s, st)
            for x in (self._events(s, st.value, ctx, outs) if st.value is not None else [s]):
                outs.add(RET, dom.on_return(x, st))
        elif isinstance(st, ast.Raise):
            s = dom.on_stmt(s, st)
            xs = self._events(s, st.exc, ctx, outs) if st.exc is not None else [s]
            for x in xs:
                lab = dom.raise_label(x, st, ctx.caught)
                outs.add(RAISE, x, (lab, st))
        elif isinstance(st, ast.Break):
            outs.add(BRK, s)
        elif isinstance(st, ast.Continue):
            outs.add(CONT, s)
        elif isinstance(st, ast.If):
            s = dom.on_stmt(s, st)
            ts, fs = set(), set()
            for r in dom.decide(s, st.test, ctx):
                if r[0] == RAISE:
                    outs.add(RAISE, r[1], r[2])
                elif r[0]:
                    ts.add(r[1])
                else:
                    fs.add(r[1])
            if ts:
                outs.merge(self.block(st.body, ts, ctx))
            if fs:
                outs.merge(self.block(st.orelse, fs, ctx))
        elif isinstance(st, ast.While):
            outs.merge(self._loop(st, {s}, ctx, is_for=False))
        elif isinstance(st, (ast.For, ast.AsyncFor)):
            s = dom.on_stmt(s, st)
            xs = self._events(s, st.iter, ctx, outs)
            outs.merge(self._loop(st, set(xs), ctx, is_for=True))
        elif isinstance(st, ast.Try):
            outs.merge(self._try(st, s, ctx))
        elif isinstance(st, (ast.With, ast.AsyncWith)):
            outs.merge(self._with(st, 0, s, ctx))
        else:
            raise AnalysisError("unsupported statement kind %s at line %s" % (type(st).__name__, getattr(st, "lineno", "?")))
        return outs

    # ---------------------------------------------------------------------- loops
    def _loop(self, st, entry, ctx, is_for):
        dom = self.dom
        outs = Outs()
        head_seen = set()
        work = set(entry)
        it = 0
        while work:
            it += 1
            if it > self.max_iter:
                raise AnalysisError("loop at line %d did not reach a fixpoint" % st.lineno)
            new = work - head_seen
            head_seen |= new
            work = set()
            enter, leave = set(), set()
            for s in new:
                if is_for:
                    for k, x in dom.on_for(s, st, it == 1):
                        if k == "enter":
                            enter.add(dom.invalidate(x, assigned_targets(st)))
                        else:
                            leave.add(x)
                else:
                    rs = dom.while_first(s, st, ctx) if (it == 1) else None
                    if rs is None:
                        rs = dom.decide(s, st.test, ctx)
                    for r in rs:
                        if r[0] == RAISE:
                            outs.add(RAISE, r[1], r[2])
                        elif r[0]:
                            enter.add(r[1])
                        else:
                            leave.add(r[1])
            if enter:
                b = self.block(st.body, enter, ctx)
                outs.ret |= b.ret
                outs.rais |= b.rais
                outs.fall |= b.brk          # break leaves the loop, skipping orelse
                work |= (b.fall | b.cont)
            if leave:
                if st.orelse:
                    o = self.block(st.orelse, leave, ctx)
                    outs.merge(o)
                else:
                    outs.fall |= leave
        return outs

    # ------------------------------------------------------------------------ try
    def _try(self, st, s, ctx):
        dom = self.dom
        body = self.block(st.body, {s}, ctx)
        res = Outs()
        res.ret |= body.ret
        res.brk |= body.brk
        res.cont |= body.cont
        if st.orelse and body.fall:
            res.merge(self.block(st.orelse, body.fall, ctx))
        else:
            res.fall |= body.fall
        for (x, lab, site) in body.rais:
            caught = False
            for h in st.handlers:
                m = dom.handler_matches(lab, h)
                if m == "no":
                    continue
                hctx = Ctx(ctx.func, (lab, h.name))
                hx = dom.invalidate(x, [h.name] if h.name else [])
                res.merge(self.block(h.body, {hx}, hctx))
                if m == "yes":
                    caught = True
                    break
            if not caught:
                res.rais.add((x, lab, site))
        if not st.finalbody:
            return res
        fin = Outs()

        def through(states, kind, info_of=None):
            for item in states:
                x = item[0] if kind == RAISE else item
                f = self.block(st.finalbody, {x}, ctx)
                fin.ret |= f.ret
                fin.rais |= f.rais
                fin.brk |= f.brk
                fin.cont |= f.cont
                for y in f.fall:
                    if kind == RAISE:
                        fin.rais.add((y, item[1], item[2]))
                    else:
                        fin.add(kind, y)

        through(res.fall, FALL)
        through(res.ret, RET)
        through(res.brk, BRK)
        through(res.cont, CONT)
        through(res.rais, RAISE)
        return fin

    # ----------------------------------------------------------------------- with
    def _with(self, st, idx, s, ctx):
        dom = self.dom
        res = Outs()
        if idx >= len(st.items):
            return self.block(st.body, {s}, ctx)
        item = st.items[idx]
        entered = []
        for x in self._events(s, item.context_expr, ctx, res):
            for kind, x2, info in dom.on_with_enter(x, item, ctx):
                if kind == RAISE:
                    res.add(RAISE, x2, info)
                else:
                    tg = []
                    if item.optional_vars is not None:
                        tg = [d for d in [dotted(item.optional_vars)] if d]
                    entered.append(dom.invalidate(x2, tg))
        for x in entered:
            inner = self._with(st, idx + 1, x, ctx)
            for kind, states in ((FALL, inner.fall), (RET, inner.ret), (BRK, inner.brk), (CONT, inner.cont)):
                for y in states:
                    for k2, y2, info in dom.on_with_exit(y, item, False, ctx):
                        if k2 == RAISE:
                            res.add(RAISE, y2, info)
                        else:
                            res.add(kind, y2)
            for (y, lab, site) in inner.rais:
                for k2, y2, info in dom.on_with_exit(y, item, True, ctx):
                    if k2 == RAISE:
                        res.add(RAISE, y2, info)
                    else:
                        res.rais.add((y2, lab, site))
        return res
