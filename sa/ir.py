"""IR: program model of /repo/src/vsc built from `ast` only.

Nothing here imports or executes the analysed code.  The model knows modules,
imports (incl. package re-exports and star imports), classes with linearised
bases, methods, nested defs, and the *interposer pseudo-classes*: functions that
are defined inside a decorator body and attached with ``setattr(T, "name", fn)``
are modelled as methods of the interposer class defined in the same body.
"""
import ast
import os
import hashlib


class AnalysisError(Exception):
    """The analysed tree no longer has the shape a rule is anchored in."""


class Func:
    __slots__ = ("name", "qual", "module", "cls", "node", "outer", "is_static", "is_property")

    def __init__(self, name, qual, module, cls, node, outer=None):
        self.name = name
        self.qual = qual
        self.module = module
        self.cls = cls
        self.node = node
        self.outer = outer
        decos = [_dotted(d) for d in getattr(node, "decorator_list", [])]
        self.is_static = "staticmethod" in decos or "classmethod" in decos
        self.is_property = "property" in decos or any(d and d.endswith(".setter") for d in decos)

    @property
    def params(self):
        a = self.node.args
        return [x.arg for x in a.posonlyargs + a.args]

    @property
    def file(self):
        return self.module.relpath

    def loc(self, node=None):
        n = node if node is not None else self.node
        return "%s:%d" % (self.module.relpath, getattr(n, "lineno", 0))

    def __repr__(self):
        return "<Func %s>" % self.qual


class Class:
    def __init__(self, name, qual, module, node, outer=None):
        self.name = name
        self.qual = qual
        self.module = module
        self.node = node
        self.outer = outer          # enclosing Func for local classes
        self.methods = {}
        self.class_attrs = {}       # name -> value node
        self.base_exprs = list(node.bases) if node is not None else []
        self.pseudo_of = None

    def loc(self):
        return "%s:%d" % (self.module.relpath, self.node.lineno)

    def __repr__(self):
        return "<Class %s>" % self.qual


class Module:
    def __init__(self, name, path, relpath, tree, src):
        self.name = name
        self.path = path
        self.relpath = relpath
        self.tree = tree
        self.src = src
        self.imports = {}     # local name -> ("mod", modname) | ("sym", modname, symname)
        self.star = []        # modules star-imported
        self.functions = {}
        self.classes = {}
        self.globals = {}     # top-level assigned names -> value node
        self.is_pkg = path.endswith("__init__.py")

    def __repr__(self):
        return "<Module %s>" % self.name


def _dotted(node):
    if isinstance(node, ast.Name):
        return node.id
    if isinstance(node, ast.Attribute):
        b = _dotted(node.value)
        return None if b is None else b + "." + node.attr
    if isinstance(node, ast.Call):
        return _dotted(node.func)
    return None


dotted = _dotted


def canon_single_use_tests(tree):
    """Canonicalisation applied to every module before analysis: a local that is assigned once, immediately before an
    `if`, and read exactly once - in that `if`'s test - is substituted back into the test (`t = E; if t:` == `if E:`).
    Keeps every rule independent of whether a condition was hoisted into a temporary."""
    n_inl = 0
    for f in ast.walk(tree):
        if not isinstance(f, (ast.FunctionDef, ast.AsyncFunctionDef)):
            continue
        loads, stores = {}, {}
        for n in ast.walk(f):
            if isinstance(n, ast.Name):
                d = loads if isinstance(n.ctx, ast.Load) else stores
                d[n.id] = d.get(n.id, 0) + 1
            elif isinstance(n, (ast.Global, ast.Nonlocal)):
                for x in n.names:
                    stores[x] = stores.get(x, 0) + 2
            elif isinstance(n, ast.arg):
                stores[n.arg] = stores.get(n.arg, 0) + 1
        cands = {v for v in stores if stores[v] == 1 and loads.get(v, 0) == 1}
        if not cands:
            continue
        for n in ast.walk(f):
            for fld in ("body", "orelse", "finalbody"):
                blk = getattr(n, fld, None)
                if not (isinstance(blk, list) and blk and isinstance(blk[0], ast.stmt)):
                    continue
                i = 0
                while i + 1 < len(blk):
                    a, b = blk[i], blk[i + 1]
                    if (isinstance(a, ast.Assign) and len(a.targets) == 1 and isinstance(a.targets[0], ast.Name)
                            and a.targets[0].id in cands and isinstance(b, ast.If)):
                        v = a.targets[0].id
                        occ = [x for x in ast.walk(b.test) if isinstance(x, ast.Name) and x.id == v]
                        if len(occ) == 1 and not any(isinstance(x, (ast.Lambda, ast.ListComp, ast.GeneratorExp, ast.SetComp, ast.DictComp))
                                                     for x in ast.walk(b.test)):
                            b.test = _Subst(v, a.value).visit(b.test)
                            del blk[i]
                            n_inl += 1
                            continue
                    i += 1
    return n_inl


class _Subst(ast.NodeTransformer):
    def __init__(self, name, value):
        self.name, self.value = name, value

    def visit_Name(self, node):
        return self.value if node.id == self.name else node


class Program:
    def __init__(self, repo="/repo", pkg_rel="src/vsc", pkg="vsc", form="raw"):
        self.form = form          # "raw": the tree as written; "nf": semantics-preserving normal form (sa/normalize.py)
        self.nf_stats = None
        self.repo = repo
        self.root = os.path.join(repo, pkg_rel)
        self.pkg = pkg
        self.modules = {}
        self.classes = []          # all Class
        self.funcs = []            # all Func
        self.class_by_name = {}
        self.func_by_qual = {}
        self.digest = None
        self._mro_cache = {}
        self._load()

    # ------------------------------------------------------------------ load
    def _load(self):
        if not os.path.isdir(self.root):
            raise AnalysisError("source root %s missing" % self.root)
        h = hashlib.sha256()
        for dp, dn, fn in sorted(os.walk(self.root)):
            dn.sort()
            for f in sorted(fn):
                if not f.endswith(".py"):
                    continue
                p = os.path.join(dp, f)
                rel = os.path.relpath(p, self.repo)
                sub = os.path.relpath(p, self.root)[:-3].replace(os.sep, ".")
                name = self.pkg + "." + sub
                if name.endswith(".__init__"):
                    name = name[: -len(".__init__")]
                with open(p, "rb") as fh:
                    raw = fh.read()
                h.update(rel.encode())
                h.update(raw)
                try:
                    tree = ast.parse(raw, filename=p)
                except SyntaxError as e:
                    raise AnalysisError("module %s does not parse: %s" % (rel, e))
                m = Module(name, p, rel, tree, raw.decode("utf-8", "replace"))
                self.modules[name] = m
        if self.form == "nf":
            from .normalize import census, normalise, prepare, drop_inlined_helpers, _renumber
            trees = [m.tree for m in self.modules.values()]
            cnt = census(trees)
            prepare(trees, cnt)
            tot = [0, 0, 0]
            for m in self.modules.values():
                r = normalise(m.tree, cnt)
                tot = [a + b for a, b in zip(tot, r)]
            dropped = drop_inlined_helpers(trees)
            for t in trees:
                _renumber(t)
            self.nf_stats = {"helper_calls_inlined": tot[0], "aliases_folded": tot[1], "loops_rewritten": tot[2], "helpers_removed": len(dropped)}
        for m in self.modules.values():
            canon_single_use_tests(m.tree)
        self.digest = h.hexdigest() + ("" if self.form == "raw" else "+" + self.form)
        for m in self.modules.values():
            self._index_module(m)
        self._build_pseudo_classes()
        for c in self.classes:
            self.class_by_name.setdefault(c.name, []).append(c)
        for f in self.funcs:
            self.func_by_qual[f.qual] = f

    def _index_module(self, m):
        for st in m.tree.body:
            self._index_stmt(m, st, prefix=m.name, cls=None, outer=None, toplevel=True)

    def _index_imports(self, m, st):
        if isinstance(st, ast.Import):
            for a in st.names:
                local = a.asname or a.name.split(".")[0]
                target = a.name if a.asname else a.name.split(".")[0]
                m.imports[local] = ("mod", target)
        elif isinstance(st, ast.ImportFrom):
            base = st.module or ""
            if st.level:
                parts = m.name.split(".")
                if not m.is_pkg:
                    parts = parts[:-1]
                if st.level > 1:
                    parts = parts[: -(st.level - 1)]
                base = ".".join(parts + ([st.module] if st.module else []))
            for a in st.names:
                if a.name == "*":
                    m.star.append(base)
                else:
                    m.imports[a.asname or a.name] = ("sym", base, a.name)

    def _index_stmt(self, m, st, prefix, cls, outer, toplevel=False):
        if isinstance(st, (ast.Import, ast.ImportFrom)):
            self._index_imports(m, st)
        elif isinstance(st, (ast.FunctionDef, ast.AsyncFunctionDef)):
            qual = prefix + "." + st.name
            f = Func(st.name, qual, m, cls, st, outer)
            self.funcs.append(f)
            if cls is not None:
                # property setter/getter pairs share a name: keep both, getter under name
                if st.name in cls.methods and f.is_property:
                    cls.methods[st.name + "@setter"] = f
                    f.qual = qual + "@setter"
                else:
                    cls.methods[st.name] = f
            elif toplevel:
                m.functions[st.name] = f
            self._index_body(m, st.body, qual + ".<locals>", None, f)
        elif isinstance(st, ast.ClassDef):
            qual = prefix + "." + st.name
            c = Class(st.name, qual, m, st, outer)
            self.classes.append(c)
            if toplevel:
                m.classes[st.name] = c
            for s in st.body:
                if isinstance(s, ast.Assign) and len(s.targets) == 1 and isinstance(s.targets[0], ast.Name):
                    c.class_attrs[s.targets[0].id] = s.value
                elif isinstance(s, ast.AnnAssign) and isinstance(s.target, ast.Name) and s.value is not None:
                    c.class_attrs[s.target.id] = s.value
                self._index_stmt(m, s, qual, c, outer)
            # `visit_x = _shared_body` in the class body: the name is another entry for the same method
            for s in st.body:
                if isinstance(s, ast.Assign) and isinstance(s.value, ast.Name) and s.value.id in c.methods:
                    for t in s.targets:
                        if isinstance(t, ast.Name) and t.id not in c.methods:
                            c.methods[t.id] = c.methods[s.value.id]
        elif toplevel and isinstance(st, ast.Assign):
            for t in st.targets:
                if isinstance(t, ast.Name):
                    m.globals[t.id] = st.value
        elif isinstance(st, (ast.If, ast.Try, ast.With, ast.For, ast.While)):
            for fld in ("body", "orelse", "finalbody"):
                for s in getattr(st, fld, []) or []:
                    self._index_stmt(m, s, prefix, cls, outer, toplevel)
            for h in getattr(st, "handlers", []) or []:
                for s in h.body:
                    self._index_stmt(m, s, prefix, cls, outer, toplevel)

    def _index_body(self, m, body, prefix, cls, outer):
        for st in body:
            self._index_stmt(m, st, prefix, cls, outer)

    def _build_pseudo_classes(self):
        """setattr(T, "name", fn) inside a function that also defines a local class deriving
        from T: attach fn as a method of that local class (the interposer)."""
        for f in list(self.funcs):
            local_classes = [c for c in self.classes if c.outer is f]
            if not local_classes:
                continue
            local_funcs = {g.name: g for g in self.funcs if g.outer is f and g.cls is None}
            for node in ast.walk(f.node):
                if (isinstance(node, ast.Call) and isinstance(node.func, ast.Name)
                        and node.func.id == "setattr" and len(node.args) == 3
                        and isinstance(node.args[1], ast.Constant)
                        and isinstance(node.args[2], ast.Name)
                        and isinstance(node.args[0], ast.Name)):
                    tgt = node.args[0].id
                    g = local_funcs.get(node.args[2].id)
                    if g is None:
                        continue
                    for c in local_classes:
                        if any(isinstance(b, ast.Name) and b.id == tgt for b in c.base_exprs):
                            c.methods.setdefault(node.args[1].value, g)
                            if g.cls is None:
                                g.cls = c

    # --------------------------------------------------------------- lookups
    def module(self, name):
        m = self.modules.get(name)
        if m is None:
            raise AnalysisError("module %s not found" % name)
        return m

    def resolve_name(self, m, name, _seen=None):
        """Resolve a bare name used in module m to Class | Func | Module | ('global', node) | None."""
        _seen = _seen or set()
        key = (m.name, name)
        if key in _seen:
            return None
        _seen.add(key)
        if name in m.classes:
            return m.classes[name]
        if name in m.functions:
            return m.functions[name]
        if name in m.imports:
            imp = m.imports[name]
            if imp[0] == "mod":
                return self.modules.get(imp[1])
            _, modname, sym = imp
            full = modname + "." + sym
            if full in self.modules:
                return self.modules[full]
            tm = self.modules.get(modname)
            if tm is None:
                return None
            return self.resolve_name(tm, sym, _seen)
        if name in m.globals:
            return ("global", m, name)
        for s in m.star:
            tm = self.modules.get(s)
            if tm is not None:
                r = self.resolve_name(tm, name, _seen)
                if r is not None:
                    return r
        return None

    def resolve_dotted(self, m, d):
        """Resolve 'a.b.c' from module m as far as classes/functions/modules go."""
        parts = d.split(".")
        cur = self.resolve_name(m, parts[0])
        for p in parts[1:]:
            if cur is None:
                return None
            if isinstance(cur, Module):
                nxt = self.modules.get(cur.name + "." + p)
                cur = nxt if nxt is not None else self.resolve_name(cur, p)
            elif isinstance(cur, Class):
                cur = self.lookup(cur, p)
            else:
                return None
        return cur

    def cls(self, name, module=None):
        """Unique class by simple name (optionally in module)."""
        cands = self.class_by_name.get(name, [])
        if module:
            cands = [c for c in cands if c.module.name == module]
        if len(cands) != 1:
            raise AnalysisError("class %s: expected exactly one definition, found %d" % (name, len(cands)))
        return cands[0]

    def has_cls(self, name):
        return len(self.class_by_name.get(name, [])) == 1

    def bases(self, c):
        out = []
        for b in c.base_exprs:
            d = _dotted(b)
            if d is None:
                continue
            r = self.resolve_dotted(c.module, d)
            if isinstance(r, Class):
                out.append(r)
        return out

    def mro(self, c):
        if c in self._mro_cache:
            return self._mro_cache[c]
        seqs = [self.mro(b) [:] for b in self.bases(c)] + [list(self.bases(c))]
        res = [c]
        seqs = [s for s in seqs if s]
        while seqs:
            for s in seqs:
                h = s[0]
                if not any(h in t[1:] for t in seqs):
                    break
            else:
                h = seqs[0][0]
            res.append(h)
            seqs = [[x for x in s if x is not h] for s in seqs]
            seqs = [s for s in seqs if s]
        self._mro_cache[c] = res
        return res

    def lookup(self, c, name, after=None):
        """Method `name` along the MRO of c (optionally starting after class `after`)."""
        m = self.mro(c)
        if after is not None and after in m:
            m = m[m.index(after) + 1:]
        for k in m:
            if name in k.methods:
                return k.methods[name]
        return None

    def definer(self, c, name):
        f = self.lookup(c, name)
        return f.cls if f is not None else None

    def subclasses(self, c, strict=False):
        out = [] if strict else [c]
        for k in self.classes:
            if k is not c and c in self.mro(k):
                out.append(k)
        return out

    def method(self, clsname, meth, module=None):
        c = self.cls(clsname, module)
        f = c.methods.get(meth)
        if f is None:
            raise AnalysisError("anchor %s.%s not found in %s" % (clsname, meth, c.module.relpath))
        return f

    def function(self, modname, name):
        m = self.module(modname)
        f = m.functions.get(name)
        if f is None:
            raise AnalysisError("anchor function %s.%s not found" % (modname, name))
        return f

    def funcs_named(self, name):
        return [f for f in self.funcs if f.name == name]

    def enum_members(self, clsname):
        c = self.cls(clsname)
        out = []
        for s in c.node.body:
            if isinstance(s, ast.Assign) and len(s.targets) == 1 and isinstance(s.targets[0], ast.Name):
                out.append(s.targets[0].id)
        return out


# ---------------------------------------------------------------- ast helpers
def norm(node):
    """Normalised text of an AST node (formatting/comment independent)."""
    if node is None:
        return ""
    if isinstance(node, list):
        return "; ".join(norm(n) for n in node)
    return ast.unparse(node)


def walk_local(node, into_lambda=True):
    """ast.walk that does not descend into nested function / class definitions
    (but, by default, does descend into lambdas)."""
    todo = [node]
    first = True
    while todo:
        n = todo.pop()
        if not first and isinstance(n, (ast.FunctionDef, ast.AsyncFunctionDef, ast.ClassDef)):
            continue
        if not first and not into_lambda and isinstance(n, ast.Lambda):
            continue
        first = False
        yield n
        todo.extend(reversed(list(ast.iter_child_nodes(n))))


def calls_in_order(node):
    """Call nodes under `node` in evaluation order (arguments before the call itself,
    receiver before arguments).  Lambdas are treated as evaluated in place."""
    out = []

    def rec(n):
        if isinstance(n, (ast.FunctionDef, ast.AsyncFunctionDef, ast.ClassDef)):
            return
        if isinstance(n, ast.Call):
            rec(n.func)
            for a in n.args:
                rec(a)
            for k in n.keywords:
                rec(k.value)
            out.append(n)
            return
        for ch in ast.iter_child_nodes(n):
            rec(ch)

    rec(node)
    return out


def call_name(call):
    """Last component of the callee ('Assume' for btor.Assume(x))."""
    f = call.func
    if isinstance(f, ast.Attribute):
        return f.attr
    if isinstance(f, ast.Name):
        return f.id
    return None


def recv_text(call):
    f = call.func
    if isinstance(f, ast.Attribute):
        return norm(f.value)
    return None


def names_in(node):
    """Dotted names (Name / Attribute chains) read or written under node."""
    out = set()
    for n in ast.walk(node):
        d = _dotted(n) if isinstance(n, (ast.Name, ast.Attribute)) else None
        if d:
            out.add(d)
    return out


def assigned_targets(st):
    """Dotted names assigned by a simple statement."""
    tg = []
    if isinstance(st, ast.Assign):
        tg = st.targets
    elif isinstance(st, (ast.AugAssign, ast.AnnAssign)):
        tg = [st.target]
    elif isinstance(st, (ast.For, ast.AsyncFor)):
        tg = [st.target]
    out = []
    for t in tg:
        for n in ast.walk(t):
            if isinstance(n, (ast.Name, ast.Attribute)) and isinstance(getattr(n, "ctx", None), ast.Store):
                d = _dotted(n)
                if d:
                    out.append(d)
            elif isinstance(n, ast.Subscript) and isinstance(getattr(n, "ctx", None), ast.Store):
                d = _dotted(n.value)
                if d:
                    out.append(d + "[]")
    return out


_FLIP = {ast.Is: ast.IsNot, ast.IsNot: ast.Is, ast.Eq: ast.NotEq, ast.NotEq: ast.Eq, ast.In: ast.NotIn, ast.NotIn: ast.In,
         ast.Lt: ast.GtE, ast.GtE: ast.Lt, ast.Gt: ast.LtE, ast.LtE: ast.Gt}


def canon_facts(test, truth=True):
    """canonical texts of what is known when `test` evaluates to `truth`: negations pushed inward (`not a is None` ->
    `a is not None`), conjunctions split; a fact that cannot be split keeps a leading 'not '."""
    if isinstance(test, ast.UnaryOp) and isinstance(test.op, ast.Not):
        return canon_facts(test.operand, not truth)
    if isinstance(test, ast.BoolOp):
        if isinstance(test.op, ast.And) and truth or isinstance(test.op, ast.Or) and not truth:
            out = []
            for v in test.values:
                out += canon_facts(v, truth)
            return out
    if isinstance(test, ast.Compare) and len(test.ops) == 1 and not truth and type(test.ops[0]) in _FLIP:
        t2 = ast.Compare(left=test.left, ops=[_FLIP[type(test.ops[0])]()], comparators=test.comparators)
        return [norm(t2)]
    t = norm(test)
    return [t] if truth else ["not " + t if not isinstance(test, (ast.BoolOp, ast.Compare, ast.IfExp)) else "not (%s)" % t]


def _terminates(block, with_raise=True):
    if not block:
        return False
    last = block[-1]
    if isinstance(last, (ast.Return, ast.Continue, ast.Break)) or (with_raise and isinstance(last, ast.Raise)):
        return True
    if isinstance(last, ast.If):
        return _terminates(last.body, with_raise) and _terminates(last.orelse, with_raise)
    return False


def guard_facts(fnode, node, with_raise=True):
    """canonical facts that hold whenever `node` executes inside fnode: tests of enclosing ifs (with the polarity of the
    branch) and the negated tests of earlier sibling ifs whose taken branch leaves the block (early return/continue/break and,
    unless with_raise is False, raise - an argument check that raises does not make what follows "conditional")."""
    par = {}
    for n in ast.walk(fnode):
        for ch in ast.iter_child_nodes(n):
            par[ch] = n
    facts = []
    n = node
    while n in par:
        p = par[n]
        if isinstance(p, ast.If):
            if any(n is x for x in p.body):
                facts += canon_facts(p.test, True)
            elif any(n is x for x in p.orelse):
                facts += canon_facts(p.test, False)
        for fld in ("body", "orelse", "finalbody"):
            blk = getattr(p, fld, None)
            if isinstance(blk, list) and any(n is x for x in blk):
                for sib in blk:
                    if sib is n:
                        break
                    if isinstance(sib, ast.If):
                        tb, te = _terminates(sib.body, with_raise), _terminates(sib.orelse, with_raise)
                        if tb and not te:
                            facts += canon_facts(sib.test, False)
                        elif te and not tb:
                            facts += canon_facts(sib.test, True)
        n = p
    return facts


def expand_locals(fnode, expr, depth=4):
    """text of `expr` with every local that has exactly one (call-free or not) definition in fnode replaced by that
    definition, recursively: `range_l[0][0]` -> `bound_m[uf].domain.range_l[0][0]`.  Loop targets and parameters stay."""
    defs = {}
    for n in walk_local(fnode):
        if isinstance(n, ast.Assign) and len(n.targets) == 1 and isinstance(n.targets[0], ast.Name):
            defs.setdefault(n.targets[0].id, []).append(n.value)
        elif isinstance(n, (ast.AugAssign,)) and isinstance(n.target, ast.Name):
            defs.setdefault(n.target.id, []).append(None)
        elif isinstance(n, (ast.For, ast.comprehension)):
            for x in ast.walk(n.target):
                if isinstance(x, ast.Name):
                    defs.setdefault(x.id, []).append(None)

    class T(ast.NodeTransformer):
        def __init__(self, d):
            self.d = d

        def visit_Name(self, node):
            ds = defs.get(node.id)
            if isinstance(node.ctx, ast.Load) and ds and len(ds) == 1 and ds[0] is not None and self.d > 0:
                import copy
                return T(self.d - 1).visit(copy.deepcopy(ds[0]))
            return node
    import copy
    return norm(T(depth).visit(copy.deepcopy(expr)))


def record_types(prog):
    """module-level record types: `X = namedtuple("X", ["a", "b"])` / `namedtuple("X", "a b")` / `class X(NamedTuple): a: T; b: T`
    -> {"X": ["a", "b"]}"""
    out = {}
    for m in prog.modules.values() if isinstance(prog.modules, dict) else prog.modules:
        for st in m.tree.body:
            if isinstance(st, ast.Assign) and len(st.targets) == 1 and isinstance(st.targets[0], ast.Name) and isinstance(st.value, ast.Call) \
                    and (dotted(st.value.func) or "").split(".")[-1] == "namedtuple" and len(st.value.args) >= 2:
                f = st.value.args[1]
                if isinstance(f, (ast.List, ast.Tuple)) and all(isinstance(e, ast.Constant) and isinstance(e.value, str) for e in f.elts):
                    out[st.targets[0].id] = [e.value for e in f.elts]
                elif isinstance(f, ast.Constant) and isinstance(f.value, str):
                    out[st.targets[0].id] = f.value.replace(",", " ").split()
            elif isinstance(st, ast.ClassDef) and any((dotted(b) or "").split(".")[-1] == "NamedTuple" for b in st.bases):
                out[st.name] = [x.target.id for x in st.body if isinstance(x, ast.AnnAssign) and isinstance(x.target, ast.Name)]
    return out


def erase_records(prog, expr, var=None):
    """copy of expr with `R(e0, e1)` (R a record type, positional arguments) -> `(e0, e1)` and, for the name `var`,
    `var.<field>` -> `var[<index>]` when <field> belongs to exactly one record type"""
    import copy
    recs = record_types(prog)
    fidx = {}
    for r, fs in recs.items():
        for i, f in enumerate(fs):
            fidx.setdefault(f, set()).add(i)

    class T(ast.NodeTransformer):
        def visit_Call(self, node):
            self.generic_visit(node)
            if isinstance(node.func, ast.Name) and node.func.id in recs and not node.keywords and len(node.args) == len(recs[node.func.id]):
                return ast.copy_location(ast.Tuple(elts=node.args, ctx=ast.Load()), node)
            return node

        def visit_Attribute(self, node):
            self.generic_visit(node)
            if var is not None and isinstance(node.value, ast.Name) and node.value.id == var and len(fidx.get(node.attr, ())) == 1:
                return ast.copy_location(ast.Subscript(value=node.value, slice=ast.Constant(value=next(iter(fidx[node.attr]))), ctx=node.ctx), node)
            return node
    return ast.fix_missing_locations(T().visit(copy.deepcopy(expr)))


def sig_body(fnode_or_list):
    """statements of a function body that matter: docstrings, `pass` and bare print(...) calls are dropped
    (debug output is behaviour-preserving for every rule)"""
    body = fnode_or_list if isinstance(fnode_or_list, list) else fnode_or_list.body
    out = []
    for b in body:
        if isinstance(b, ast.Pass):
            continue
        if isinstance(b, ast.Expr) and isinstance(b.value, ast.Constant):
            continue
        if isinstance(b, ast.Expr) and isinstance(b.value, ast.Call) and isinstance(b.value.func, ast.Name) and b.value.func.id == "print":
            continue
        out.append(b)
    return out


def local_defs(fnode):
    """name -> list of value nodes assigned to that local (simple `name = value` assignments, incl. tuple unpacking
    from a call, recorded with the whole value)"""
    out = {}
    for n in walk_local(fnode):
        if isinstance(n, ast.Assign):
            for t in n.targets:
                if isinstance(t, ast.Name):
                    out.setdefault(t.id, []).append(n.value)
                elif isinstance(t, ast.Tuple):
                    for e in t.elts:
                        if isinstance(e, ast.Name):
                            out.setdefault(e.id, []).append(n.value)
        elif isinstance(n, ast.AnnAssign) and isinstance(n.target, ast.Name) and n.value is not None:
            out.setdefault(n.target.id, []).append(n.value)
    return out


def find_local(fnode, pred):
    """names of locals one of whose defining values satisfies pred(value node)"""
    return [k for k, vs in local_defs(fnode).items() if any(pred(v) for v in vs)]
