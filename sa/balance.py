"""Stack / counter balance analysis on top of SAI, with inter-procedural summaries.

A *counter* is anything pushed and popped (a global stack, a list attribute, a depth
counter).  `primitive(call, func)` maps a call or statement to a vector delta;
summaries map each function to the set of (exit kind, net vector).
"""
import ast

from .ir import call_name, dotted, walk_local, calls_in_order, norm, AnalysisError, names_in
from .sai import Domain, Interp, St, FALL, RAISE

CAP = 6


def vadd(a, b):
    return tuple(max(-CAP, min(CAP, x + y)) for x, y in zip(a, b))


class BalDom(Domain):
    def __init__(self, an, func):
        self.an = an
        self.func = func
        self._rel = {}
        # symbolic counters: names with both += k and -= k in this function
        inc, dec = set(), set()
        for n in walk_local(func.node):
            if isinstance(n, ast.AugAssign) and isinstance(n.value, ast.Constant) and isinstance(n.value.value, int):
                d = dotted(n.target)
                if d:
                    (inc if isinstance(n.op, ast.Add) else dec).add(d)
        self.delta_names = tuple(sorted(inc & dec))

    def initial_user(self):
        return self.an.zero

    def skip(self, stmt):
        r = self._rel.get(stmt)
        if r is None:
            r = False
            for n in walk_local(stmt):
                if isinstance(n, (ast.Return, ast.Raise, ast.Break, ast.Continue)):
                    r = True
                    break
                if isinstance(n, ast.Call) and (self.an.call_relevant(n, self.func) or self.an.observe_call(n, self.func)):
                    r = True
                    break
                if isinstance(n, (ast.With,)) and self.an.with_relevant(n, self.func):
                    r = True
                    break
                if isinstance(n, ast.AugAssign) and self.an.stmt_delta(n, self.func) is not None:
                    r = True
                    break
            self._rel[stmt] = r
        return not r

    def decide(self, st, test, ctx):
        r = self.an.decide_hook(self.func, st, test)
        if r is not None:
            return [(r, st)]
        return super().decide(st, test, ctx)

    def on_call(self, st, call, ctx):
        outs = []
        if self.an.observe_call(call, self.func):
            self.an.observed.setdefault((self.func, call), set()).add(st.u)
        for kind, vec, lab in self.an.call_effects(call, self.func):
            st2 = st._replace(u=vadd(st.u, vec))
            if kind == RAISE:
                outs.append((RAISE, st2, (lab, call)))
            else:
                outs.append((FALL, st2, None))
        return outs

    def on_assign(self, st, stmt):
        d = self.an.stmt_delta(stmt, self.func)
        if d is not None:
            return st._replace(u=vadd(st.u, d))
        return st

    def on_with_enter(self, st, item, ctx):
        outs = []
        for kind, vec, lab in self.an.with_effects(item, self.func, "__enter__"):
            st2 = st._replace(u=vadd(st.u, vec))
            outs.append((RAISE, st2, (lab, item.context_expr)) if kind == RAISE else (FALL, st2, None))
        return outs

    def on_with_exit(self, st, item, exceptional, ctx):
        outs = []
        for kind, vec, lab in self.an.with_effects(item, self.func, "__exit__"):
            st2 = st._replace(u=vadd(st.u, vec))
            outs.append((RAISE, st2, (lab, item.context_expr)) if kind == RAISE else (FALL, st2, None))
        return outs


class BalanceAnalysis:
    """Subclass and provide: counters, primitive(), user_callback(), resolve()."""

    def __init__(self, prog, counters):
        self.prog = prog
        self.counters = list(counters)
        self.zero = tuple(0 for _ in counters)
        self.summ = {}
        self.in_progress = set()
        self.changed = False
        self.fault_sites = {}
        self.observed = {}      # (Func, call node) -> set of vectors seen on entry to an observed call

    def observe_call(self, call, func):
        """True for calls whose entry state should be recorded in self.observed"""
        return False

    def unit(self, counter, k):
        return tuple(k if c == counter else 0 for c in self.counters)

    # ---- to be provided -----------------------------------------------------------
    def primitive(self, call, func):
        """vector delta of a primitive push/pop call, or None"""
        return None

    def stmt_delta(self, stmt, func):
        return None

    def user_callback(self, call, func):
        """label if the call runs user code (a fault point), else None"""
        return None

    def resolve(self, call, func):
        """-> list of Func this call may reach (only those worth summarising)"""
        return []

    def resolve_with(self, item, func):
        """-> list of Class for a with item"""
        return []

    def decide_hook(self, func, st, test):
        return None

    def relevant_func(self, f):
        return True

    # ---- machinery ------------------------------------------------------------------
    def call_relevant(self, call, func):
        if self.primitive(call, func) is not None or self.user_callback(call, func):
            return True
        for f in self.resolve(call, func):
            s = self.summary(f)
            if s != {(FALL, self.zero, None)}:
                return True
        return False

    def with_relevant(self, w, func):
        for item in w.items:
            for m in ("__enter__", "__exit__"):
                if self.with_effects(item, func, m) != [(FALL, self.zero, None)]:
                    return True
        return False

    def call_effects(self, call, func):
        p = self.primitive(call, func)
        if p is not None:
            return [(FALL, p, None)]
        lab = self.user_callback(call, func)
        if lab:
            self.fault_sites.setdefault((func.qual, call.lineno), lab)
            return [(FALL, self.zero, None), (RAISE, self.zero, "user:" + lab)]
        outs = set()
        tg = self.resolve(call, func)
        if not tg:
            return [(FALL, self.zero, None)]
        for f in tg:
            for kind, vec, lab in self.summary(f):
                # blame stays at the origin: an unbalanced exceptional exit is reported in the callee;
                # callers see the exception with the callee's contribution zeroed
                outs.add((kind, vec if kind == FALL else self.zero, lab))
        return sorted(outs, key=repr)

    def with_effects(self, item, func, meth):
        outs = set()
        cl = self.resolve_with(item, func)
        if not cl:
            return [(FALL, self.zero, None)]
        for c in cl:
            f = self.prog.lookup(c, meth)
            if f is None:
                outs.add((FALL, self.zero, None))
            else:
                outs |= self.summary(f)
        return sorted(outs, key=repr)

    def summary(self, f):
        if f in self.summ and f not in self.in_progress:
            return self.summ[f]
        if f in self.in_progress:
            return self.summ.get(f, {(FALL, self.zero, None)})
        if not self.relevant_func(f):
            self.summ[f] = {(FALL, self.zero, None)}
            return self.summ[f]
        self.in_progress.add(f)
        self.summ.setdefault(f, {(FALL, self.zero, None)})
        try:
            for _ in range(6):
                new = self.analyse(f)
                if new == self.summ[f]:
                    break
                self.summ[f] = new
        finally:
            self.in_progress.discard(f)
        return self.summ[f]

    def analyse(self, f):
        dom = BalDom(self, f)
        outs = Interp(dom, func=f).run(f.node)
        res = set()
        for s in outs.fall | outs.ret:
            res.add((FALL, s.u, None))
        for (s, lab, site) in outs.rais:
            res.add((RAISE, s.u, lab))
        if not res:
            res.add((FALL, self.zero, None))
        self.last_outs = outs
        return res

    def exits(self, f):
        """detailed exits of f for reporting: list of (kind, vec, label, site node)"""
        self.summary(f)
        dom = BalDom(self, f)
        outs = Interp(dom, func=f).run(f.node)
        res = []
        for s in outs.fall | outs.ret:
            res.append((FALL, s.u, None, None))
        for (s, lab, site) in outs.rais:
            res.append((RAISE, s.u, lab, site))
        return res
