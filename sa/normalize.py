"""Semantics-preserving normal form of a module's syntax tree ("form 2").

Rules are first evaluated on the tree as written.  A rule that reports (or cannot find its anchor) is evaluated again on this
normal form, in which refactorings that do not change behaviour are undone:

  1. private helpers are inlined into their callers (extract-method undone):
       - expression helpers  `def _h(self, a): return E`           -> substituted in place
       - statement helpers   (no return except one trailing)        -> spliced where the call is a statement, the right-hand
                                                                      side of an assignment/return, or a direct argument of one
  2. single-assignment aliases of attribute paths (`hit_l = self.hit_l`) are substituted back;
  3. `for i, x in enumerate(xs)` becomes `for i in range(len(xs))` with `xs[i]` for `x`;
  4. line numbers are re-issued in source order (rules that order events by position keep working).

Every step yields a program with the same behaviour, so a structural condition shown on the normal form holds for the code as
written.  A helper is only inlined when its name is private (`_x`, not dunder), is defined once in the whole package, takes no
*args/**kwargs, is not a generator, not recursive, and declares no global/nonlocal."""
import ast
import copy

_CNT = [0]


def _private(name):
    return name.startswith("_") and not name.startswith("__")


def _doc_stripped(body):
    if body and isinstance(body[0], ast.Expr) and isinstance(body[0].value, ast.Constant) and isinstance(body[0].value.value, str):
        return body[1:]
    return body


def _is_simple(e):
    """side-effect free and cheap to duplicate"""
    if isinstance(e, (ast.Name, ast.Constant)):
        return True
    if isinstance(e, ast.Attribute):
        return _is_simple(e.value)
    if isinstance(e, ast.Subscript):
        return _is_simple(e.value) and _is_simple(e.slice)
    if isinstance(e, ast.UnaryOp):
        return _is_simple(e.operand)
    return False


_STABLE = set()
_CLASS_CNT = {}


def census(trees):
    """name -> number of definitions (functions and methods) in the package.  Also records the attributes that are only ever
    assigned as `self.<attr> = ...` inside an `__init__` (or never): no call can rebind those, so an alias of one stays valid
    across calls."""
    cnt = {}
    unstable = set()
    _CLASS_CNT.clear()
    for t in trees:
        for fn in ast.walk(t):
            if isinstance(fn, (ast.FunctionDef, ast.AsyncFunctionDef)):
                cnt[fn.name] = cnt.get(fn.name, 0) + 1
            elif isinstance(fn, ast.ClassDef):
                _CLASS_CNT[fn.name] = _CLASS_CNT.get(fn.name, 0) + 1
        for n in ast.walk(t):
            if isinstance(n, ast.Call) and isinstance(n.func, ast.Name) and n.func.id in ("setattr", "delattr") and len(n.args) >= 2:
                unstable.add(n.args[1].value if isinstance(n.args[1], ast.Constant) else "*")

    def scan(node, in_init):
        for ch in ast.iter_child_nodes(node):
            if isinstance(ch, (ast.FunctionDef, ast.AsyncFunctionDef)):
                scan(ch, ch.name == "__init__")
                continue
            if isinstance(ch, ast.Attribute) and isinstance(ch.ctx, (ast.Store, ast.Del)):
                if not (in_init and isinstance(ch.value, ast.Name) and ch.value.id == "self"):
                    unstable.add(ch.attr)
            scan(ch, in_init)
    for t in trees:
        scan(t, False)
    _STABLE.clear()
    for t in trees:
        for n in ast.walk(t):
            if isinstance(n, ast.Attribute) and n.attr not in unstable:
                _STABLE.add(n.attr)
    return cnt


def _has_dynamic_setattr(tree):
    """setattr/delattr with a computed attribute name: in such a module (the facade) no attribute is taken to be stable"""
    return any(isinstance(n, ast.Call) and isinstance(n.func, ast.Name) and n.func.id in ("setattr", "delattr") and len(n.args) >= 2
               and not isinstance(n.args[1], ast.Constant) for n in ast.walk(tree))


_ANCHORS = None


def anchor_names():
    """private names the rules themselves mention (in /verif/rules and /verif/tables): functions the rules are anchored in are
    analysed where they are and never inlined"""
    global _ANCHORS
    if _ANCHORS is None:
        import os
        import re
        names = set()
        here = os.path.dirname(os.path.dirname(os.path.abspath(__file__)))
        for sub in ("rules", "tables"):
            d = os.path.join(here, sub)
            for f in sorted(os.listdir(d)):
                if f.endswith(".py"):
                    names |= set(re.findall(r"\b_[A-Za-z]\w*", open(os.path.join(d, f)).read()))
        _ANCHORS = names
    return _ANCHORS


def _helper_ok(fn, cnt):
    if not _private(fn.name) or cnt.get(fn.name, 0) != 1 or fn.name in anchor_names():
        return False
    decos = [ast.unparse(d) for d in fn.decorator_list]
    if any(d not in ("staticmethod", "classmethod") for d in decos):
        return False
    a = fn.args
    if a.vararg or a.kwarg or a.kwonlyargs or a.posonlyargs:
        return False
    for n in ast.walk(fn):
        if isinstance(n, (ast.Yield, ast.YieldFrom, ast.Global, ast.Nonlocal, ast.Await)):
            return False
        if n is not fn and isinstance(n, (ast.FunctionDef, ast.AsyncFunctionDef, ast.ClassDef)):
            return False
        if isinstance(n, ast.Call) and ((isinstance(n.func, ast.Name) and n.func.id == fn.name) or
                                        (isinstance(n.func, ast.Attribute) and n.func.attr == fn.name)):
            return False
        if isinstance(n, ast.Call) and isinstance(n.func, ast.Name) and n.func.id in ("locals", "vars", "super"):
            return False
    body = _doc_stripped(fn.body)
    rets = [n for n in ast.walk(fn) if isinstance(n, ast.Return)]
    if len(rets) > 1 or (rets and (not body or body[-1] is not rets[0])):
        # several returns: fine when they can all be brought into tail position (if/else nests, no return inside a loop/try/with)
        return _tailify(copy.deepcopy(body)) is not None
    return True


def _has_return(node):
    return any(isinstance(n, ast.Return) for n in ast.walk(node))


def _all_paths_return(block):
    if not block:
        return False
    last = block[-1]
    if isinstance(last, (ast.Return, ast.Raise)):
        return True
    if isinstance(last, ast.If):
        return _all_paths_return(last.body) and _all_paths_return(last.orelse)
    return False


def _tailify(stmts):
    """rewrite a block so that every `return` is the last thing executed on its path (code after an `if` that returns on one
    branch moves into the other branch).  None when a return sits inside a loop, try or with."""
    out = []
    for k, st in enumerate(stmts):
        if isinstance(st, ast.Return):
            return out + [st]
        if not _has_return(st):
            out.append(st)
            continue
        if not isinstance(st, ast.If):
            return None
        rest = stmts[k + 1:]
        bt, et = _all_paths_return(st.body), _all_paths_return(st.orelse)
        if rest:
            if bt and et:
                rest = []
            elif bt:
                st.orelse = list(st.orelse) + rest
            elif et:
                st.body = list(st.body) + rest
            else:
                return None
        nb = _tailify(list(st.body))
        ne = _tailify(list(st.orelse)) if st.orelse else []
        if nb is None or ne is None:
            return None
        st.body = nb or [ast.Pass()]
        st.orelse = ne
        return out + [st]
    return out


class _RetToAssign(ast.NodeTransformer):
    def __init__(self, name):
        self.name = name

    def visit_Return(self, node):
        return ast.copy_location(ast.Assign(targets=[ast.Name(id=self.name, ctx=ast.Store())],
                                            value=node.value if node.value is not None else ast.Constant(value=None)), node)

    def visit_FunctionDef(self, node):
        return node

    def visit_Lambda(self, node):
        return node


def _kind(fn):
    body = _doc_stripped(fn.body)
    if len(body) == 1 and isinstance(body[0], ast.Return) and body[0].value is not None:
        return "expr"
    return "stmt"


class _Sub(ast.NodeTransformer):
    def __init__(self, mapping):
        self.mapping = mapping

    def visit_Name(self, node):
        if node.id in self.mapping and isinstance(node.ctx, ast.Load):
            return copy.deepcopy(self.mapping[node.id])
        return node


class _Rename(ast.NodeTransformer):
    def __init__(self, ren):
        self.ren = ren

    def visit_Name(self, node):
        if node.id in self.ren:
            node.id = self.ren[node.id]
        return node

    def visit_ExceptHandler(self, node):
        if node.name in self.ren:
            node.name = self.ren[node.name]
        return self.generic_visit(node)


def _bind(fn, call, recv_kind):
    """param -> arg expression, or None when the call does not fit"""
    params = [a.arg for a in fn.args.args]
    decos = [ast.unparse(d) for d in fn.decorator_list]
    if recv_kind == "method" and "staticmethod" not in decos:
        params = params[1:]
    defaults = fn.args.defaults
    dmap = dict(zip(params[len(params) - len(defaults):], defaults)) if defaults else {}
    if any(isinstance(a, ast.Starred) for a in call.args) or any(k.arg is None for k in call.keywords):
        return None
    if len(call.args) > len(params):
        return None
    m = {}
    for p, a in zip(params, call.args):
        m[p] = a
    for k in call.keywords:
        if k.arg not in params or k.arg in m:
            return None
        m[k.arg] = k.value
    for p in params:
        if p not in m:
            if p not in dmap:
                return None
            m[p] = dmap[p]
    return params, m


def _stored_names(fn):
    out = set()
    for n in ast.walk(fn):
        if isinstance(n, ast.Name) and isinstance(n.ctx, (ast.Store, ast.Del)):
            out.add(n.id)
        elif isinstance(n, ast.ExceptHandler) and n.name:
            out.add(n.name)
    return out


def _simple_cm_classes(tree, cnt_classes):
    """private classes that are nothing but a scope guard: __init__ stores its parameters, __enter__ does nothing,
    __exit__ runs some statements and never suppresses the exception.  -> {name: (param names, attr->param, exit body)}"""
    out = {}
    for c in tree.body:
        if not (isinstance(c, ast.ClassDef) and _private(c.name) and cnt_classes.get(c.name) == 1 and not c.decorator_list):
            continue
        meths = {m.name: m for m in c.body if isinstance(m, ast.FunctionDef)}
        if set(meths) != {"__init__", "__enter__", "__exit__"} or any(not isinstance(x, (ast.FunctionDef, ast.Expr, ast.Pass)) for x in c.body):
            continue
        init, en, ex = meths["__init__"], meths["__enter__"], meths["__exit__"]
        if init.args.vararg or init.args.kwarg or init.args.defaults or init.args.kwonlyargs:
            continue
        params = [a.arg for a in init.args.args[1:]]
        amap = {}
        ok = True
        for st in _doc_stripped(init.body):
            if (isinstance(st, ast.Assign) and len(st.targets) == 1 and isinstance(st.targets[0], ast.Attribute)
                    and isinstance(st.targets[0].value, ast.Name) and st.targets[0].value.id == init.args.args[0].arg
                    and isinstance(st.value, ast.Name) and st.value.id in params):
                amap[st.targets[0].attr] = st.value.id
            elif not isinstance(st, ast.Pass):
                ok = False
        eb = _doc_stripped(en.body)
        if not (len(eb) == 1 and (isinstance(eb[0], ast.Pass) or (isinstance(eb[0], ast.Return) and (eb[0].value is None or (
                isinstance(eb[0].value, ast.Name) and eb[0].value.id == en.args.args[0].arg))))):
            ok = False
        xb = list(_doc_stripped(ex.body))
        if xb and isinstance(xb[-1], ast.Return) and (xb[-1].value is None or (isinstance(xb[-1].value, ast.Constant) and xb[-1].value.value in (False, None))):
            xb = xb[:-1]
        if any(isinstance(n, (ast.Return, ast.Yield, ast.FunctionDef, ast.Lambda)) for st in xb for n in ast.walk(st)):
            ok = False
        xself = ex.args.args[0].arg
        xparams = {a.arg for a in ex.args.args[1:]}
        for st in xb:
            for n in ast.walk(st):
                if isinstance(n, ast.Name) and n.id in xparams:
                    ok = False          # looks at the exception
                if isinstance(n, ast.Name) and n.id == xself:
                    pass
                if isinstance(n, ast.Attribute) and isinstance(n.value, ast.Name) and n.value.id == xself and (n.attr not in amap or isinstance(n.ctx, ast.Store)):
                    ok = False
        if any(isinstance(n, ast.Name) and n.id == xself and not any(isinstance(p_, ast.Attribute) and p_.value is n for p_ in ast.walk(st))
               for st in xb for n in ast.walk(st)):
            ok = False
        if ok and xb:
            out[c.name] = (params, amap, xb, xself)
    return out


def _inline_context_managers(tree, cnt_classes):
    """`with _Guard(a, b): BODY`  ->  `try: BODY finally: <body of _Guard.__exit__ with its attributes replaced by a, b>`"""
    cms = _simple_cm_classes(tree, cnt_classes)
    if not cms:
        return 0
    n_done = 0
    for owner in ast.walk(tree):
        for fld in ("body", "orelse", "finalbody"):
            blk = getattr(owner, fld, None)
            if not (isinstance(blk, list) and blk and isinstance(blk[0], ast.stmt)):
                continue
            for i, st in enumerate(blk):
                if not (isinstance(st, ast.With) and len(st.items) == 1 and st.items[0].optional_vars is None):
                    continue
                ce = st.items[0].context_expr
                if not (isinstance(ce, ast.Call) and isinstance(ce.func, ast.Name) and ce.func.id in cms and not ce.keywords):
                    continue
                params, amap, xb, xself = cms[ce.func.id]
                if len(ce.args) != len(params) or not all(_is_simple(a) for a in ce.args):
                    continue
                # the arguments must still mean the same when the block ends
                argnames = {n.id for a in ce.args for n in ast.walk(a) if isinstance(n, ast.Name)}
                if any(isinstance(n, ast.Name) and n.id in argnames and isinstance(n.ctx, (ast.Store, ast.Del)) for s2 in st.body for n in ast.walk(s2)):
                    continue
                p2a = dict(zip(params, ce.args))

                class A(ast.NodeTransformer):
                    def visit_Attribute(s, node):
                        if isinstance(node.value, ast.Name) and node.value.id == xself and node.attr in amap:
                            return copy.deepcopy(p2a[amap[node.attr]])
                        return s.generic_visit(node)
                fin = [A().visit(copy.deepcopy(x)) for x in xb]
                blk[i] = ast.copy_location(ast.Try(body=st.body, handlers=[], orelse=[], finalbody=fin), st)
                n_done += 1
    return n_done


def _lambda_applicable(fn, p, lam):
    """the parameter is only ever called, with as many simple positional arguments as the lambda has parameters"""
    a = lam.args
    if a.vararg or a.kwarg or a.kwonlyargs or a.defaults or a.posonlyargs:
        return False
    n = len(a.args)
    uses = [x for x in ast.walk(fn) if isinstance(x, ast.Name) and x.id == p and isinstance(x.ctx, ast.Load)]
    calls = [c for c in ast.walk(fn) if isinstance(c, ast.Call) and isinstance(c.func, ast.Name) and c.func.id == p]
    if len(uses) != len(calls) or not calls:
        return False
    return all(len(c.args) == n and not c.keywords and all(_is_simple(x) for x in c.args) for c in calls)


class _BetaReduce(ast.NodeTransformer):
    """`p(x)` with p bound to `lambda f: E`  ->  E[f := x]"""

    def __init__(self, lam):
        self.lam = lam

    def visit_Call(self, node):
        self.generic_visit(node)
        if isinstance(node.func, ast.Name) and node.func.id in self.lam:
            l = self.lam[node.func.id]
            body = copy.deepcopy(l.body)
            return _Sub({a.arg: x for a, x in zip(l.args.args, node.args)}).visit(body)
        return node


def _expand(fn, call, recv_kind, self_name, result_name=None):
    """-> (prefix statements, result expression or None) for one call of helper fn, or None"""
    b = _bind(fn, call, recv_kind)
    if b is None:
        return None
    params, m = b
    _CNT[0] += 1
    tag = "_i%d" % _CNT[0]
    stored = _stored_names(fn)
    body = copy.deepcopy(_doc_stripped(fn.body))
    ren = {n: n + tag for n in stored}
    prefix = []
    sub = {}
    lam = {}
    for p in params:
        a = m[p]
        if isinstance(a, ast.Lambda) and p not in stored and _lambda_applicable(fn, p, a):
            lam[p] = a
            continue
        if p not in stored and _is_simple(a):
            sub[p] = a
        else:
            ren[p] = p + tag
            prefix.append(ast.Assign(targets=[ast.Name(id=p + tag, ctx=ast.Store())], value=copy.deepcopy(a), lineno=call.lineno, col_offset=0))
    # the receiver of a method helper stands for its first parameter (`type(<receiver>)` for a classmethod called on an instance)
    decos_ = [ast.unparse(d) for d in fn.decorator_list]
    first = fn.args.args[0].arg if fn.args.args and recv_kind == "method" and "staticmethod" not in decos_ else None
    if first is not None:
        recv = copy.deepcopy(call.func.value)
        if "classmethod" in decos_ and not (isinstance(recv, ast.Name) and (recv.id == "cls" or recv.id[:1].isupper())):
            recv = ast.Call(func=ast.Name(id="type", ctx=ast.Load()), args=[recv], keywords=[])
        if first in stored:
            return None
        if not (isinstance(recv, ast.Name) and recv.id == first):
            sub[first] = recv
    holder = ast.Module(body=body, type_ignores=[])
    _Rename(ren).visit(holder)
    if lam:
        _BetaReduce(lam).visit(holder)
    _Sub(sub).visit(holder)
    body = holder.body
    result = None
    rets = [n for st in body for n in ast.walk(st) if isinstance(n, ast.Return)]
    if len(rets) == 1 and body and body[-1] is rets[0]:
        result = body[-1].value
        body = body[:-1]
    elif rets:
        body = _tailify(body)
        if body is None:
            return None
        res = result_name or ("res" + tag)
        if not _all_paths_return(body):
            prefix.append(ast.Assign(targets=[ast.Name(id=res, ctx=ast.Store())], value=ast.Constant(value=None), lineno=call.lineno, col_offset=0))
        holder = ast.Module(body=body, type_ignores=[])
        _RetToAssign(res).visit(holder)
        body = holder.body
        result = ast.Name(id=res, ctx=ast.Load())
    return prefix + body, result


_HELPERS = {}        # name -> (FunctionDef, "function" | "method", module tree)   (package-wide; names are unique)
_INLINED = set()     # helper names that were inlined somewhere
_BUILTINS = set(dir(__import__("builtins")))


def prepare(trees, cnt):
    """package-wide table of inlinable helpers (private, defined once): module-level functions and methods"""
    _HELPERS.clear()
    _INLINED.clear()
    for t in trees:
        for st in t.body:
            if isinstance(st, ast.FunctionDef) and _helper_ok(st, cnt):
                _HELPERS[st.name] = (st, "function", t)
        for c in ast.walk(t):
            if isinstance(c, ast.ClassDef):
                for st in c.body:
                    if isinstance(st, ast.FunctionDef) and _helper_ok(st, cnt):
                        _HELPERS[st.name] = (st, "method", t)


def _module_names(tree):
    out = set()
    for st in tree.body:
        if isinstance(st, (ast.FunctionDef, ast.ClassDef, ast.AsyncFunctionDef)):
            out.add(st.name)
        elif isinstance(st, (ast.Import, ast.ImportFrom)):
            for a in st.names:
                out.add((a.asname or a.name).split(".")[0])
        elif isinstance(st, (ast.Assign, ast.AnnAssign, ast.AugAssign)):
            for n in ast.walk(st):
                if isinstance(n, ast.Name) and isinstance(n.ctx, ast.Store):
                    out.add(n.id)
    return out


def _free_names(fn):
    bound = _stored_names(fn) | {a.arg for a in fn.args.args}
    for n in ast.walk(fn):
        if isinstance(n, ast.comprehension):
            bound |= {x.id for x in ast.walk(n.target) if isinstance(x, ast.Name)}
        elif isinstance(n, ast.Lambda):
            bound |= {a.arg for a in n.args.args}
    return {n.id for n in ast.walk(fn) if isinstance(n, ast.Name) and isinstance(n.ctx, ast.Load)} - bound - _BUILTINS


class _Inliner:
    def __init__(self, tree, cnt):
        self.tree = tree
        self.names_here = _module_names(tree)
        self.n = 0

    def run(self):
        for _ in range(3):
            before = self.n
            self._scope(self.tree, None, None)
            if self.n == before:
                break
        return self.n

    def _scope(self, node, cls, fn):
        for ch in ast.iter_child_nodes(node):
            if isinstance(ch, ast.ClassDef):
                self._scope(ch, ch, None)
            elif isinstance(ch, (ast.FunctionDef, ast.AsyncFunctionDef)):
                # methods keep their class; nested functions are closures of their definer: module helpers only
                self._func(ch, cls if (fn is None) else None)
                self._scope(ch, cls if (fn is None) else None, ch)
            else:
                self._scope(ch, cls, fn)

    def _usable_here(self, h, tree):
        """the helper's free names (imports, module globals) mean the same thing in this module"""
        return tree is self.tree or _free_names(h) <= self.names_here

    def _match(self, call, cls, self_name, host):
        f = call.func
        if isinstance(f, ast.Name) and f.id in _HELPERS:
            h, kind, tree = _HELPERS[f.id]
            if kind == "function" and h is not host and tree is self.tree:
                return h, "function"
        if isinstance(f, ast.Attribute) and f.attr in _HELPERS and _is_simple(f.value) and not isinstance(f.value, ast.Constant):
            h, kind, tree = _HELPERS[f.attr]
            if kind == "method" and h is not host and self._usable_here(h, tree):
                return h, "method"
        return None, None

    def _func(self, fn, cls):
        self_name = fn.args.args[0].arg if (cls is not None and fn.args.args) else None
        fn.body = self._block(fn.body, cls, self_name, fn)

    def _block(self, stmts, cls, self_name, host):
        out = []
        for st in stmts:
            for fld in ("body", "orelse", "finalbody"):
                v = getattr(st, fld, None)
                if isinstance(v, list) and v and isinstance(v[0], ast.stmt) and not isinstance(st, (ast.FunctionDef, ast.AsyncFunctionDef, ast.ClassDef)):
                    setattr(st, fld, self._block(v, cls, self_name, host))
            for h in getattr(st, "handlers", []) or []:
                h.body = self._block(h.body, cls, self_name, host)
            if isinstance(st, (ast.FunctionDef, ast.AsyncFunctionDef, ast.ClassDef)):
                out.append(st)
                continue
            # 1. expression helpers anywhere inside the statement's own expressions
            self._expr_helpers(st, cls, self_name, host)
            # 1b. `if H(..) <cmp> K:` / `if H(..):` / `if not H(..):` with H a statement helper: the call is the first thing the test
            #     evaluates, so it can be hoisted into a temporary right before the `if` (then handled as an assignment position)
            if isinstance(st, ast.If):
                t = st.test
                holder, attr = None, None
                if isinstance(t, ast.Call):
                    holder, attr = st, "test"
                elif isinstance(t, ast.UnaryOp) and isinstance(t.op, ast.Not) and isinstance(t.operand, ast.Call):
                    holder, attr = t, "operand"
                elif isinstance(t, ast.Compare) and isinstance(t.left, ast.Call):
                    holder, attr = t, "left"
                if holder is not None:
                    call = getattr(holder, attr)
                    h, _hk = self._match(call, cls, self_name, host)
                    if h is not None and _kind(h) == "stmt":
                        self._tmp_n = getattr(self, "_tmp_n", 0) + 1
                        tmp = "_ht%d" % self._tmp_n
                        asg = ast.copy_location(ast.Assign(targets=[ast.Name(id=tmp, ctx=ast.Store())], value=call), st)
                        setattr(holder, attr, ast.copy_location(ast.Name(id=tmp, ctx=ast.Load()), call))
                        pre0 = self._stmt_helper(asg, cls, self_name, host)
                        out.extend(pre0 if pre0 is not None else [asg])
            # 2. statement helpers at the supported positions
            pre = self._stmt_helper(st, cls, self_name, host)
            if pre is not None:
                out.extend(pre)
            else:
                out.append(st)
        return out or [ast.Pass()]

    def _own_exprs(self, st):
        """expression fields of st itself (not of nested statements)"""
        for fld, val in ast.iter_fields(st):
            if isinstance(val, ast.expr):
                yield fld, None, val
            elif isinstance(val, list):
                for i, v in enumerate(val):
                    if isinstance(v, ast.expr):
                        yield fld, i, v
                    elif isinstance(v, (ast.withitem, ast.keyword)):
                        yield fld, i, v

    def _expr_helpers(self, st, cls, self_name, host):
        inl = self

        class T(ast.NodeTransformer):
            def visit_Call(s, node):
                s.generic_visit(node)
                h, kind = inl._match(node, cls, self_name, host)
                if h is None or _kind(h) != "expr":
                    return node
                b = _bind(h, node, kind)
                if b is None:
                    return node
                params, m = b
                if not all(_is_simple(m[p]) for p in params):
                    return node
                r = _expand(h, node, kind, self_name)
                if r is None or r[0]:
                    return node
                inl.n += 1
                _INLINED.add(h.name)
                return r[1]

            def visit_Lambda(s, node):
                return node

        for fld, i, v in list(self._own_exprs(st)):
            nv = T().visit(v)
            if i is None:
                setattr(st, fld, nv)
            else:
                getattr(st, fld)[i] = nv

    def _stmt_helper(self, st, cls, self_name, host):
        """st with one statement-helper call at a supported position -> replacement statement list"""
        def calls_free(e):
            return not any(isinstance(n, ast.Call) for n in ast.walk(e))

        site = None      # (container, accessor)
        if isinstance(st, ast.Expr) and isinstance(st.value, ast.Call):
            site = ("value", st)
        elif isinstance(st, (ast.Assign, ast.AugAssign, ast.AnnAssign, ast.Return)) and isinstance(getattr(st, "value", None), ast.Call):
            site = ("value", st)
        if site is None:
            return None
        call = st.value
        h, kind = self._match(call, cls, self_name, host)
        if h is not None and _kind(h) == "stmt":
            tname = st.targets[0].id if (isinstance(st, ast.Assign) and len(st.targets) == 1 and isinstance(st.targets[0], ast.Name)) else None
            r = _expand(h, call, kind, self_name, result_name=tname)
            if r is None:
                return None
            pre, res = r
            self.n += 1
            _INLINED.add(h.name)
            if tname is not None and isinstance(res, ast.Name) and res.id == tname:
                return pre          # the branches assign the target themselves
            if isinstance(st, ast.Expr):
                return pre + ([ast.Expr(value=res, lineno=st.lineno, col_offset=0)] if (res is not None and not _is_simple(res)) else [])
            st.value = res if res is not None else ast.Constant(value=None)
            return pre + [st]
        # a direct argument of the outer call, everything else call-free
        outer = call
        cands = [(i, a) for i, a in enumerate(outer.args) if isinstance(a, ast.Call)]
        if len(cands) == 1 and calls_free(ast.Tuple(elts=[a for j, a in enumerate(outer.args) if j != cands[0][0]] + [k.value for k in outer.keywords], ctx=ast.Load())) \
                and (calls_free(outer.func) if not isinstance(outer.func, ast.Attribute) else calls_free(outer.func.value)):
            i, inner = cands[0]
            h, kind = self._match(inner, cls, self_name, host)
            if h is not None and _kind(h) == "stmt":
                r = _expand(h, inner, kind, self_name)
                if r is None or r[1] is None:
                    return None
                pre, res = r
                self.n += 1
                _INLINED.add(h.name)
                outer.args[i] = res
                return pre + [st]
        return None


# ------------------------------------------------------------------------------------------------ aliases
def _attr_path(e):
    """text of a pure attribute path rooted at a name (`self.a.b`, `Cls.x`), else None"""
    parts = []
    while isinstance(e, ast.Attribute):
        parts.append(e.attr)
        e = e.value
    if isinstance(e, ast.Name) and parts:
        return ".".join([e.id] + parts[::-1])
    return None


_PURE_FUNCS = {"isinstance", "len", "hasattr", "callable", "type", "issubclass"}
_SAFE_CALLS = _PURE_FUNCS | {"int", "str", "bool", "float", "max", "min", "abs", "range", "enumerate", "zip", "reversed", "sorted", "list", "tuple",
                             "set", "dict", "print", "id", "repr", "sum", "any", "all", "Exception"}
_MUTATORS = {"append", "pop", "insert", "remove", "clear", "extend", "sort", "reverse", "update", "add", "discard", "setdefault", "popitem"}


def _pure_value(e):
    """'path' for an attribute path, 'pure' for a side-effect-free expression whose value depends only on the objects named in
    it (pure builtin over simple arguments, subscript of simple values), else None"""
    if _attr_path(e):
        return "path"
    if isinstance(e, ast.Call) and isinstance(e.func, ast.Name) and e.func.id in _PURE_FUNCS and not e.keywords \
            and all(_is_simple(a) or (isinstance(a, ast.Tuple) and all(_is_simple(x) for x in a.elts)) for a in e.args):
        return "pure"
    if isinstance(e, ast.Subscript) and _is_simple(e.value) and _is_simple(e.slice):
        return "pure"
    if isinstance(e, ast.Name):
        return "pure"               # a copy of another local
    if isinstance(e, (ast.Compare, ast.BoolOp, ast.UnaryOp, ast.BinOp)) and not any(isinstance(n, (ast.Call, ast.Lambda, ast.IfExp, ast.NamedExpr, ast.Await,
                                                                                                   ast.ListComp, ast.GeneratorExp, ast.SetComp, ast.DictComp))
                                                                                     for n in ast.walk(e)):
        if all(_is_simple(n) for n in ast.walk(e) if isinstance(n, (ast.Attribute, ast.Subscript))):
            return "pure"           # call-free arithmetic / comparison over names, attribute paths and constants
    return None


def _root(e):
    while isinstance(e, (ast.Attribute, ast.Subscript, ast.Call)):
        e = e.func if isinstance(e, ast.Call) else e.value
    return e.id if isinstance(e, ast.Name) else None


def _events(stmts, loop=()):
    """(kind, name, loop ids) in evaluation order: 'use' of a name, 'store' to a name, 'mut' of the object a name refers to"""
    out = []

    def expr(e):
        if e is None:
            return
        for n in ast.walk(e):
            if isinstance(n, ast.Name) and isinstance(n.ctx, ast.Load):
                out.append(("use", n.id, loop))
        for n in ast.walk(e):
            if isinstance(n, ast.Call) and isinstance(n.func, ast.Attribute) and n.func.attr in _MUTATORS:
                # a container mutator changes the receiver object only
                out.append(("estore", ast.unparse(n.func.value), loop))
                continue
            elif isinstance(n, ast.NamedExpr):
                out.append(("store", n.target.id, loop))
            if isinstance(n, ast.Call) and not (isinstance(n.func, ast.Name) and n.func.id in _SAFE_CALLS):
                # an opaque call: may rebind attributes of / mutate whatever it can reach: its receiver and its arguments
                reach = set()
                if isinstance(n.func, ast.Attribute):
                    r = _root(n.func.value)
                    if r:
                        reach.add(r)
                else:
                    reach.add("<function>")
                for a in list(n.args) + [k.value for k in n.keywords]:
                    reach |= {x.id for x in ast.walk(a) if isinstance(x, ast.Name)}
                for r in reach:
                    out.append(("call", r, loop))

    def target(t):
        for n in ast.walk(t):
            if isinstance(n, ast.Name) and isinstance(n.ctx, (ast.Store, ast.Del)):
                out.append(("store", n.id, loop))
        if isinstance(t, (ast.Attribute, ast.Subscript)):
            for n in ast.walk(t):
                if isinstance(n, ast.Name) and isinstance(n.ctx, ast.Load):
                    out.append(("use", n.id, loop))
            if isinstance(t, ast.Attribute):
                out.append(("pstore", ast.unparse(t), loop))          # rebinds the attribute path
            else:
                out.append(("estore", ast.unparse(t.value), loop))    # changes an element of the object at that path
        elif isinstance(t, (ast.Tuple, ast.List)):
            for x in t.elts:
                if not isinstance(x, ast.Name):
                    target(x)

    for st in stmts:
        if isinstance(st, ast.Assign):
            expr(st.value)
            for t in st.targets:
                target(t)
        elif isinstance(st, ast.AugAssign):
            expr(st.value)
            expr(st.target) if not isinstance(st.target, ast.Name) else out.append(("use", st.target.id, loop))
            target(st.target)
        elif isinstance(st, ast.AnnAssign):
            expr(st.value)
            target(st.target)
        elif isinstance(st, ast.Delete):
            for t in st.targets:
                target(t)
        elif isinstance(st, (ast.For, ast.AsyncFor)):
            expr(st.iter)
            lid = loop + (id(st),)
            sub = _events(st.body, lid)
            tg = []
            for n in ast.walk(st.target):
                if isinstance(n, ast.Name):
                    tg.append(("store", n.id, lid))
            out.extend(tg + sub + _events(st.orelse, loop))
        elif isinstance(st, ast.While):
            lid = loop + (id(st),)
            o2 = []
            for n in ast.walk(st.test):
                if isinstance(n, ast.Name) and isinstance(n.ctx, ast.Load):
                    o2.append(("use", n.id, lid))
            out.extend(o2 + _events(st.body, lid) + _events(st.orelse, loop))
        elif isinstance(st, ast.If):
            expr(st.test)
            out.extend(_events(st.body, loop) + _events(st.orelse, loop))
        elif isinstance(st, (ast.With, ast.AsyncWith)):
            for it in st.items:
                expr(it.context_expr)
                if it.optional_vars is not None:
                    target(it.optional_vars)
            out.extend(_events(st.body, loop))
        elif isinstance(st, ast.Try):
            out.extend(_events(st.body, loop))
            for h in st.handlers:
                if h.name:
                    out.append(("store", h.name, loop))
                out.extend(_events(h.body, loop))
            out.extend(_events(st.orelse, loop) + _events(st.finalbody, loop))
        elif isinstance(st, (ast.FunctionDef, ast.AsyncFunctionDef, ast.ClassDef)):
            for n in ast.walk(st):
                if isinstance(n, ast.Name) and isinstance(n.ctx, ast.Load):
                    out.append(("use", n.id, loop))
        else:
            for fld, val in ast.iter_fields(st):
                if isinstance(val, ast.expr):
                    expr(val)
                elif isinstance(val, list):
                    for v in val:
                        if isinstance(v, ast.expr):
                            expr(v)
    return out


def _fold_aliases(fn, stable_ok=True):
    """substitute back locals that are assigned once from an attribute path, a pure builtin test or an element read, when nothing the
    value depends on changes between the definition and its last use"""
    n_done = 0
    stores = {}
    for n in ast.walk(fn):
        if isinstance(n, ast.Name) and isinstance(n.ctx, (ast.Store, ast.Del)):
            stores[n.id] = stores.get(n.id, 0) + 1
        elif isinstance(n, ast.arg):
            stores[n.arg] = stores.get(n.arg, 0) + 2
        elif isinstance(n, (ast.Global, ast.Nonlocal)):
            for x in n.names:
                stores[x] = stores.get(x, 0) + 2
    written_paths = set()
    for n in ast.walk(fn):
        tg = []
        if isinstance(n, ast.Assign):
            tg = n.targets
        elif isinstance(n, (ast.AugAssign, ast.AnnAssign)):
            tg = [n.target]
        elif isinstance(n, ast.Delete):
            tg = n.targets
        for t in tg:
            for x in ast.walk(t):
                p = _attr_path(x) if isinstance(x, ast.Attribute) and isinstance(x.ctx, (ast.Store, ast.Del)) else None
                if p:
                    written_paths.add(p)
    for blk_owner in ast.walk(fn):
        for fld in ("body", "orelse", "finalbody"):
            blk = getattr(blk_owner, fld, None)
            if not (isinstance(blk, list) and blk and isinstance(blk[0], ast.stmt)):
                continue
            i = 0
            while i < len(blk):
                st = blk[i]
                ok = False
                if (isinstance(st, ast.Assign) and len(st.targets) == 1 and isinstance(st.targets[0], ast.Name)
                        and stores.get(st.targets[0].id) == 1):
                    v = st.targets[0].id
                    kind = _pure_value(st.value)
                    loads = [x for x in ast.walk(fn) if isinstance(x, ast.Name) and x.id == v and isinstance(x.ctx, ast.Load)]
                    later = set()
                    for s2 in blk[i + 1:]:
                        later |= {id(x) for x in ast.walk(s2)}
                    nested = set()
                    for x in ast.walk(fn):
                        if x is not fn and isinstance(x, (ast.FunctionDef, ast.AsyncFunctionDef, ast.Lambda, ast.ClassDef)):
                            nested |= {id(y) for y in ast.walk(x)}
                    if kind and loads and all(id(x) in later for x in loads) and not any(id(x) in nested for x in loads):
                        deps = {n.id for n in ast.walk(st.value) if isinstance(n, ast.Name)} - _SAFE_CALLS
                        type_test = isinstance(st.value, ast.Call) and st.value.func.id in ("isinstance", "issubclass", "callable", "type")
                        path = _attr_path(st.value)
                        local_names = set(stores)
                        evs = _events(blk[i + 1:])
                        bad = False
                        interfered = False
                        loops_with_interference = set()
                        # what the value was read from: the path itself (attribute alias) or the container (len / element read)
                        if path is not None:
                            src_path = path
                        elif isinstance(st.value, ast.Subscript):
                            src_path = ast.unparse(st.value.value)
                        elif isinstance(st.value, ast.Call) and st.value.args:
                            src_path = ast.unparse(st.value.args[0])
                        else:
                            src_path = None
                        root = src_path.split(".")[0].split("[")[0] if src_path else None
                        # every attribute path / container the value reads (the index expression of an element read counts too)
                        val_paths = {ast.unparse(x) for x in ast.walk(st.value) if isinstance(x, ast.Attribute)}
                        val_conts = {ast.unparse(x.value) for x in ast.walk(st.value) if isinstance(x, ast.Subscript)}
                        if isinstance(st.value, ast.Call) and st.value.args:
                            val_conts.add(ast.unparse(st.value.args[0]))
                        for k, nm, lp in evs:
                            hit = False
                            if k == "store" and nm in deps:
                                hit = True
                            elif type_test:
                                pass
                            elif k == "pstore" and any(vp == nm or vp.startswith(nm + ".") or vp.startswith(nm + "[") for vp in val_paths):
                                hit = True          # a path the value reads (or a prefix of it) is rebound
                            elif k == "estore" and any(nm == vc or vc.startswith(nm + "[") for vc in val_conts):
                                hit = True          # a container whose length / element was read is changed
                            elif k == "call" and stable_ok and path is not None and path.count(".") == 1 and path.split(".")[1] in _STABLE:
                                pass                # the attribute is assigned in __init__ only: no call can rebind it
                            elif k == "call":
                                # an opaque call that can reach the object the value was read from may rebind / mutate it;
                                # a plain function can reach what is not local to this function (globals, class attributes)
                                if nm == root or (nm in deps) or (nm == "<function>" and root is not None and root not in local_names):
                                    hit = True
                            if hit:
                                interfered = True
                                loops_with_interference |= set(lp)
                            elif k == "use" and nm == v and interfered:
                                bad = True
                        if not bad and loops_with_interference:
                            bad = any(k == "use" and nm == v and set(lp) & loops_with_interference for k, nm, lp in evs)
                        if path is not None and any(path == w or path.startswith(w + ".") for w in written_paths):
                            # the attribute is assigned in this very function (save/restore idiom): only when nothing at all intervenes
                            bad = bad or any(k in ("call", "pstore", "estore") for k, nm, lp in evs[:max([j for j, e in enumerate(evs) if e[0] == "use" and e[1] == v] + [0]) + 1])
                        ok = not bad
                    if ok:
                        sub = _Sub({v: st.value})
                        for j in range(i + 1, len(blk)):
                            blk[j] = sub.visit(blk[j])
                        del blk[i]
                        n_done += 1
                        continue
                i += 1
    return n_done


# ------------------------------------------------------------------------------------------------ enumerate
def _split_tuple_assigns(fn):
    """`a, b = (x, y)` with plain names / constants on the right, none of them a target -> `a = x; b = y`"""
    n_done = 0
    for node in ast.walk(fn):
        for fld in ("body", "orelse", "finalbody"):
            blk = getattr(node, fld, None)
            if not isinstance(blk, list):
                continue
            out = []
            for st in blk:
                if (isinstance(st, ast.Assign) and len(st.targets) == 1 and isinstance(st.targets[0], ast.Tuple) and isinstance(st.value, ast.Tuple)
                        and len(st.targets[0].elts) == len(st.value.elts)
                        and all(isinstance(t, ast.Name) for t in st.targets[0].elts)
                        and all(isinstance(v, (ast.Name, ast.Constant)) for v in st.value.elts)
                        and not ({t.id for t in st.targets[0].elts} & {v.id for v in st.value.elts if isinstance(v, ast.Name)})
                        and len({t.id for t in st.targets[0].elts}) == len(st.targets[0].elts)):
                    for t, v in zip(st.targets[0].elts, st.value.elts):
                        out.append(ast.copy_location(ast.Assign(targets=[t], value=v), st))
                    n_done += 1
                else:
                    out.append(st)
            blk[:] = out
    return n_done


def _untuple_loops(fn):
    """`for a, b in X: ..a..b..` (X a plain name / attribute path, a and b not re-bound in the body) -> `for ab in X: ..ab[0]..ab[1]..`"""
    n_done = 0
    for lp in ast.walk(fn):
        if not (isinstance(lp, ast.For) and isinstance(lp.target, ast.Tuple) and all(isinstance(e, ast.Name) for e in lp.target.elts)
                and (isinstance(lp.iter, ast.Name) or (isinstance(lp.iter, ast.Attribute) and _attr_path(lp.iter) is not None))):
            continue
        names = [e.id for e in lp.target.elts]
        if len(set(names)) != len(names):
            continue
        body_nodes = [n for st in lp.body + lp.orelse for n in ast.walk(st)]
        if any(isinstance(n, ast.Name) and n.id in names and isinstance(n.ctx, (ast.Store, ast.Del)) for n in body_nodes):
            continue
        if any(isinstance(n, (ast.Lambda, ast.FunctionDef, ast.ListComp, ast.SetComp, ast.DictComp, ast.GeneratorExp)) for n in body_nodes):
            continue
        # the names must not be read after the loop (they would keep the last element's parts)
        rebound = set()
        for other in ast.walk(fn):
            if isinstance(other, ast.For) and other is not lp and any(isinstance(t, ast.Name) and t.id in names for t in ast.walk(other.target)):
                rebound |= set(ast.walk(other))
        inside = set(ast.walk(lp))
        outside = [n for n in ast.walk(fn) if isinstance(n, ast.Name) and n.id in names and isinstance(n.ctx, ast.Load) and n not in inside and n not in rebound]
        if outside:
            continue
        new = "_".join(x.strip("_") or "x" for x in names) + "_t"
        if any(isinstance(n, ast.Name) and n.id == new for n in ast.walk(fn)):
            continue
        idx = {nm: i for i, nm in enumerate(names)}

        class R(ast.NodeTransformer):
            def visit_Name(self, node):
                if node.id in idx and isinstance(node.ctx, ast.Load):
                    return ast.copy_location(ast.Subscript(value=ast.Name(id=new, ctx=ast.Load()), slice=ast.Constant(value=idx[node.id]), ctx=ast.Load()), node)
                return node
        lp.body = [R().visit(st) for st in lp.body]
        lp.orelse = [R().visit(st) for st in lp.orelse]
        lp.target = ast.copy_location(ast.Name(id=new, ctx=ast.Store()), lp.target)
        n_done += 1
    return n_done


def _unproduct(fn):
    """`for x, y in itertools.product(A, B): BODY` -> `for x in A: for y in B: BODY` (A, B simple and not modified in the body)"""
    n_done = 0
    for lp in ast.walk(fn):
        if not isinstance(lp, ast.For):
            continue
        it = lp.iter
        if not (isinstance(it, ast.Call) and ast.unparse(it.func) in ("itertools.product", "product") and len(it.args) == 2 and not it.keywords
                and isinstance(lp.target, ast.Tuple) and len(lp.target.elts) == 2 and all(isinstance(e, ast.Name) for e in lp.target.elts)
                and all(_is_simple(a) and not isinstance(a, ast.Constant) for a in it.args) and not lp.orelse):
            continue
        body_nodes = [n for st in lp.body for n in ast.walk(st)]
        if any(isinstance(n, (ast.Break, ast.Continue)) for n in body_nodes):
            continue
        txts = {ast.unparse(a) for a in it.args}
        if any(isinstance(n, ast.Call) and isinstance(n.func, ast.Attribute) and ast.unparse(n.func.value) in txts and n.func.attr in _MUTATORS for n in body_nodes):
            continue
        inner = ast.For(target=lp.target.elts[1], iter=it.args[1], body=lp.body, orelse=[], lineno=lp.lineno, col_offset=lp.col_offset)
        lp.target, lp.iter, lp.body = lp.target.elts[0], it.args[0], [inner]
        n_done += 1
    return n_done


def _unenumerate(fn):
    n_done = 0
    for lp in ast.walk(fn):
        if not isinstance(lp, ast.For):
            continue
        it = lp.iter
        if not (isinstance(it, ast.Call) and isinstance(it.func, ast.Name) and it.func.id == "enumerate" and len(it.args) == 1 and not it.keywords):
            continue
        if not (isinstance(lp.target, ast.Tuple) and len(lp.target.elts) == 2 and all(isinstance(e, ast.Name) for e in lp.target.elts)):
            continue
        seq = it.args[0]
        if not (_is_simple(seq) and not isinstance(seq, ast.Constant)):
            continue
        i, x = lp.target.elts[0].id, lp.target.elts[1].id
        body_nodes = [n for st in lp.body + lp.orelse for n in ast.walk(st)]
        if any(isinstance(n, ast.Name) and n.id in (i, x) and isinstance(n.ctx, (ast.Store, ast.Del)) for n in body_nodes):
            continue
        seq_txt = ast.unparse(seq)
        mutated = any(isinstance(n, ast.Call) and isinstance(n.func, ast.Attribute) and ast.unparse(n.func.value) == seq_txt
                      and n.func.attr in ("append", "pop", "insert", "remove", "clear", "extend", "sort", "reverse") for n in body_nodes)
        if mutated:
            continue
        # the element name must not be used after the loop (it would keep the last element)
        used_after = False
        seen_loop = False
        for n in ast.walk(fn):
            if n is lp:
                seen_loop = True
        later_names = set()
        par_blocks = [getattr(o, f) for o in ast.walk(fn) for f in ("body", "orelse", "finalbody") if isinstance(getattr(o, f, None), list)]
        for blk in par_blocks:
            if lp in blk:
                for st in blk[blk.index(lp) + 1:]:
                    later_names |= {n.id for n in ast.walk(st) if isinstance(n, ast.Name)}
        if x in later_names:
            continue
        lp.target = ast.Name(id=i, ctx=ast.Store())
        lp.iter = ast.Call(func=ast.Name(id="range", ctx=ast.Load()),
                           args=[ast.Call(func=ast.Name(id="len", ctx=ast.Load()), args=[copy.deepcopy(seq)], keywords=[])], keywords=[])
        elem = ast.Subscript(value=copy.deepcopy(seq), slice=ast.Name(id=i, ctx=ast.Load()), ctx=ast.Load())
        sub = _Sub({x: elem})
        lp.body = [sub.visit(st) for st in lp.body]
        lp.orelse = [sub.visit(st) for st in lp.orelse]
        n_done += 1
    return n_done


def _inline_single_use_temps(fn):
    """`t = E` immediately followed by a statement whose header expression reads t exactly once, before anything else in it is
    called, and t is used nowhere else: substitute E (inlining a helper leaves such temporaries for its arguments)"""
    n_done = 0
    loads, stores = {}, {}
    for n in ast.walk(fn):
        if isinstance(n, ast.Name):
            d = loads if isinstance(n.ctx, ast.Load) else stores
            d[n.id] = d.get(n.id, 0) + 1
        elif isinstance(n, ast.arg):
            stores[n.arg] = stores.get(n.arg, 0) + 2
        elif isinstance(n, (ast.Global, ast.Nonlocal)):
            for x in n.names:
                stores[x] = stores.get(x, 0) + 2
    cands = {v for v in stores if stores[v] == 1 and loads.get(v, 0) == 1}
    if not cands:
        return 0

    def header(st):
        if isinstance(st, (ast.For, ast.AsyncFor)):
            return "iter"
        if isinstance(st, ast.If):
            return "test"
        if isinstance(st, (ast.Return, ast.Assign, ast.Expr, ast.AugAssign, ast.AnnAssign)):
            return "value"
        return None

    for owner in ast.walk(fn):
        for fld in ("body", "orelse", "finalbody"):
            blk = getattr(owner, fld, None)
            if not (isinstance(blk, list) and blk and isinstance(blk[0], ast.stmt)):
                continue
            i = 0
            while i + 1 < len(blk):
                a, b = blk[i], blk[i + 1]
                hf = header(b)
                if (isinstance(a, ast.Assign) and len(a.targets) == 1 and isinstance(a.targets[0], ast.Name) and a.targets[0].id in cands
                        and hf and getattr(b, hf, None) is not None):
                    v = a.targets[0].id
                    e = getattr(b, hf)
                    occ = [x for x in ast.walk(e) if isinstance(x, ast.Name) and x.id == v]
                    if len(occ) == 1 and not any(isinstance(x, (ast.Lambda, ast.ListComp, ast.GeneratorExp, ast.SetComp, ast.DictComp, ast.IfExp, ast.BoolOp))
                                                 for x in ast.walk(e)):
                        # every call in the expression must have the temp among its (transitive) arguments: nothing runs before it
                        ok = True
                        for c in ast.walk(e):
                            if isinstance(c, ast.Call) and not any(x is occ[0] for x in ast.walk(c)):
                                ok = False
                        # for an assignment, target sub-expressions are evaluated after the value: fine
                        if ok:
                            setattr(b, hf, _Sub({v: a.value}).visit(e))
                            del blk[i]
                            n_done += 1
                            continue
                i += 1
    return n_done


class _ConstGetattr(ast.NodeTransformer):
    """getattr(x, "name") -> x.name   (arises when a helper taking the attribute name is inlined)"""

    def visit_Call(self, node):
        self.generic_visit(node)
        if (isinstance(node.func, ast.Name) and node.func.id == "getattr" and len(node.args) == 2 and not node.keywords
                and isinstance(node.args[1], ast.Constant) and isinstance(node.args[1].value, str) and node.args[1].value.isidentifier()):
            return ast.copy_location(ast.Attribute(value=node.args[0], attr=node.args[1].value, ctx=ast.Load()), node)
        return node


def _module_tables(tree):
    """module-level names assigned exactly once to a literal tuple/list of constants or of tuples of constants"""
    cnt, val = {}, {}
    for st in tree.body:
        if isinstance(st, ast.Assign) and len(st.targets) == 1 and isinstance(st.targets[0], ast.Name):
            cnt[st.targets[0].id] = cnt.get(st.targets[0].id, 0) + 1
            val[st.targets[0].id] = st.value
    for n in ast.walk(tree):
        if isinstance(n, ast.Name) and isinstance(n.ctx, (ast.Store, ast.Del)) and n.id in cnt and not any(
                isinstance(st, ast.Assign) and st.targets[0] is n for st in tree.body if isinstance(st, ast.Assign)):
            cnt[n.id] += 1
        if isinstance(n, ast.Global):
            for x in n.names:
                cnt[x] = cnt.get(x, 0) + 2
    out = {}
    for k, v in val.items():
        if cnt.get(k) == 1 and isinstance(v, (ast.Tuple, ast.List)) and 1 <= len(v.elts) <= 8 and all(
                isinstance(e, ast.Constant) or (isinstance(e, (ast.Tuple, ast.List)) and all(isinstance(y, ast.Constant) for y in e.elts)) for e in v.elts):
            out[k] = v
    return out


class _PartialEval(ast.NodeTransformer):
    """what is left to simplify once constants were substituted: setattr with a constant name, `True and x`, `if False:`"""

    def visit_Expr(self, node):
        self.generic_visit(node)
        c = node.value
        if (isinstance(c, ast.Call) and isinstance(c.func, ast.Name) and c.func.id == "setattr" and len(c.args) == 3 and not c.keywords
                and isinstance(c.args[1], ast.Constant) and isinstance(c.args[1].value, str) and c.args[1].value.isidentifier()):
            return ast.copy_location(ast.Assign(targets=[ast.Attribute(value=c.args[0], attr=c.args[1].value, ctx=ast.Store())], value=c.args[2]), node)
        return node

    def visit_BoolOp(self, node):
        self.generic_visit(node)
        is_and = isinstance(node.op, ast.And)
        vals = []
        for v in node.values:
            if isinstance(v, ast.Constant) and isinstance(v.value, bool):
                if v.value == is_and:
                    continue              # neutral element
                return ast.copy_location(ast.Constant(value=v.value), node) if not vals else ast.copy_location(
                    ast.BoolOp(op=node.op, values=vals + [v]), node) if False else (ast.copy_location(ast.Constant(value=v.value), node) if not vals else node)
            vals.append(v)
        if not vals:
            return ast.copy_location(ast.Constant(value=is_and), node)
        if len(vals) == 1:
            return vals[0]
        node.values = vals
        return node

    def _block(self, stmts):
        out = []
        for st in stmts:
            r = self.visit(st)
            if isinstance(r, list):
                out.extend(r)
            elif r is not None:
                out.append(r)
        return out

    def visit_If(self, node):
        node.test = self.visit(node.test)
        node.body = self._block(node.body) or [ast.Pass()]
        node.orelse = self._block(node.orelse)
        if isinstance(node.test, ast.Constant) and isinstance(node.test.value, bool):
            return node.body if node.test.value else (node.orelse or None)
        return node

    def generic_visit(self, node):
        for fld, val in ast.iter_fields(node):
            if isinstance(val, list) and val and isinstance(val[0], ast.stmt):
                setattr(node, fld, self._block(val) or [ast.Pass()])
            elif isinstance(val, list):
                setattr(node, fld, [self.visit(v) if isinstance(v, ast.AST) else v for v in val])
            elif isinstance(val, ast.AST):
                setattr(node, fld, self.visit(val))
        return node


def _unroll_literal_loops(fn, tables=None):
    """`for x in (a, b, c): BODY` over a literal tuple/list of simple expressions -> BODY[x:=a]; BODY[x:=b]; BODY[x:=c]"""
    n_done = 0
    for owner in ast.walk(fn):
        for fld in ("body", "orelse", "finalbody"):
            blk = getattr(owner, fld, None)
            if not (isinstance(blk, list) and blk and isinstance(blk[0], ast.stmt)):
                continue
            i = 0
            while i < len(blk):
                lp = blk[i]
                tnames = None
                if isinstance(lp, ast.For) and isinstance(lp.iter, ast.Name) and tables and lp.iter.id in tables and not lp.orelse \
                        and not any(isinstance(n, ast.Name) and n.id == lp.iter.id and isinstance(n.ctx, ast.Store) for n in ast.walk(fn)):
                    lp.iter = copy.deepcopy(tables[lp.iter.id])
                    from_table = True
                else:
                    from_table = False
                if isinstance(lp, ast.For) and isinstance(lp.iter, (ast.Tuple, ast.List)) and 1 <= len(lp.iter.elts) <= (8 if from_table else 4) and not lp.orelse:
                    if isinstance(lp.target, ast.Name) and all(_is_simple(e) and (from_table or not isinstance(e, ast.Constant)) for e in lp.iter.elts):
                        tnames = [lp.target.id]
                    elif (isinstance(lp.target, ast.Tuple) and all(isinstance(t, ast.Name) for t in lp.target.elts)
                          and all(isinstance(e, (ast.Tuple, ast.List)) and len(e.elts) == len(lp.target.elts)
                                  and all(_is_simple(y) for y in e.elts) for e in lp.iter.elts)):
                        tnames = [t.id for t in lp.target.elts]
                if tnames:
                    x = tnames[0]
                    inner = [n for st in lp.body for n in ast.walk(st)]
                    own_jumps = []

                    def jumps(stmts, depth):
                        for st in stmts:
                            if isinstance(st, (ast.Break, ast.Continue)) and depth == 0:
                                own_jumps.append(st)
                            for f2 in ("body", "orelse", "finalbody"):
                                v = getattr(st, f2, None)
                                if isinstance(v, list) and v and isinstance(v[0], ast.stmt):
                                    jumps(v, depth + (1 if isinstance(st, (ast.For, ast.While)) else 0))
                            for h in getattr(st, "handlers", []) or []:
                                jumps(h.body, depth)
                    jumps(lp.body, 0)
                    stored = any(isinstance(n, ast.Name) and n.id in tnames and isinstance(n.ctx, (ast.Store, ast.Del)) for n in inner)
                    nested_def = any(isinstance(n, (ast.FunctionDef, ast.Lambda, ast.ClassDef)) for n in inner)
                    used_after = any(isinstance(n, ast.Name) and n.id in tnames for st in blk[i + 1:] for n in ast.walk(st))
                    if not (own_jumps or stored or nested_def or used_after):
                        # locals that live inside one iteration only (first touched by a store, never seen outside the loop) get a
                        # fresh name per copy, so that each copy's temporaries stay single-assignment
                        inner_ids = {id(n) for n in inner}
                        body_stored = {n.id for n in inner if isinstance(n, ast.Name) and isinstance(n.ctx, ast.Store)}
                        outside = {n.id for n in ast.walk(fn) if isinstance(n, ast.Name) and id(n) not in inner_ids}
                        first = {}
                        for k_, nm_, _lp in _events(lp.body):
                            if k_ in ("use", "store") and nm_ not in first:
                                first[nm_] = k_
                        iter_local = {v for v in body_stored if v not in outside and first.get(v) == "store"}
                        new = []
                        for e in lp.iter.elts:
                            m = {tnames[0]: e} if len(tnames) == 1 and isinstance(lp.target, ast.Name) else dict(zip(tnames, e.elts))
                            _CNT[0] += 1
                            ren = {v: "%s_u%d" % (v, _CNT[0]) for v in iter_local}
                            for st in copy.deepcopy(lp.body):
                                st = _Rename(ren).visit(st) if ren else st
                                new.append(_Sub(m).visit(st))
                        blk[i:i + 1] = new
                        n_done += 1
                        i += len(new)
                        continue
                i += 1
    return n_done


class _FoldConst(ast.NodeTransformer):
    """integer constant folding (only arises after constants were substituted for a helper's parameters)"""
    OPS = {ast.Add: lambda a, b: a + b, ast.Sub: lambda a, b: a - b, ast.Mult: lambda a, b: a * b, ast.LShift: lambda a, b: a << b,
           ast.RShift: lambda a, b: a >> b, ast.BitAnd: lambda a, b: a & b, ast.BitOr: lambda a, b: a | b, ast.BitXor: lambda a, b: a ^ b}

    def visit_BinOp(self, node):
        self.generic_visit(node)
        l, r = node.left, node.right
        if (isinstance(l, ast.Constant) and isinstance(r, ast.Constant) and type(l.value) is int and type(r.value) is int
                and type(node.op) in self.OPS and not (isinstance(node.op, (ast.LShift, ast.RShift)) and not 0 <= r.value < 256)):
            return ast.copy_location(ast.Constant(value=self.OPS[type(node.op)](l.value, r.value)), node)
        return node


def _renumber(tree):
    k = [0]

    def rec(node):
        k[0] += 1
        if hasattr(node, "lineno") or isinstance(node, (ast.expr, ast.stmt, ast.excepthandler, ast.arg, ast.keyword, ast.alias)):
            node.lineno = k[0]
            node.end_lineno = k[0]
            node.col_offset = 0
            node.end_col_offset = 0
        for ch in ast.iter_child_nodes(node):
            rec(ch)
        if hasattr(node, "end_lineno"):
            node.end_lineno = k[0]      # number of the last node of the subtree: `x.lineno > n.end_lineno` means "after n"
    rec(tree)


def drop_inlined_helpers(trees):
    """after every module was normalised: a helper that was inlined and is referenced nowhere any more is removed (rules that
    scan "every function of the class / module" then see the code where it now lives, once)"""
    refs = {}
    for t in trees:
        for n in ast.walk(t):
            if isinstance(n, ast.Name):
                refs[n.id] = refs.get(n.id, 0) + 1
            elif isinstance(n, ast.Attribute):
                refs[n.attr] = refs.get(n.attr, 0) + 1
            elif isinstance(n, ast.Constant) and isinstance(n.value, str) and n.value.isidentifier():
                refs[n.value] = refs.get(n.value, 0) + 1       # getattr(obj, "name") / __all__
    dropped = []
    for name in sorted(_INLINED):
        if refs.get(name, 0):
            continue
        h, kind, tree = _HELPERS[name]
        for owner in ast.walk(tree):
            body = getattr(owner, "body", None)
            if isinstance(body, list) and any(x is h for x in body):
                body[:] = [x for x in body if x is not h] or [ast.Pass()]
                dropped.append(name)
    return dropped


def normalise(tree, cnt):
    """in place; returns (#inlined calls, #aliases folded, #enumerates rewritten)"""
    n_cm = _inline_context_managers(tree, _CLASS_CNT)
    n_inl = _Inliner(tree, cnt).run() + n_cm
    if n_inl:
        _FoldConst().visit(tree)
        _ConstGetattr().visit(tree)
    n_al = n_en = 0
    stable_ok = not _has_dynamic_setattr(tree)
    tables = _module_tables(tree)
    for fn in ast.walk(tree):
        if isinstance(fn, (ast.FunctionDef, ast.AsyncFunctionDef)):
            n_en += _unenumerate(fn)
            n_en += _unproduct(fn)
            _split_tuple_assigns(fn)
            k = _unroll_literal_loops(fn, tables)
            if k:
                _ConstGetattr().visit(fn)
                _PartialEval().visit(fn)
            n_en += k
            n_en += _untuple_loops(fn)
            n_al += _fold_aliases(fn, stable_ok)
            if n_inl:
                n_al += _inline_single_use_temps(fn)
    ast.fix_missing_locations(tree)
    _renumber(tree)
    return n_inl, n_al, n_en
