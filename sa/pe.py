"""PE: partial evaluation of dispatchers, reaching definitions, truth tables.

`SpecDom` specialises a function under `subject == Enum.member`: tests that compare the
subject with enum members are decided, everything else is a remembered fact (both ways).
It also keeps reaching definitions of selected local names so that a rule can ask "where
does this argument come from on this path".
"""
import ast
import itertools

from .ir import norm, dotted, call_name, walk_local, names_in, calls_in_order
from .sai import Domain, Interp, St, FALL


class SpecDom(Domain):
    def __init__(self, subject=None, member=None, enum=None, tracked=(), on_event=None, assume=None, relevant=None):
        self.subject = subject          # normalised text of the dispatch subject, e.g. 'self.op'
        self.member = member            # e.g. 'Eq'
        self.enum = enum                # e.g. 'BinExprType'
        self.tracked = set(tracked)
        self.on_event = on_event
        self.assume = assume or {}      # normalised atom text -> bool
        self.relevant = relevant
        self._rel = {}

    def initial_user(self):
        return frozenset()              # (name, def node id) pairs

    # -- dispatch tests ---------------------------------------------------------------
    def _member_of(self, node):
        d = dotted(node)
        if d and self.enum and d.split(".")[-2:-1] == [self.enum]:
            return d.split(".")[-1]
        return None

    def decide(self, st, test, ctx):
        t = norm(test)
        if t in self.assume:
            return [(self.assume[t], st)]
        # the same atom written with the opposite polarity (`x is not None` for an assumption about `x is None`, `not a`)
        if isinstance(test, ast.Compare) and len(test.ops) == 1:
            from .ir import _FLIP
            if type(test.ops[0]) in _FLIP:
                t2 = norm(ast.Compare(left=test.left, ops=[_FLIP[type(test.ops[0])]()], comparators=test.comparators))
                if t2 in self.assume:
                    return [(not self.assume[t2], st)]
        if isinstance(test, ast.Compare) and len(test.ops) == 1 and self.subject is not None:
            l, op, r = test.left, test.ops[0], test.comparators[0]
            if norm(l) == self.subject:
                if isinstance(op, (ast.Eq, ast.Is, ast.NotEq, ast.IsNot)):
                    m = self._member_of(r)
                    if m is not None:
                        eq = (m == self.member)
                        return [(eq if isinstance(op, (ast.Eq, ast.Is)) else not eq, st)]
                if isinstance(op, (ast.In, ast.NotIn)) and isinstance(r, (ast.Tuple, ast.List, ast.Set)):
                    ms = [self._member_of(e) for e in r.elts]
                    if all(m is not None for m in ms):
                        inn = self.member in ms
                        return [(inn if isinstance(op, ast.In) else not inn, st)]
            if norm(r) == self.subject and isinstance(op, (ast.Eq, ast.Is, ast.NotEq, ast.IsNot)):
                m = self._member_of(l)
                if m is not None:
                    eq = (m == self.member)
                    return [(eq if isinstance(op, (ast.Eq, ast.Is)) else not eq, st)]
        return super().decide(st, test, ctx)

    # -- reaching definitions ---------------------------------------------------------
    def on_assign(self, st, stmt):
        if not self.tracked:
            return st
        u = st.u
        tg = []
        if isinstance(stmt, ast.Assign):
            for t in stmt.targets:
                for n in ast.walk(t):
                    if isinstance(n, ast.Name) and n.id in self.tracked:
                        tg.append(n.id)
                    else:
                        d = dotted(n) if isinstance(n, ast.Attribute) else None
                        if d in self.tracked:
                            tg.append(d)
        elif isinstance(stmt, (ast.AugAssign, ast.AnnAssign)):
            d = dotted(stmt.target)
            if d in self.tracked:
                tg.append(d)
        if not tg:
            return st
        strong = not isinstance(stmt, ast.AugAssign)
        if strong:
            u = frozenset(x for x in u if x[0] not in tg)
        u = u | frozenset((n, id(stmt)) for n in tg)
        self._defs = getattr(self, "_defs", {})
        self._defs[id(stmt)] = stmt
        return st._replace(u=u)

    def defs_of(self, st, name):
        """assignment statements that may define `name` here (empty = parameter / unassigned)"""
        return [self._defs[i] for n, i in st.u if n == name]

    def on_call(self, st, call, ctx):
        if self.on_event is not None:
            self.on_event(call, st, self)
        return [(FALL, st, None)]

    def on_return(self, st, stmt):
        if self.on_event is not None:
            self.on_event(stmt, st, self)
        return st

    def facts_of(self, st):
        """remembered branch facts as {text: bool}"""
        return {k[0]: v for k, v in st.facts}


def specialise(func, subject, enum, member, tracked=(), on_event=None, assume=None):
    dom = SpecDom(subject, member, enum, tracked, on_event, assume)
    dom._defs = {}
    outs = Interp(dom, func=func).run(func.node)
    return dom, outs


# ---------------------------------------------------------------------- truth tables
def truth_table(expr, atoms):
    """Evaluate a pure boolean expression over named atoms.
    atoms: {normalised sub-expression text: atom name}.  Returns {assignment tuple: bool}
    or raises ValueError if the expression contains something that is not an atom/and/or/not."""
    names = sorted(set(atoms.values()))

    def ev(n, env):
        t = norm(n)
        if t in atoms:
            return env[atoms[t]]
        if isinstance(n, ast.BoolOp):
            vals = [ev(v, env) for v in n.values]
            return all(vals) if isinstance(n.op, ast.And) else any(vals)
        if isinstance(n, ast.UnaryOp) and isinstance(n.op, ast.Not):
            return not ev(n.operand, env)
        if isinstance(n, ast.Constant) and isinstance(n.value, bool):
            return n.value
        if isinstance(n, ast.Call) and isinstance(n.func, ast.Name) and n.func.id == "bool" and len(n.args) == 1:
            return ev(n.args[0], env)
        raise ValueError("not a boolean combination of the known atoms: %s" % t)

    table = {}
    for vals in itertools.product([False, True], repeat=len(names)):
        env = dict(zip(names, vals))
        table[vals] = bool(ev(expr, env))
    return names, table
