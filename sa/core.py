"""Rule registry, findings, known-findings matching, evidence, exit codes."""
import json
import os
import time
import traceback

from .ir import Program, AnalysisError, norm

VERIF = os.path.dirname(os.path.dirname(os.path.abspath(__file__)))
KNOWN_FILE = os.path.join(VERIF, "known_findings.json")

_PROGS = {}         # repo path -> Program (one parse per process; the tree does not change within a run)
RULES = {}          # id -> Rule
ORDER = []


class Rule:
    def __init__(self, rid, props, fn, tier, title, engine, floor):
        self.id = rid
        self.props = props
        self.fn = fn
        self.tier = tier
        self.title = title
        self.engine = engine
        self.floor = floor


def rule(rid, props, title, engine="AST", tier="quick", floor=1):
    """Register a rule.  `floor` = minimum number of instances that must be analysed
    (confirmed by hand on the pinned tree); fewer => ANALYSIS-ERROR (vanished anchor)."""
    def deco(fn):
        if rid in RULES:
            raise RuntimeError("duplicate rule " + rid)
        RULES[rid] = Rule(rid, list(props), fn, tier, title, engine, floor)
        ORDER.append(rid)
        return fn
    return deco


class Finding:
    def __init__(self, rule, file, line, construct, text, msg):
        self.rule = rule
        self.file = file
        self.line = line
        self.construct = construct
        self.text = text
        self.msg = msg

    @property
    def key(self):
        return "%s|%s|%s|%s" % (self.rule, self.file, self.construct, self.text)

    def to_json(self):
        return {"rule": self.rule, "file": self.file, "line": self.line, "construct": self.construct,
                "statement": self.text, "message": self.msg, "key": self.key}

    def __str__(self):
        return "%s:%s: [%s] %s: %s" % (self.file, self.line, self.rule, self.construct, self.msg)


class RuleRun:
    """Context handed to a rule function."""

    def __init__(self, rule, prog):
        self.rule = rule
        self.prog = prog
        self.instances = []
        self.findings = []
        self.notes = []
        self.samples = []
        self._inst_seen = set()
        self._find_seen = set()

    def inst(self, desc):
        """record one analysed rule instance (function, call site, table row, path ...)"""
        if desc not in self._inst_seen:
            self._inst_seen.add(desc)
            self.instances.append(desc)

    def sample(self, obj):
        if len(self.samples) < 6:
            self.samples.append(obj)

    def note(self, s):
        self.notes.append(s)

    def finding(self, func_or_file, node, construct, msg, text=None):
        """func_or_file: ir.Func / ir.Class / ir.Module or a relative path"""
        f = func_or_file
        if hasattr(f, "module"):
            file = f.module.relpath
        elif hasattr(f, "relpath"):
            file = f.relpath
        else:
            file = str(f)
        line = getattr(node, "lineno", 0) if node is not None else 0
        if text is None:
            text = _stmt_text(node)
        f = Finding(self.rule.id, file, line, construct, text, msg)
        if (f.key, line, msg) in self._find_seen:
            return
        self._find_seen.add((f.key, line, msg))
        self.findings.append(f)

    def require(self, cond, what):
        if not cond:
            raise AnalysisError("[%s] %s" % (self.rule.id, what))


def _stmt_text(node):
    if node is None:
        return ""
    try:
        t = norm(node)
    except Exception:
        return ""
    t = " ".join(t.split())
    return t[:160]


def load_known():
    if not os.path.exists(KNOWN_FILE):
        return []
    with open(KNOWN_FILE) as fh:
        return json.load(fh).get("findings", [])


def import_rules():
    import importlib
    import pkgutil
    import rules as rpkg
    for mi in sorted(pkgutil.iter_modules(rpkg.__path__), key=lambda m: m.name):
        importlib.import_module("rules." + mi.name)


def _run_one(prog, rid):
    """-> (RuleRun, error text or None)"""
    r = RULES[rid]
    rr = RuleRun(r, prog)
    err = None
    try:
        r.fn(prog, rr)
        if len(rr.instances) < r.floor:
            raise AnalysisError("[%s] analysed %d instances, floor is %d (anchor vanished or idiom not recognised)"
                                % (rid, len(rr.instances), r.floor))
    except AnalysisError as e:
        err = str(e) if str(e).startswith("[") else "[%s] %s" % (rid, e)
    except Exception:
        err = "[%s] internal error: %s" % (rid, traceback.format_exc().strip().splitlines()[-1])
        traceback.print_exc()
    return rr, err


def run_rules(prog, rule_ids, errors=None, nf_factory=None):
    """Runs every rule on the tree as written.  A rule that reports findings or cannot analyse the tree (anchor vanished, floor not
    met) is run again on the semantics-preserving normal form (sa/normalize.py: private helpers inlined, aliases folded, enumerate
    undone); if it is clean there - or reports strictly fewer findings, all of which it also reported on the tree as written - that
    result stands, because the two programs behave identically.  A rule that still cannot analyse is recorded in `errors` and does
    not stop the other rules: a violation found by another rule must not be hidden behind it."""
    runs = []
    for rid in rule_ids:
        rr, err = _run_one(prog, rid)
        if (err or rr.findings) and nf_factory is not None:
            nf = nf_factory()
            if nf is not None:
                rr2, err2 = _run_one(nf, rid)
                raw_keys = {f.key for f in rr.findings}
                nf_keys = {f.key for f in rr2.findings}
                if err2 is None and (nf_keys <= raw_keys or err is not None) and (err is not None or len(nf_keys) < len(raw_keys)):
                    # keep the raw positions for findings both forms report
                    by_key = {f.key: f for f in rr.findings}
                    rr2.findings = [by_key.get(f.key, f) for f in rr2.findings]
                    rr2.notes.append("evaluated on the normal form (private helpers inlined, aliases folded): the tree as written gave %s"
                                     % (err or "%d finding(s)" % len(rr.findings)))
                    rr2.on_normal_form = True
                    rr, err = rr2, None
        if err:
            if errors is None:
                raise AnalysisError(err)
            errors.append((rid, err))
        runs.append(rr)
    return runs


def rules_for(prop, tier):
    out = []
    for rid in ORDER:
        r = RULES[rid]
        if prop in r.props and (tier == "thorough" or r.tier == "quick"):
            out.append(rid)
    return out


def check_property(prop, tier, repo="/repo", seed=0, write_evidence=True, only_rules=None, quiet=False):
    """Returns exit code.  Prints VIOLATION / KNOWN-FINDING lines."""
    t0 = time.time()
    try:
        prog = _PROGS.get(repo)
        if prog is None:
            prog = _PROGS[repo] = Program(repo)
        rids = rules_for(prop, tier)
        if only_rules:
            rids = [r for r in rids if r in only_rules]
        if not rids:
            raise AnalysisError("no armed rule for property %s" % prop)
        errors = []

        def nf_factory():
            key = (repo, "nf")
            if key not in _PROGS:
                try:
                    _PROGS[key] = Program(repo, form="nf")
                except Exception:
                    traceback.print_exc()
                    _PROGS[key] = None
            return _PROGS[key]
        runs = run_rules(prog, rids, errors, nf_factory)
    except AnalysisError as e:
        print("ANALYSIS-ERROR property=%s %s" % (prop, e))
        return 2
    except Exception:
        print("ANALYSIS-ERROR property=%s internal error" % prop)
        traceback.print_exc()
        return 2
    known = load_known()
    kn_idx = {}
    for k in known:
        if k.get("status", "known") == "known" and (prop in k.get("properties", [prop])):
            kn_idx[k["key"]] = k
    viol, kn_hit = [], []
    for rr in runs:
        for f in rr.findings:
            if f.key in kn_idx:
                kn_hit.append((f, kn_idx[f.key]))
            else:
                viol.append(f)
    vdir = os.path.join(VERIF, "evidence", "violations")
    n_inst = sum(len(rr.instances) for rr in runs)
    if not quiet:
        for rr in runs:
            print("RULE %s %-58s instances=%d findings=%d" % (rr.rule.id, rr.rule.title[:58], len(rr.instances), len(rr.findings)))
    seen_k = set()
    for f, k in kn_hit:
        if f.key in seen_k:
            continue
        seen_k.add(f.key)
        print("KNOWN-FINDING: property=%s %s [%s] %s:%s %s" % (prop, k.get("what", f.msg), f.rule, f.file, f.line, f.construct))
    code = 0
    if os.path.isdir(vdir) and not only_rules:
        for fn in os.listdir(vdir):
            if fn.startswith(prop + "-"):
                os.remove(os.path.join(vdir, fn))
    if viol:
        code = 1
        os.makedirs(vdir, exist_ok=True)
        for i, f in enumerate(viol):
            path = os.path.join(vdir, "%s-%d.json" % (prop, i))
            with open(path, "w") as fh:
                json.dump({"property": prop, "tier": tier, **f.to_json()}, fh, indent=1)
            print("FINDING %s" % f)
            print("VIOLATION property=%s replay=%s" % (prop, path))
    for rid, msg in errors:
        print("ANALYSIS-ERROR property=%s %s" % (prop, msg))
    if errors and code == 0:
        code = 2
    if write_evidence and not errors:
        write_evidence_file(prop, tier, seed, prog, runs, viol, kn_hit, time.time() - t0)
    if not quiet:
        print("RESULT property=%s tier=%s rules=%d instances=%d violations=%d known=%d analysis_errors=%d wall=%.2fs" % (
            prop, tier, len(runs), n_inst, len(viol), len(seen_k), len(errors), time.time() - t0))
    return code


def write_evidence_file(prop, tier, seed, prog, runs, viol, kn_hit, wall):
    n_inst = sum(len(rr.instances) for rr in runs)
    distinct = set()
    for rr in runs:
        for i in rr.instances:
            distinct.add((rr.rule.id, str(i)))
    samples = []
    for rr in runs:
        for s in (rr.samples or rr.instances[:2]):
            samples.append({"rule": rr.rule.id, "obligation": s})
    ev = {
        "property_id": prop,
        "tier": tier,
        "seed": int(seed),
        "level": "other",
        "coverage": {
            "explanation": ("static analysis (ast) of /repo/src/vsc at run time: %d modules, %d classes, %d functions "
                            "parsed (tree digest %s); %d rules evaluated, each a structural necessary condition of the "
                            "property; see DESIGN.md section 5 for what is and is not decided"
                            % (len(prog.modules), len(prog.classes), len(prog.funcs), prog.digest[:12], len(runs))),
            "evaluations": n_inst,
            "distinct_nontrivial": len(distinct),
            "rule": ("one evaluation = one rule instance (function, call site, path family, table row or sibling pair) "
                     "analysed; distinct = distinct (rule, instance) pairs; instances are enumerated from the parsed "
                     "tree, and each rule fails closed below its instance floor"),
            "samples": samples[:40],
            "rules": [{"id": rr.rule.id, "title": rr.rule.title, "engine": rr.rule.engine,
                       "instances": len(rr.instances), "floor": rr.rule.floor,
                       "findings": len(rr.findings), "notes": rr.notes[:12]} for rr in runs],
            "analysed": {"modules": len(prog.modules), "classes": len(prog.classes), "functions": len(prog.funcs)},
            "known_findings_matched": sorted({f.key for f, _ in kn_hit}),
            "exhaustive": True,
        },
        "assumptions": [
            "Python semantics of the analysed constructs as modelled by the interpreter in sa/sai.py",
            "third-party code (pyboolector, pyucis, toposort) behaves as documented; it is not analysed",
            "call-free branch tests are stable between writes to the names they mention (facts are invalidated only by syntactic writes in the same function)",
        ],
        "wall_s": round(wall, 3),
        "violations": len(viol),
    }
    os.makedirs(os.path.join(VERIF, "evidence"), exist_ok=True)
    with open(os.path.join(VERIF, "evidence", "%s.json" % prop), "w") as fh:
        json.dump(ev, fh, indent=1)
