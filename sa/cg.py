"""CG: call resolution + reachability over the program model.

Resolution is deliberately an over-approximation for unknown receivers (every method of
that name, CHA by name) and exact for `self.`/`super()`/module-level/class-qualified calls.
Visitor double dispatch: `x.accept(v)` reaches every class's accept(), whose body calls
`v.visit_K`, which resolves by name to every visitor defining visit_K.
"""
import ast

from .ir import dotted, walk_local, Func, Class, Module

GENERIC = {"append", "pop", "clear", "add", "remove", "extend", "insert", "keys", "items", "values", "get", "copy",
           "sort", "format", "join", "startswith", "endswith", "index", "count", "update", "split", "strip", "print",
           "len", "str", "int", "isinstance", "hasattr", "getattr", "setattr", "range", "enumerate", "list", "dict",
           "set", "tuple", "super", "type", "callable", "max", "min", "abs", "bool", "map", "filter", "sorted", "dir",
           "reverse", "lower", "upper", "replace", "write", "read", "close", "discard"}


def model_layer(modname):
    return modname.startswith(("vsc.model", "vsc.visitors", "vsc.profile"))


class CallGraph:
    def __init__(self, prog):
        self.prog = prog
        self._callees = {}
        self._local_types = {}
        self._live = None

    # --------------------------------------------------------------------- RTA
    def live_class(self, c):
        if self._live is None:
            names = set()
            for m in self.prog.modules.values():
                for n in ast.walk(m.tree):
                    if isinstance(n, ast.Call):
                        d = dotted(n.func)
                        if d:
                            names.add(d.split(".")[-1])
                    elif isinstance(n, ast.ClassDef):
                        pass
            inst = {k for k in self.prog.classes if k.name in names}
            live = set()
            for k in inst:
                for b in self.prog.mro(k):
                    live.add(b)
            # local classes (interposers, iterators) are created by `type(...)`/returned: treat as live
            for k in self.prog.classes:
                if k.outer is not None:
                    for b in self.prog.mro(k):
                        live.add(b)
            self._live = live
        return c in self._live

    # ------------------------------------------------------------------- types
    def local_types(self, func):
        """name -> Class for locals assigned from a constructor call / annotated params"""
        if func in self._local_types:
            return self._local_types[func]
        prog = self.prog
        out = {}
        a = func.node.args
        for p in a.posonlyargs + a.args + a.kwonlyargs:
            if p.annotation is not None:
                d = dotted(p.annotation)
                if d:
                    r = prog.resolve_dotted(func.module, d)
                    if isinstance(r, Class):
                        out[p.arg] = r
        for n in walk_local(func.node):
            if isinstance(n, ast.Assign) and len(n.targets) == 1 and isinstance(n.targets[0], ast.Name) \
                    and isinstance(n.value, ast.Call):
                d = dotted(n.value.func)
                if d:
                    r = prog.resolve_dotted(func.module, d)
                    if isinstance(r, Class):
                        out.setdefault(n.targets[0].id, r)
            elif isinstance(n, ast.AnnAssign) and isinstance(n.target, ast.Name):
                d = dotted(n.annotation)
                if d:
                    r = prog.resolve_dotted(func.module, d)
                    if isinstance(r, Class):
                        out.setdefault(n.target.id, r)
        self._local_types[func] = out
        return out

    # ----------------------------------------------------------------- resolve
    def resolve(self, call, func):
        prog = self.prog
        f = call.func
        if isinstance(f, ast.Name):
            if f.id in GENERIC:
                return []
            r = prog.resolve_name(func.module, f.id)
            if r is None:
                o = func
                while o is not None and r is None:
                    for g in prog.funcs:
                        if g.outer is o and g.name == f.id and g.cls is None:
                            r = g
                    for c in prog.classes:
                        if c.outer is o and c.name == f.id:
                            r = c
                    o = o.outer
            if isinstance(r, Func):
                return [r]
            if isinstance(r, Class):
                g = prog.lookup(r, "__init__")
                return [g] if g is not None else []
            return []
        if isinstance(f, ast.Attribute):
            name = f.attr
            if name in GENERIC:
                return []
            v = f.value
            if isinstance(v, ast.Name) and v.id == "self" and func.cls is not None:
                cands = []
                for c in prog.subclasses(func.cls):
                    g = prog.lookup(c, name)
                    if g is not None and g not in cands:
                        cands.append(g)
                if cands:
                    return cands
            if isinstance(v, ast.Call) and isinstance(v.func, ast.Name) and v.func.id == "super" and func.cls is not None:
                g = prog.lookup(func.cls, name, after=func.cls)
                return [g] if g is not None else []
            if isinstance(v, ast.Name):
                t = self.local_types(func).get(v.id)
                if t is not None:
                    cands = []
                    for c in prog.subclasses(t):
                        g = prog.lookup(c, name)
                        if g is not None and g not in cands:
                            cands.append(g)
                    if cands:
                        return cands
            # X(...).m(...)
            if isinstance(v, ast.Call):
                d = dotted(v.func)
                r = prog.resolve_dotted(func.module, d) if d else None
                if isinstance(r, Class):
                    g = prog.lookup(r, name)
                    if g is not None:
                        return [g]
            d = dotted(f)
            if d:
                r = prog.resolve_dotted(func.module, d)
                if isinstance(r, Func):
                    return [r]
                if isinstance(r, Class):
                    g = prog.lookup(r, "__init__")
                    return [g] if g else []
            cands = [g for g in prog.funcs_named(name) if g.cls is not None or g.outer is not None]
            # RTA: a method can only be reached through an unknown receiver if its class (or a subclass) is instantiated somewhere
            cands = [g for g in cands if g.cls is None or self.live_class(g.cls)]
            if model_layer(func.module.name) and not (isinstance(v, ast.Attribute) and v.attr == "rand_if"):
                # layering: vsc.model / vsc.visitors never import the facade; the only way up is the rand_if callback object
                cands = [g for g in cands if model_layer(g.module.name)]
            return cands
        return []

    def callees(self, func):
        if func in self._callees:
            return self._callees[func]
        out = []
        seen = set()
        for n in walk_local(func.node):
            if isinstance(n, ast.Call):
                for g in self.resolve(n, func):
                    if g not in seen:
                        seen.add(g)
                        out.append(g)
        self._callees[func] = out
        return out

    # ------------------------------------------------ visitor-context-sensitive reachability
    def _is_visitor(self, c):
        return c is not None and any(n.startswith("visit_") for k in self.prog.mro(c) for n in k.methods)

    def _visitor_arg_class(self, arg, func, ctx):
        prog = self.prog
        if isinstance(arg, ast.Name) and arg.id == "self" and self._is_visitor(func.cls):
            if ctx is not None and func.cls in prog.mro(ctx):
                return ctx
            return func.cls
        if isinstance(arg, ast.Name) and func.name == "accept" and arg.id in func.params[1:2]:
            return ctx            # accept(self, v) handing its visitor on
        if isinstance(arg, ast.Name):
            return self.local_types(func).get(arg.id)
        if isinstance(arg, ast.Call):
            d = dotted(arg.func)
            r = prog.resolve_dotted(func.module, d) if d else None
            if isinstance(r, Class):
                return r
        if isinstance(arg, ast.Attribute) and isinstance(arg.value, ast.Name) and arg.value.id == "self" and func.cls is not None:
            # self.x = SomeVisitor(...) anywhere in the class
            for m in func.cls.methods.values():
                for n in walk_local(m.node):
                    if isinstance(n, ast.Assign) and isinstance(n.value, ast.Call) and any(dotted(t) == "self." + arg.attr for t in n.targets):
                        d = dotted(n.value.func)
                        r = prog.resolve_dotted(m.module, d) if d else None
                        if isinstance(r, Class):
                            return r
        return None

    def callees_ctx(self, func, ctx):
        """-> list of (callee, ctx') ; ctx = visitor class on whose behalf the code runs (or None)"""
        key = (func, ctx)
        if key in self._callees:
            return self._callees[key]
        calls = [n for n in walk_local(func.node) if isinstance(n, ast.Call)]
        out = self._callees_for_calls(calls, func, ctx)
        self._callees[key] = out
        return out

    def entry_ctx(self, call, func, ctx=None):
        """(callee, ctx) pairs for one call site"""
        return self._callees_for_calls([call], func, ctx)

    def _callees_for_calls(self, calls, func, ctx):
        prog = self.prog
        out = []
        seen = set()

        def add(g, c):
            if (g, c) not in seen:
                seen.add((g, c))
                out.append((g, c))
        for n in calls:
            f = n.func
            if isinstance(f, ast.Attribute) and f.attr == "accept" and len(n.args) == 1:
                vc = self._visitor_arg_class(n.args[0], func, ctx)
                for g in prog.funcs_named("accept"):
                    if g.cls is not None:
                        add(g, vc)
                continue
            if func.name == "accept" and isinstance(f, ast.Attribute) and f.attr.startswith("visit_") and len(func.params) > 1 \
                    and isinstance(f.value, ast.Name) and f.value.id == func.params[1]:
                if ctx is not None:
                    tg = []
                    for c in prog.subclasses(ctx):
                        g = prog.lookup(c, f.attr)
                        if g is not None and g not in tg:
                            tg.append(g)
                            add(g, c if c is not ctx and ctx in prog.mro(c) else ctx)
                    continue
                for g in prog.funcs_named(f.attr):
                    if g.cls is not None:
                        add(g, None)
                continue
            # self-calls under a visitor context dispatch on the context class
            if isinstance(f, ast.Attribute) and isinstance(f.value, ast.Name) and f.value.id == "self" and ctx is not None \
                    and func.cls is not None and func.cls in prog.mro(ctx) and f.attr not in GENERIC:
                tg = []
                for c in prog.subclasses(ctx):
                    g = prog.lookup(c, f.attr)
                    if g is not None and g not in tg:
                        tg.append(g)
                        add(g, ctx)
                if tg:
                    continue
            if isinstance(f, ast.Attribute) and isinstance(f.value, ast.Call) and isinstance(f.value.func, ast.Name) \
                    and f.value.func.id == "super" and ctx is not None and func.cls is not None and func.cls in prog.mro(ctx):
                g = prog.lookup(func.cls, f.attr, after=func.cls)
                if g is not None:
                    add(g, ctx)
                continue
            # Base.method(self, ...) : an explicit up-call keeps the receiver, hence the visitor context
            if isinstance(f, ast.Attribute) and n.args and isinstance(n.args[0], ast.Name) and n.args[0].id == "self" and func.cls is not None:
                d0 = dotted(f.value)
                r0 = prog.resolve_dotted(func.module, d0) if d0 else None
                if isinstance(r0, Class) and r0 in prog.mro(func.cls):
                    g = prog.lookup(r0, f.attr)
                    if g is not None:
                        add(g, ctx if ctx is not None else (func.cls if self._is_visitor(func.cls) else None))
                        continue
            for g in self.resolve(n, func):
                c2 = None
                if g.cls is not None and self._is_visitor(g.cls) and isinstance(f, ast.Attribute):
                    # calling into a visitor object: it becomes the context
                    vc = self._visitor_arg_class(f.value, func, ctx) if not (isinstance(f.value, ast.Name) and f.value.id == "self") else None
                    c2 = vc if vc is not None and g.cls in prog.mro(vc) else g.cls
                    if isinstance(f.value, ast.Name) and f.value.id == "self":
                        c2 = ctx if (ctx is not None and g.cls in prog.mro(ctx)) else func.cls
                add(g, c2)
        return out

    def reach_ctx(self, entries):
        """entries: iterable of Func or (Func, ctx).  Returns set of Func reached."""
        seen = set()
        todo = [(e, None) if isinstance(e, Func) else e for e in entries]
        while todo:
            k = todo.pop()
            if k in seen:
                continue
            seen.add(k)
            todo.extend(self.callees_ctx(*k))
        return {f for f, _ in seen}

    def reachable(self, entries, stop=None):
        seen = set()
        todo = list(entries)
        while todo:
            f = todo.pop()
            if f in seen or (stop is not None and stop(f)):
                continue
            seen.add(f)
            todo.extend(self.callees(f))
        return seen


_CG = {}


def callgraph(prog):
    if prog.digest not in _CG:
        _CG[prog.digest] = CallGraph(prog)
    return _CG[prog.digest]


def solve_path(prog):
    """functions reachable from Randomizer.do_randomize (the code a randomize call executes),
    with visitor-context-sensitive dispatch"""
    cg = callgraph(prog)
    key = ("solve", prog.digest)
    if key not in _CG:
        entry = prog.method("Randomizer", "do_randomize")
        _CG[key] = cg.reach_ctx([entry])
    return _CG[key]
