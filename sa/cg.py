"""CG: call resolution + reachability over the program model.

Resolution is deliberately an over-approximation for unknown receivers (every method of
that name, CHA by name) and exact for `self.`/`super()`/module-level/class-qualified calls.
Visitor double dispatch: `x.accept(v)` reaches every class's accept(), whose body calls
`v.visit_K`, which resolves by name to every visitor defining visit_K.
"""
import ast

from .ir import dotted, walk_local, Func, Class, Module

GENERIC = {"append", "pop", "clear", "add", "remove", "extend", "insert", "keys", "items", "values", "get", "copy",
           "sort", "format", "join", "startswith", "endswith", "index", "count", "update", "split", "strip", "print",
           "len", "str", "int", "isinstance", "hasattr", "getattr", "setattr", "range", "enumerate", "list", "dict",
           "set", "tuple", "super", "type", "callable", "max", "min", "abs", "bool", "map", "filter", "sorted", "dir",
           "reverse", "lower", "upper", "replace", "write", "read", "close", "discard"}


class CallGraph:
    def __init__(self, prog):
        self.prog = prog
        self._callees = {}
        self._local_types = {}

    # ------------------------------------------------------------------- types
    def local_types(self, func):
        """name -> Class for locals assigned from a constructor call / annotated params"""
        if func in self._local_types:
            return self._local_types[func]
        prog = self.prog
        out = {}
        a = func.node.args
        for p in a.posonlyargs + a.args + a.kwonlyargs:
            if p.annotation is not None:
                d = dotted(p.annotation)
                if d:
                    r = prog.resolve_dotted(func.module, d)
                    if isinstance(r, Class):
                        out[p.arg] = r
        for n in walk_local(func.node):
            if isinstance(n, ast.Assign) and len(n.targets) == 1 and isinstance(n.targets[0], ast.Name) \
                    and isinstance(n.value, ast.Call):
                d = dotted(n.value.func)
                if d:
                    r = prog.resolve_dotted(func.module, d)
                    if isinstance(r, Class):
                        out.setdefault(n.targets[0].id, r)
            elif isinstance(n, ast.AnnAssign) and isinstance(n.target, ast.Name):
                d = dotted(n.annotation)
                if d:
                    r = prog.resolve_dotted(func.module, d)
                    if isinstance(r, Class):
                        out.setdefault(n.target.id, r)
        self._local_types[func] = out
        return out

    # ----------------------------------------------------------------- resolve
    def resolve(self, call, func):
        prog = self.prog
        f = call.func
        if isinstance(f, ast.Name):
            if f.id in GENERIC:
                return []
            r = prog.resolve_name(func.module, f.id)
            if r is None:
                o = func
                while o is not None and r is None:
                    for g in prog.funcs:
                        if g.outer is o and g.name == f.id and g.cls is None:
                            r = g
                    for c in prog.classes:
                        if c.outer is o and c.name == f.id:
                            r = c
                    o = o.outer
            if isinstance(r, Func):
                return [r]
            if isinstance(r, Class):
                g = prog.lookup(r, "__init__")
                return [g] if g is not None else []
            return []
        if isinstance(f, ast.Attribute):
            name = f.attr
            if name in GENERIC:
                return []
            v = f.value
            if isinstance(v, ast.Name) and v.id == "self" and func.cls is not None:
                cands = []
                for c in prog.subclasses(func.cls):
                    g = prog.lookup(c, name)
                    if g is not None and g not in cands:
                        cands.append(g)
                if cands:
                    return cands
            if isinstance(v, ast.Call) and isinstance(v.func, ast.Name) and v.func.id == "super" and func.cls is not None:
                g = prog.lookup(func.cls, name, after=func.cls)
                return [g] if g is not None else []
            if isinstance(v, ast.Name):
                t = self.local_types(func).get(v.id)
                if t is not None:
                    cands = []
                    for c in prog.subclasses(t):
                        g = prog.lookup(c, name)
                        if g is not None and g not in cands:
                            cands.append(g)
                    if cands:
                        return cands
            # X(...).m(...)
            if isinstance(v, ast.Call):
                d = dotted(v.func)
                r = prog.resolve_dotted(func.module, d) if d else None
                if isinstance(r, Class):
                    g = prog.lookup(r, name)
                    if g is not None:
                        return [g]
            d = dotted(f)
            if d:
                r = prog.resolve_dotted(func.module, d)
                if isinstance(r, Func):
                    return [r]
                if isinstance(r, Class):
                    g = prog.lookup(r, "__init__")
                    return [g] if g else []
            return [g for g in prog.funcs_named(name) if g.cls is not None or g.outer is not None]
        return []

    def callees(self, func):
        if func in self._callees:
            return self._callees[func]
        out = []
        seen = set()
        for n in walk_local(func.node):
            if isinstance(n, ast.Call):
                for g in self.resolve(n, func):
                    if g not in seen:
                        seen.add(g)
                        out.append(g)
        self._callees[func] = out
        return out

    def reachable(self, entries, stop=None):
        seen = set()
        todo = list(entries)
        while todo:
            f = todo.pop()
            if f in seen or (stop is not None and stop(f)):
                continue
            seen.add(f)
            todo.extend(self.callees(f))
        return seen


_CG = {}


def callgraph(prog):
    if prog.digest not in _CG:
        _CG[prog.digest] = CallGraph(prog)
    return _CG[prog.digest]


def solve_path(prog):
    """functions reachable from Randomizer.do_randomize (the code a randomize call executes)"""
    cg = callgraph(prog)
    key = ("solve", prog.digest)
    if key not in _CG:
        entry = prog.method("Randomizer", "do_randomize")
        _CG[key] = cg.reachable([entry])
    return _CG[key]
