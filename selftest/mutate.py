"""Mutation self-test of the checker (thorough tier).

Every mutant is an AST-level edit of a scratch copy of the CURRENT /repo/src (under a fresh mkdtemp outside /repo and
/verif, removed afterwards).  An edit is located structurally: inside a named function, the sub-tree whose normalised
text equals `old` is replaced by `new` (so comments / formatting / line numbers do not matter).  Each mutant still
compiles and must be reported by the named properties' checks; behaviour-preserving rewrites must stay silent.
Output uses SELFTEST lines only, never VIOLATION.
"""
import ast
import json
import os
import shutil
import subprocess
import sys
import tempfile
import time
from concurrent.futures import ThreadPoolExecutor

HERE = os.path.dirname(os.path.dirname(os.path.abspath(__file__)))


class M:
    def __init__(self, mid, file, func, old, new, props, rule, count=1):
        self.id, self.file, self.func, self.old, self.new, self.props, self.rule, self.count = mid, file, func, old, new, props, rule, count


def _n(t):
    return ast.unparse(ast.parse(t.strip(), mode="exec")).strip()


# (id, file, function qualname inside the file, old code, new code, properties that must report, rule)
MUTANTS = [
    M("sp-no-hard-assert", "model/randomizer.py", "Randomizer.randomize", "for c in constraint_l:\n    btor.Assert(c[1])", "pass", ["C01", "C20"], "SP"),
    M("sp-assert-soft-unsat", "model/randomizer.py", "Randomizer.randomize", "btor.Sat() == btor.SAT", "btor.Sat() != btor.SAT", ["C05", "C01"], "SP"),
    M("sp-invert-hard", "model/randomizer.py", "Randomizer.randomize", "btor.Sat() != btor.SAT", "btor.Sat() == btor.SAT", ["C02", "C01"], "SP", count=2),
    M("sp-sort-ascending", "model/randomizer.py", "Randomizer.randomize", "soft_constraint_l.sort(key=lambda c: c[0].priority, reverse=True)",
      "soft_constraint_l.sort(key=lambda c: c[0].priority, reverse=False)", ["C05"], "SP"),
    M("sp-swizzle-unconditional-assert", "model/solvegroup_swizzler_partsel.py", "SolveGroupSwizzlerPartsel.swizzle_field_l", "btor.Sat() == btor.SAT", "True", ["C01", "C14"], "SP"),
    M("sp-no-final-sat", "model/solvegroup_swizzler_partsel.py", "SolveGroupSwizzlerPartsel.swizzle", "btor.Sat()", "None", ["C01"], "SP"),
    M("lw1-signed-gt", "model/expr_bin_model.py", "ExprBinModel.build", "btor.Ugt(lhs_n, rhs_n)", "btor.Sgt(lhs_n, rhs_n)", ["C01"], "LW1"),
    M("lw1-swap-operands", "model/expr_bin_model.py", "ExprBinModel.build", "btor.Sub(lhs_n, rhs_n)", "btor.Sub(rhs_n, lhs_n)", ["C01"], "LW1"),
    M("lw1-srl-sll", "model/expr_bin_model.py", "ExprBinModel.build", "btor.Srl(lhs_n, rhs_n)", "btor.Sll(lhs_n, rhs_n)", ["C01"], "LW1"),
    M("lw1-fold-ge", "visitors/x_expr_evaluator.py", "XExprEvaluator.visit_expr_bin", "lhs_val >= rhs_val", "lhs_val > rhs_val", ["C02"], "LW1"),
    M("lw2-or-signed", "model/expr_bin_model.py", "ExprBinModel.build", "self.lhs.is_signed() and self.rhs.is_signed()", "self.lhs.is_signed() or self.rhs.is_signed()", ["C01"], "LW1"),
    M("lw2-uext-when-signed", "model/expr_bin_model.py", "ExprBinModel.extend", "btor.Sext(e1, ctx_width - e1.width)", "btor.Uext(e1, ctx_width - e1.width)", ["C01"], "LW2"),
    M("lw2-ctx-width", "model/expr_bin_model.py", "ExprBinModel.build", "rhs_w > ctx_width", "rhs_w < ctx_width", ["C01"], "LW2"),
    M("lw3-no-is-signed", "model/expr_unary_model.py", "ExprUnaryModel.is_signed", "return self.expr.is_signed()", "raise Exception('unimplemented')", ["C02"], "LW3"),
    M("lw4-soft-in-hard", "model/constraint_soft_model.py", "ConstraintSoftModel.build", "return None", "return self.expr.build(btor)", ["C05"], "LW4"),
    M("lw4-scope-const-soft", "model/constraint_scope_model.py", "ConstraintScopeModel.build", "b = c.build(btor, soft)", "b = c.build(btor, False)", ["C05"], "LW4"),
    M("lw5-enum-slice", "model/enum_field_model.py", "EnumFieldModel.build", "self.enums", "self.enums[1:]", ["C01"], "LW5"),
    M("lw6-no-sign-convert", "model/field_scalar_model.py", "FieldScalarModel.post_randomize", "val = -((~val & self.mask) + 1)", "pass", ["C01"], "LW6"),
    M("rn4-var-when-nonrand", "model/field_scalar_model.py", "FieldScalarModel.build", "self.var = btor.Const(self.val.v, self.width)", "self.var = btor.Var(btor.BitVecSort(self.width))", ["C03"], "LW6"),
    M("rs1-else-not-visited", "model/rand_info_builder.py", "RandInfoBuilder.visit_constraint_if_else", "c.false_c.accept(self)", "pass", ["C01"], "RS1"),
    M("rs1-no-attach", "model/rand_info_builder.py", "RandInfoBuilder.visit_constraint_stmt_leave", "self._active_randset.add_constraint(c)", "pass", ["C01"], "RS1"),
    M("rs2-rand-fields-only", "model/rand_info_builder.py", "RandInfoBuilder.process_fieldref", "self._active_randset.fields()", "self._active_randset.rand_fields()", ["C01"], "RS2"),
    M("rs2-no-soft-transfer", "model/rand_info_builder.py", "RandInfoBuilder.process_fieldref",
      "for c in self._active_randset.soft_constraints():\n    ex_randset.add_constraint(c)", "pass", ["C05"], "RS2"),
    M("rs2-no-dist-transfer", "model/rand_info_builder.py", "RandInfoBuilder.process_fieldref",
      "for f, dist_l in self._active_randset.dist_field_m.items():\n    ex_randset.dist_field_m.setdefault(f, []).extend(dist_l)", "pass", ["C15"], "RS2"),
    M("rs3-ignore-enabled", "model/rand_info_builder.py", "RandInfoBuilder.visit_constraint_block", "not c.enabled", "False", ["C07"], "RS3"),
    M("rs3-bounds-ignore-enabled", "visitors/variable_bound_visitor.py", "VariableBoundVisitor.visit_constraint_block", "c.enabled", "True", ["C07", "C14"], "RS3"),
    M("rs4-priority-reset", "model/rand_info_builder.py", "RandInfoBuilder.visit_constraint_soft", "self._soft_priority += 1", "self._soft_priority = 1", ["C05"], "RS4"),
    M("rs5-no-pop", "model/rand_info_builder.py", "RandInfoBuilder.visit_constraint_implies", "self._soft_cond_l.pop()", "pass", ["C05"], "RS5"),
    M("rs5-else-guard", "model/rand_info_builder.py", "RandInfoBuilder.visit_constraint_if_else", "RandInfoBuilder._soft_guard(c.cond, False)", "RandInfoBuilder._soft_guard(c.cond, True)", ["C05"], "RS5"),
    M("sg1-raw-guard", "model/rand_info_builder.py", "RandInfoBuilder.visit_constraint_implies", "RandInfoBuilder._soft_guard(c.cond, True)", "c.cond", ["C05"], "SG1"),
    M("xe2-whole-list", "visitors/x_expr_evaluator.py", "XExprEvaluator.visit_expr_array_subscript", "s.subscript().accept(self)", "field.accept(self)", ["C01", "C03"], "XE2"),
    M("rn10-initial-used-rand", "model/field_scalar_model.py", "FieldScalarModel.__init__", "self.is_used_rand = False", "self.is_used_rand = is_rand", ["C03"], "RN10"),
    M("rn10-preextend-ungated", "visitors/array_constraint_builder.py", "ArrayConstraintBuilder.visit_field_scalar_array", "f.is_rand_sz and f.size.is_used_rand", "f.is_rand_sz", ["C03"], "RN10"),
    M("rn10-stale-list-flag", "model/field_array_model.py", "FieldArrayModel.add_field", "ret.set_used_rand(self.size.is_used_rand, 1)", "ret.set_used_rand(self.is_used_rand, 1)", ["C03"], "RN10"),
    M("ft27-facade-only", "types.py", "list_t.__setitem__", "model.set_field(k, elem_m)", "pass", ["C08", "C04"], "FT27"),
    M("rs7-swap-roles", "model/rand_info_builder.py", "RandInfoBuilder.visit_constraint_solve_order", "ExpandSolveOrderVisitor(self._order_m).expand(a, b)",
      "ExpandSolveOrderVisitor(self._order_m).expand(b, a)", ["C20"], "RS7"),
    M("rs7-pass1", "model/rand_info_builder.py", "RandInfoBuilder.visit_constraint_solve_order", "self._pass == 0", "self._pass == 1", ["C20"], "RS7"),
    M("rs8-iterate-set", "model/rand_info_builder.py", "RandInfoBuilder.build", "[fi for fi in rs.fields() if fi in fs]", "[fi for fi in fs if fi in rs.field_s]", ["C09", "C20"], "RS8"),
    M("rs9-wipe-deps", "visitors/expand_solve_order_visitor.py", "ExpandSolveOrderVisitor.visit_scalar_field", "not self.a in self.order_m.keys()", "True", ["C20"], "RS9"),
    M("rn1-drop-rand-mode", "model/field_scalar_model.py", "FieldScalarModel.set_used_rand", "self.is_declared_rand and self.rand_mode", "self.is_declared_rand", ["C03"], "RN1"),
    M("rn1-children-get-is-rand", "model/field_composite_model.py", "FieldCompositeModel.set_used_rand", "f.set_used_rand(self.is_used_rand, level + 1, in_set)",
      "f.set_used_rand(is_rand, level + 1, in_set)", ["C03", "C08", "C17"], "RN1"),
    M("rn2-rollback-not-finally", "model/randomizer.py", "Randomizer.do_randomize", "ConstraintOverrideRollbackVisitor.rollback(fm)", "pass", ["C16", "C03"], "RN2"),
    M("rn2-post-before-solve", "model/randomizer.py", "Randomizer.do_randomize", "fm.pre_randomize(visited)", "fm.post_randomize(visited)", ["C17"], "RN2"),
    M("rn3-unguarded-draw", "model/randomizer.py", "Randomizer.randomize", "filter(lambda f: f.is_used_rand, ri.unconstrained())", "ri.unconstrained()", ["C03"], "RN3"),
    M("sh1-exit-early", "rand_obj.py", "__exit__", "leave_expr_mode()", "pass", ["C16", "C06", "C18"], "SH1"),
    M("sh1-no-pop-on-raise", "rand_obj.py", "build_field_model", "pop_constraint_scope()\nclear_exprs()\nraise e", "raise e", ["C16"], "SH1", count=3),
    M("sh4-dispose-rand-only", "model/randomizer.py", "Randomizer.randomize", "rs.all_fields()", "rs.rand_fields()", ["C16"], "SH4", count=3),
    M("sh4-no-reset-override", "model/expr_array_sum_model.py", "ExprArraySumModel.reset", "self.arr.sum_expr_btor = None", "pass", ["C16"], "SH4"),
    M("sz1-no-sum-reset", "model/field_array_model.py", "FieldArrayModel.post_randomize", "self.sum_expr = None", "pass", ["C04"], "SZ1"),
    M("cb1-ignore-used-rand", "model/field_composite_model.py", "FieldCompositeModel.pre_randomize", "self.is_used_rand and self.rand_if is not None", "self.rand_if is not None", ["C17"], "CB1"),
    M("cb1-visited-not-restored", "model/field_composite_model.py", "FieldCompositeModel.post_randomize", "visited.remove(self)", "pass", ["C17"], "CB1"),
    M("st1-global-random", "model/randomizer.py", "Randomizer.randomize", "self.randstate.randint(0, len(range_l) - 1)", "random.randint(0, len(range_l) - 1)", ["C09"], "ST1"),
    M("st4-no-clone", "impl/randobj_int.py", "RandObjInt.set_randstate", "rs.clone()", "rs", ["C09"], "ST4"),
    M("st3-debug-draw", "model/solvegroup_swizzler_partsel.py", "SolveGroupSwizzlerPartsel.swizzle", "print('--> swizzle_randvars')", "self.randstate.randint(0, 1)", ["C09"], "ST3"),
    M("bd1-overwrite", "visitors/is_nonrand_expr_visitor.py", "IsNonRandExprVisitor.visit_expr_fieldref", "self._is_nonrand &= not e.fm.is_used_rand",
      "self._is_nonrand = not e.fm.is_used_rand", ["C14"], "BD1"),
    M("bd2-no-depth", "visitors/variable_bound_visitor.py", "VariableBoundVisitor.visit_constraint_implies", "self.depth += 1", "pass", ["C14"], "BD2"),
    M("bd3-lt-offset", "visitors/variable_bound_visitor.py", "VariableBoundVisitor.lhsvar_rhsvar_propagator", "VariableBoundBoundsMaxPropagator(lhs_bounds, rhs_bounds, -1)",
      "VariableBoundBoundsMaxPropagator(lhs_bounds, rhs_bounds, -2)", ["C14"], "BD3"),
    M("bd3-le-is-min", "visitors/variable_bound_visitor.py", "VariableBoundVisitor.lhsvar_rhsnre_propagator", "VariableBoundExprMaxPropagator(lhs_bounds, rhs_e)",
      "VariableBoundExprMinPropagator(lhs_bounds, rhs_e)", ["C14"], "BD3"),
    M("bd6-min-last-interval", "model/variable_bound_bounds_min_propagator.py", "VariableBoundBoundsMinPropagator.min", "self.other.domain.range_l[0][0]",
      "self.other.domain.range_l[-1][0]", ["C14"], "BD6"),
    M("ds1-no-exclusion-guard", "visitors/dist_constraint_builder.py", "DistConstraintBuilder.visit_constraint_dist", "weight > 0", "weight >= 0", ["C15"], "DS1"),
    M("ds2-randselect-filter", "methods.py", "randselect", "weight_v.append(int(e[0]))", "if int(e[0]) > 0:\n    weight_v.append(int(e[0]))", ["C15"], "DS2"),
    M("cv1-stale-marker", "model/coverpoint_bin_collection_model.py", "CoverpointBinCollectionModel.sample", "self.hit_bin_idx = -1", "pass", ["C11", "C10"], "CV1"),
    M("cv1-wrong-type", "model/coverpoint_bin_single_range_model.py", "CoverpointBinSingleRangeModel.sample", "self.cp.coverage_ev(self.bin_idx_base, self.bin_type)",
      "self.cp.coverage_ev(self.bin_idx_base, CoverpointBinType.Bins)", ["C10"], "CV1"),
    M("cv1-no-base", "model/coverpoint_bin_array_model.py", "CoverpointBinArrayModel.sample", "self.bin_idx_base + (val - self.low)", "val - self.low", ["C10"], "CV1"),
    M("cv2-ignore-counts-regular", "model/coverpoint_model.py", "CoverpointModel.coverage_ev", "self.hit_ignore_l[bin_idx] += 1", "self.hit_l[bin_idx] += 1", ["C10"], "CV2"),
    M("cv3-iff-reevaluated", "model/coverpoint_model.py", "CoverpointModel.sample", "self.iff is not None and (not self.iff_val_cache_valid)", "self.iff is not None", ["C10"], "CV3"),
    M("cv7-no-cross-iff", "model/coverpoint_cross_model.py", "CoverpointCrossModel.sample", "have_cp_hit = self.iff_val_cache", "have_cp_hit = True", ["C11"], "CV7"),
    M("cv3-no-reset", "model/covergroup_model.py", "CovergroupModel.sample", "cp.reset()", "pass", ["C11"], "CV3"),
    M("cv7-ignore-cp-iff", "model/coverpoint_cross_model.py", "CoverpointCrossModel.sample", "cp.iff_val_cache", "cp.iff is None or cp.iff_val_cache", ["C11"], "CV7"),
    M("cv8-eq-overwrite", "model/covergroup_model.py", "CovergroupModel.equals", "eq &= self.coverpoint_l[i].equals(oth.coverpoint_l[i])",
      "eq = self.coverpoint_l[i].equals(oth.coverpoint_l[i])", ["C12"], "CV8"),
    M("cv9-no-notify", "model/coverpoint_cross_model.py", "CoverpointCrossModel.sample", "self.parent.coverage_ev(self, bin_idx)", "pass", ["C12"], "CV9"),
    M("cv10-ignore-at-least", "model/coverpoint_model.py", "CoverpointModel.coverage_ev", "bin_idx in self.unhit_s and self.hit_l[bin_idx] >= self.options.at_least",
      "bin_idx in self.unhit_s", ["C12", "C13"], "CV10"),
    M("cv11-swap-hits", "visitors/coverage_save_visitor.py", "CoverageSaveVisitor.visit_coverpoint", "cp.get_ignore_bin_hits(bi)", "cp.get_bin_hits(bi)", ["C13"], "CV11"),
    M("cv12-octal-mask", "impl/wildcard_bin_factory.py", "WildcardBinFactory.str2bin", "mask |= 7", "mask |= 3", ["C19"], "CV12"),
    M("cv16-unnormalised", "impl/wildcard_bin_factory.py", "WildcardBinFactory.valmask2binlist", "val_t = value & mask", "val_t = value", ["C19"], "CV16"),
    M("cv14-no-copy", "model/coverpoint_bin_collection_model.py", "CoverpointBinCollectionModel.mk_collection", "r = r.copy()", "pass", ["C10"], "CV14", count=2),
    M("ft1-no-mask", "types.py", "type_base.set_val", "val = int(val) & (1 << self.width) - 1", "val = int(val)", ["C18"], "FT1", count=2),
    M("ft3-no-e2v", "types.py", "type_enum.set_val", "self.enum_i.e2v(val)", "val", ["C18"], "FT3"),
    M("ft4-storage-walk", "types.py", "list_t.sum", "range(self.size)", "range(len(model.field_l))", ["C04"], "FT4"),
    M("ft5-idx-after", "model/field_composite_model.py", "FieldCompositeModel.add_field", "f.idx = len(self.field_l)", "f.idx = len(self.field_l) + 1", ["C08"], "FT5"),
    M("ft6-wrapper-model", "rand_obj.py", "__getattribute__", "cm = model.get_constraint(a)", "cm = ret.model", ["C07"], "FT6"),
    M("ft9-getitem-conv", "types.py", "list_t.__getitem__", "v = -((~v & self.mask) + 1)", "v -= self.mask + 1", ["C18"], "FT9"),
    M("lw7-swap-pops", "types.py", "expr.bin_expr", "rhs_e = pop_expr()\nlhs_e = pop_expr()", "lhs_e = pop_expr()\nrhs_e = pop_expr()", ["C01"], "LW7"),
    M("lw7-invert-no-pop", "types.py", "expr.__invert__", "lhs = pop_expr()", "lhs = self.em", ["C01"], "LW7"),
    M("rn5-rebind", "types.py", "rangelist.clear", "self.range_l.rl.clear()", "self.range_l = ExprRangelistModel()", ["C03"], "RN5"),
    M("cv4-wrong-arg", "coverage.py", "sample", "ex_f.set_val(int(args[i]))", "ex_f.set_val(int(args[0]))", ["C10"], "CV4"),
    M("bd6-enum-unsorted", "model/variable_bound_enum_model.py", "VariableBoundEnumModel.__init__", "self.domain.range_l.sort(key=lambda e: e[0])", "pass", ["C14"], "BD6"),
    M("cv15-foreign-at-least", "visitors/coverage_save_visitor.py", "CoverageSaveVisitor.visit_coverpoint_cross", "cr.options.at_least", "cp.options.at_least", ["C13"], "CV15"),
    M("nm1-memo", "model/expr_indexed_field_ref_model.py", "ExprIndexedFieldRefModel.get_target", "ret = fm", "ret = fm\nself._memo = fm", ["C08"], "NM1"),
    M("fold-scope-overwrite", "model/constraint_scope_model.py", "ConstraintScopeModel.build", "ret = btor.And(ret, b)", "ret = b", ["C01", "C05"], "FOLD"),
    M("lw11-uncopied-cond", "visitors/constraint_copy_builder.py", "ConstraintCopyBuilder.visit_constraint_implies", "ConstraintImpliesModel(self.expr(c.cond))",
      "ConstraintImpliesModel(c.cond)", ["C02", "C04"], "LW11"),
    M("lw11-wrong-slot", "visitors/constraint_copy_builder.py", "ConstraintCopyBuilder.visit_constraint_if_else", "ConstraintCollector(self, ret.false_c)",
      "ConstraintCollector(self, ret.true_c)", ["C04"], "LW11"),
    M("rn7-no-lock", "model/randomizer.py", "Randomizer.randomize", "uf.set_used_rand(False)", "pass", ["C03"], "RN7"),
    M("lw12-width-as-soft", "model/expr_dynref_model.py", "ExprDynRefModel.build", "self.c.build(btor)", "self.c.build(btor, ctx_width)", ["C06"], "LW12"),
    M("fe1-stale-register", "visitors/foreach_ref_expander.py", "ForeachRefExpander.visit_expr_array_subscript", "int(s.rhs.val())", "int(self._expr.val())", ["C08"], "FE1"),
    M("clone-no-at-least", "model/coverage_options_model.py", "CoverageOptionsModel.clone", "ret.at_least = self.at_least", "pass", ["C12"], "CLONE"),
    M("bd7-wrong-operand", "visitors/variable_bound_visitor.py", "VariableBoundVisitor.visit_expr_bin", "self.lhsnre_rhsvar_propagator(e.lhs, e.op, rhs_bounds)",
      "self.lhsnre_rhsvar_propagator(e.rhs, e.op, rhs_bounds)", ["C14"], "BD7"),
    M("ds3-untyped-literal", "model/solvegroup_swizzler_partsel.py", "SolveGroupSwizzlerPartsel.swizzle_field", "ExprLiteralModel(val, f.is_signed, f.width)",
      "ExprLiteralModel(val, False, 32)", ["C15"], "DS3"),
    M("ft13-twin-differs", "types.py", "type_base.set_val", "val & 1 << self.width - 1 != 0", "val > 1 << self.width - 1", ["C18"], "FT13"),
    M("cv8b-no-length", "model/wildcard_binspec.py", "WildcardBinspec.equals", "eq &= len(self.specs) == len(oth.specs)", "pass", ["C19", "C12"], "CV8b"),
    M("fold2-replace-list", "model/solvegroup_swizzler_partsel.py", "SolveGroupSwizzlerPartsel.swizzle_field_l", "swizzle_node_l.append(e.build(btor))",
      "swizzle_node_l = [e.build(btor)]", ["C20"], "FOLD2"),
    M("st5-salted-hash", "model/rand_state.py", "RandState.mkFromSeed", "seed = f'{seed} : {strval}'", "seed = hash(strval)", ["C09"], "ST5"),
    M("lw10-no-expr", "visitors/array_constraint_builder.py", "ArrayConstraintBuilder.visit_expr_array_sum", "self._expr = s", "pass", ["C01", "C02"], "LW10"),
    M("ft10-no-truncate", "model/field_array_model.py", "FieldArrayModel.post_randomize", "del self.field_l[int(self.size.get_val()):]", "pass", ["C04"], "FT10"),
    M("cv16-store-raw", "model/wildcard_binspec.py", "WildcardBinspec.__init__", "self.specs.append((s[0] & s[1], s[1]))", "self.specs.append((s[0], s[1]))", ["C19"], "CV16"),
    M("bd5-later-upper", "model/variable_bound_in_propagator.py", "VariableBoundInPropagator.propagate", "max(in_r_l[-1][1], in_r_l_t[i][1])", "in_r_l_t[i][1]", ["C14"], "BD5"),
    M("bd5-compact", "model/rangelist_model.py", "RangelistModel.compact", "max(self.range_l[i][1], self.range_l[i + 1][1])", "self.range_l[i + 1][1]", ["C10"], "BD5"),
    M("bd4-draw-from-zero", "model/randomizer.py", "Randomizer.randomize", "self.randstate.randint(range_l[0][0], range_l[0][1])",
      "self.randstate.randint(0, range_l[0][1])", ["C14"], "BD4"),
    M("ft18-keep-inside", "types.py", "type_base.__setitem__", "curr & ~msk", "curr & msk", ["C18"], "FT18"),
    M("ft18-narrow-mask", "types.py", "type_base.__setitem__", "rng.start - rng.stop + 1", "rng.start - rng.stop", ["C18"], "FT18"),
    M("ft3-iter-raw", "types.py", "__next__", "ei.v2e(self.model.field_l[self.idx].get_val())", "int(self.model.field_l[self.idx].get_val())", ["C18"], "FT3"),
    M("ft23-clear-model-only", "types.py", "list_t.clear", "self.backing_arr.clear()", "pass", ["C04"], "FT23"),
    M("cv12-no-width", "coverage.py", "wildcard_bin_array.__init__", "WildcardBinFactory.str2width(a)", "0", ["C19"], "CV12"),
    M("sr1-save-after-write", "model/rand_info_builder.py", "RandInfoBuilder.visit_composite_field", "old_used_rand = self._used_rand\nself._used_rand = f.is_used_rand",
      "self._used_rand = f.is_used_rand\nold_used_rand = self._used_rand", ["C02"], "SR1"),
    M("sc1-implies-marker", "model/constraint_implies_model.py", "ConstraintImpliesModel.__init__", "self.cond = cond", "self.cond = cond\nself.priority = 0", ["C01", "C05"], "SC1"),
    M("ft14-direct-model", "rand_obj.py", "build_field_model", "fo.set_model(pop_constraint_scope())", "fo.model = pop_constraint_scope()", ["C06", "C07"], "FT14"),
    M("ft14-ref-cache", "constraints.py", "dynamic_constraint_t.__call__", "return expr(ExprDynRefModel(self.model))",
      "self.ref = ExprDynRefModel(self.model)\nreturn expr(self.ref)", ["C06"], "FT14"),
    M("ft15-loop-source", "rand_obj.py", "build_field_model", "dir(self)", "dir(type(self).__mro__[-2])", ["C07"], "FT15"),
    M("ix1-other-list", "model/field_composite_model.py", "FieldCompositeModel.add_dynamic_constraint", "len(self.constraint_dynamic_model_l)", "len(self.constraint_model_l)", ["C06"], "IX1"),
    M("cv17-position", "model/coverpoint_bin_collection_model.py", "CoverpointBinCollectionModel.finalize", "self.bin_idx_base + self.n_bins", "self.bin_idx_base + len(self.bin_l)", ["C10"], "CV17"),
    M("cv17-no-base", "model/coverpoint_bin_collection_model.py", "CoverpointBinCollectionModel.finalize", "self.bin_idx_base + self.n_bins", "self.n_bins", ["C19"], "CV17"),
    M("rn1-skip-walk", "model/field_composite_model.py", "FieldCompositeModel.set_used_rand", "if in_set is None:\n    in_set = set()",
      "if not self.is_used_rand:\n    return\nif in_set is None:\n    in_set = set()", ["C03"], "RN1"),
    M("cv18-mask", "model/expr_ref_model.py", "ExprRefModel.val", "return self.ref()", "return self.ref() & 1", ["C11"], "CV18"),
    M("rs10-unguarded", "model/rand_set.py", "RandSet.add_field", "if f.is_used_rand:\n    self.field_rand_l.append(f)", "self.field_rand_l.append(f)", ["C15"], "RS10"),
    M("rn8-from-used", "types.py", "list_t.append", "self.get_model().is_declared_rand", "self.get_model().is_used_rand", ["C17"], "RN8"),
    M("ft17-unguarded", "rand_obj.py", "build_field_model", "fo._int_field_info.model is None", "True", ["C18"], "FT17"),
    M("en1-name-key", "impl/enum_info.py", "EnumInfo.get", "EnumInfo._info_map[e]", "EnumInfo._info_map[e.__name__]", ["C18"], "EN1"),
    M("nm5-cache-on-directive", "model/rand_info_builder.py", "RandInfoBuilder.visit_constraint_solve_order", "ExpandSolveOrderVisitor(self._order_m).expand(a, b)",
      "c.seen = True\nExpandSolveOrderVisitor(self._order_m).expand(a, b)", ["C20"], "NM5"),
    M("rs11-guarded", "visitors/expand_solve_order_visitor.py", "ExpandSolveOrderVisitor.expand", "a.accept(self)", "if a.is_used_rand:\n    a.accept(self)", ["C20"], "RS11"),
    M("sh5-narrow-list", "model/randomizer.py", "Randomizer.create_diagnostics", "for rs in active_randsets:\n    for f in rs.all_fields():\n        f.dispose()",
      "for f in diagnostic_field_l:\n    f.dispose()", ["C16"], "SH5"),
    M("sh4-build-memo", "model/expr_in_model.py", "ExprInModel.build", "t = None", "if getattr(self, '_memo', None) is not None:\n    return self._memo.build(btor)\nt = None\nself._memo = self.lhs",
      ["C03"], "SH4"),
]

# behaviour-preserving rewrites: must stay silent for every property
SILENT = [
    ("roundtrip", None),            # every module regenerated with ast.unparse (all comments/formatting/line numbers change)
    ("rename-locals", [("model/randomizer.py", "Randomizer.randomize", {"constraint_l": "hard_node_l", "soft_constraint_l": "soft_node_l", "rs_i": "set_idx"}),
                       ("model/solvegroup_swizzler_partsel.py", "SolveGroupSwizzlerPartsel.swizzle_field_l", {"n": "node", "swizzle_node_l": "cand_l"}),
                       ("model/expr_bin_model.py", "ExprBinModel.build", {"lhs_n": "left", "rhs_n": "right", "is_signed": "both_signed"}),
                       ("model/rand_info_builder.py", "RandInfoBuilder.process_fieldref", {"ex_randset": "survivor"})]),
    ("debug-prints", None),         # a print() inserted at the top of every function
    ("rename-all-locals", None),    # every local variable of every function renamed (parameters, globals, attributes untouched)
    ("hoist-tests", None),          # `if <test with a method call>:` becomes `_hN = <test>; if _hN:` in every function
    ("invert-if-else", None),       # every `if c: A else: B` (no elif) becomes `if not c: B else: A`
    ("guard-clauses", None),        # a trailing `if c: BODY` of a function/loop body becomes `if not c: return/continue` + BODY
    ("idioms", None),               # `not a in b` -> `a not in b`; `k in d.keys()` -> `k in d`; methods of every class re-ordered alphabetically
]


def _find_func(tree, qual):
    parts = qual.split(".")
    out = []

    def rec(node, path):
        for ch in ast.iter_child_nodes(node):
            if isinstance(ch, (ast.FunctionDef, ast.ClassDef)):
                p = path + [ch.name]
                if isinstance(ch, ast.FunctionDef) and p[-len(parts):] == parts:
                    out.append(ch)
                rec(ch, p)
            else:
                rec(ch, path)
    rec(tree, [])
    return out


class _Repl(ast.NodeTransformer):
    def __init__(self, old, new):
        self.old = _n(old)
        self.new_stmts = ast.parse(new.strip()).body
        self.hits = 0
        try:
            self.old_expr = ast.unparse(ast.parse(old.strip(), mode="eval"))
            self.new_expr = ast.parse(new.strip(), mode="eval").body
        except SyntaxError:
            self.old_expr = None

    def _block(self, stmts):
        out = []
        i = 0
        k = len(ast.parse(self.old).body)
        while i < len(stmts):
            if k and ast.unparse(ast.Module(body=stmts[i:i + k], type_ignores=[])).strip() == self.old:
                out.extend(self.new_stmts)
                self.hits += 1
                i += k
            else:
                out.append(self.visit(stmts[i]))
                i += 1
        return out or [ast.Pass()]

    def generic_visit(self, node):
        for fld, val in ast.iter_fields(node):
            if isinstance(val, list) and val and isinstance(val[0], ast.stmt):
                setattr(node, fld, self._block(val))
            elif isinstance(val, list):
                setattr(node, fld, [self.visit(v) if isinstance(v, ast.AST) else v for v in val])
            elif isinstance(val, ast.AST):
                setattr(node, fld, self.visit(val))
        return node

    def visit(self, node):
        if self.old_expr is not None and isinstance(node, ast.expr):
            try:
                if ast.unparse(node) == self.old_expr:
                    self.hits += 1
                    return ast.copy_location(ast.parse(ast.unparse(self.new_expr), mode="eval").body, node)
            except Exception:
                pass
        return self.generic_visit(node)


def apply_mutant(root, m):
    p = os.path.join(root, "src", "vsc", m.file)
    tree = ast.parse(open(p).read())
    fs = _find_func(tree, m.func)
    if not fs:
        return "stale: function %s not found" % m.func
    hits = 0
    for f in fs:
        r = _Repl(m.old, m.new)
        r.generic_visit(f)
        hits += r.hits
    if hits == 0:
        return "stale: pattern not found in %s" % m.func
    ast.fix_missing_locations(tree)
    src = ast.unparse(tree)
    compile(src, p, "exec")
    open(p, "w").write(src)
    return None


def apply_silent(root, kind, spec):
    base = os.path.join(root, "src", "vsc")
    if kind == "roundtrip":
        for dp, dn, fn in os.walk(base):
            for f in fn:
                if f.endswith(".py"):
                    p = os.path.join(dp, f)
                    src = ast.unparse(ast.parse(open(p).read()))
                    open(p, "w").write(src)
    elif kind == "debug-prints":
        for dp, dn, fn in os.walk(base):
            for f in fn:
                if f.endswith(".py"):
                    p = os.path.join(dp, f)
                    t = ast.parse(open(p).read())
                    for n in ast.walk(t):
                        if isinstance(n, ast.FunctionDef):
                            k = 1 if (n.body and isinstance(n.body[0], ast.Expr) and isinstance(n.body[0].value, ast.Constant)) else 0
                            n.body.insert(k, ast.parse("print('trace %s')" % n.name).body[0])
                    ast.fix_missing_locations(t)
                    src = ast.unparse(t)
                    open(p, "w").write(src)
    elif kind == "rename-all-locals":
        for dp, dn, fn in os.walk(base):
            for f in fn:
                if f.endswith(".py"):
                    p = os.path.join(dp, f)
                    t = ast.parse(open(p).read())
                    _rename_all_locals(t)
                    src = ast.unparse(t)
                    compile(src, p, "exec")
                    open(p, "w").write(src)
    elif kind == "hoist-tests":
        for dp, dn, fn in os.walk(base):
            for f in fn:
                if f.endswith(".py"):
                    p = os.path.join(dp, f)
                    t = ast.parse(open(p).read())
                    _hoist_tests(t)
                    ast.fix_missing_locations(t)
                    src = ast.unparse(t)
                    compile(src, p, "exec")
                    open(p, "w").write(src)
    elif kind in ("invert-if-else", "idioms", "guard-clauses"):
        for dp, dn, fn in os.walk(base):
            for f in fn:
                if f.endswith(".py"):
                    p = os.path.join(dp, f)
                    t = ast.parse(open(p).read())
                    t = {"invert-if-else": _InvertIf, "idioms": _Idioms, "guard-clauses": _GuardClauses}[kind]().visit(t)
                    ast.fix_missing_locations(t)
                    src = ast.unparse(t)
                    compile(src, p, "exec")
                    open(p, "w").write(src)
    elif kind == "rename-locals":
        for file, func, ren in spec:
            p = os.path.join(base, file)
            t = ast.parse(open(p).read())
            for f in _find_func(t, func):
                for n in ast.walk(f):
                    if isinstance(n, ast.Name) and n.id in ren:
                        n.id = ren[n.id]
            src = ast.unparse(t)
            open(p, "w").write(src)


class _InvertIf(ast.NodeTransformer):
    def visit_If(self, node):
        self.generic_visit(node)
        if node.orelse and not (len(node.orelse) == 1 and isinstance(node.orelse[0], ast.If)):
            t = node.test
            nt = t.operand if isinstance(t, ast.UnaryOp) and isinstance(t.op, ast.Not) else ast.UnaryOp(op=ast.Not(), operand=t)
            node.test, node.body, node.orelse = nt, node.orelse, node.body
        return node


class _GuardClauses(ast.NodeTransformer):
    @staticmethod
    def _neg(t):
        return t.operand if isinstance(t, ast.UnaryOp) and isinstance(t.op, ast.Not) else ast.UnaryOp(op=ast.Not(), operand=t)

    def _rewrite(self, body, exit_stmt):
        if body and isinstance(body[-1], ast.If) and not body[-1].orelse and len(body[-1].body) >= 2:
            last = body[-1]
            return body[:-1] + [ast.If(test=self._neg(last.test), body=[exit_stmt], orelse=[])] + last.body
        return body

    def visit_FunctionDef(self, node):
        self.generic_visit(node)
        # only where falling off the end returns None anyway
        if not any(isinstance(n, (ast.Yield, ast.YieldFrom)) for n in ast.walk(node)):
            node.body = self._rewrite(node.body, ast.Return(value=None))
        return node

    def visit_For(self, node):
        self.generic_visit(node)
        if not node.orelse:
            node.body = self._rewrite(node.body, ast.Continue())
        return node


class _Idioms(ast.NodeTransformer):
    def visit_UnaryOp(self, node):
        self.generic_visit(node)
        if isinstance(node.op, ast.Not) and isinstance(node.operand, ast.Compare) and len(node.operand.ops) == 1 \
                and isinstance(node.operand.ops[0], ast.In):
            node.operand.ops = [ast.NotIn()]
            return node.operand
        return node

    def visit_Compare(self, node):
        self.generic_visit(node)
        if len(node.ops) == 1 and isinstance(node.ops[0], (ast.In, ast.NotIn)):
            c = node.comparators[0]
            if isinstance(c, ast.Call) and isinstance(c.func, ast.Attribute) and c.func.attr == "keys" and not c.args:
                node.comparators = [c.func.value]
        return node

    def visit_ClassDef(self, node):
        self.generic_visit(node)
        plain = [i for i, st in enumerate(node.body) if isinstance(st, ast.FunctionDef) and not st.decorator_list]
        srt = sorted((node.body[i] for i in plain), key=lambda f: f.name)
        for i, f in zip(plain, srt):
            node.body[i] = f
        return node


_HOIST_SKIP = {"isinstance", "len", "hasattr", "issubclass", "type", "callable", "getattr", "id"}


def _hoist_tests(tree):
    """inside functions: `if T:` whose test calls a method/function (not a builtin predicate) -> `_hN = T` then `if _hN:`"""
    cnt = [0]

    def has_call(t):
        for n in ast.walk(t):
            if isinstance(n, ast.Call):
                nm = n.func.attr if isinstance(n.func, ast.Attribute) else getattr(n.func, "id", "")
                if nm not in _HOIST_SKIP:
                    return True
        return False

    def block(stmts):
        out = []
        for st in stmts:
            for fld in ("body", "orelse", "finalbody"):
                v = getattr(st, fld, None)
                if isinstance(v, list) and v and isinstance(v[0], ast.stmt):
                    setattr(st, fld, block(v))
            for h in getattr(st, "handlers", []) or []:
                h.body = block(h.body)
            if isinstance(st, ast.If) and has_call(st.test) and not any(isinstance(n, (ast.NamedExpr, ast.Lambda)) for n in ast.walk(st.test)):
                cnt[0] += 1
                nm = "_h%d" % cnt[0]
                out.append(ast.Assign(targets=[ast.Name(id=nm, ctx=ast.Store())], value=st.test, lineno=st.lineno, col_offset=st.col_offset))
                st.test = ast.Name(id=nm, ctx=ast.Load())
            out.append(st)
        return out

    for n in ast.walk(tree):
        if isinstance(n, ast.FunctionDef):
            n.body = block(n.body)


def _rename_all_locals(tree):
    """rename the local variables of every outermost function (consistently through nested scopes)"""
    def outer_funcs(node, inside=False):
        for ch in ast.iter_child_nodes(node):
            if isinstance(ch, (ast.FunctionDef, ast.AsyncFunctionDef)):
                if not inside:
                    yield ch
                # do not descend: nested functions are handled with their outermost function
            else:
                yield from outer_funcs(ch, inside)
    for f in outer_funcs(tree):
        params, stores, declared = set(), set(), set()
        for n in ast.walk(f):
            if isinstance(n, ast.arguments):
                for a in n.posonlyargs + n.args + n.kwonlyargs + ([n.vararg] if n.vararg else []) + ([n.kwarg] if n.kwarg else []):
                    params.add(a.arg)
            elif isinstance(n, (ast.Global, ast.Nonlocal)):
                declared.update(n.names)
            elif isinstance(n, ast.Name) and isinstance(n.ctx, ast.Store):
                stores.add(n.id)
            elif isinstance(n, ast.ExceptHandler) and n.name:
                params.add(n.name)
            elif isinstance(n, (ast.FunctionDef, ast.ClassDef)) and n is not f:
                params.add(n.name)
            elif isinstance(n, (ast.Import, ast.ImportFrom)):
                for a in n.names:
                    params.add((a.asname or a.name).split(".")[0])
        # names bound in class bodies nested in the function become attributes: leave them alone
        for n in ast.walk(f):
            if isinstance(n, ast.ClassDef):
                for st in n.body:
                    for x in ast.walk(st):
                        if isinstance(x, ast.Name) and isinstance(x.ctx, ast.Store) and not any(isinstance(p, ast.FunctionDef) for p in [st]):
                            params.add(x.id)
        ren = {v for v in stores if v not in params and v not in declared and not v.startswith("__")}
        for n in ast.walk(f):
            if isinstance(n, ast.Name) and n.id in ren:
                n.id = n.id + "_r"


def _check(root, props):
    res = {}
    for p in props:
        r = subprocess.run([os.path.join(HERE, "vcheck"), "--property", p, "--repo", root, "--no-evidence"], capture_output=True, text=True)
        rules = sorted({l.split("[")[1].split("]")[0] for l in r.stdout.splitlines() if l.startswith("FINDING") and "[" in l})
        res[p] = (r.returncode, rules)
    return res


def _run_mutant(repo, m, props):
    d = tempfile.mkdtemp(prefix="vmut-")
    try:
        shutil.copytree(os.path.join(repo, "src"), os.path.join(d, "src"))
        err = apply_mutant(d, m)
        if err:
            return m.id, "stale", err, {}
        res = _check(d, props)
        return m.id, "ok", None, res
    except Exception as e:
        return m.id, "error", "%s: %s" % (type(e).__name__, e), {}
    finally:
        shutil.rmtree(d, ignore_errors=True)


def _run_silent(repo, kind, spec, props):
    d = tempfile.mkdtemp(prefix="vsil-")
    try:
        shutil.copytree(os.path.join(repo, "src"), os.path.join(d, "src"))
        apply_silent(d, kind, spec)
        return kind, _check(d, props)
    finally:
        shutil.rmtree(d, ignore_errors=True)


def _patch_corpus(prop, all_props):
    """(kind, id, patch, property) for the committed corpora: seeded/ (changes written by independent sub-agents that break `prop`
    and were reported by its check when they were recorded) and refactors/ (behaviour-preserving refactorings: must stay silent)"""
    out = []
    sd = os.path.join(HERE, "seeded")
    for n in sorted(os.listdir(sd)) if os.path.isdir(sd) else []:
        mp = os.path.join(sd, n, "meta.json")
        if not os.path.exists(mp):
            continue
        try:
            meta = json.load(open(mp))
        except Exception:
            continue
        p = meta.get("breaks_property")
        if meta.get("detected_by_own_property") and (all_props or p == prop):
            out.append(("seed", n, os.path.join(sd, n, "patch.diff"), p))
    rd = os.path.join(HERE, "refactors")
    for n in sorted(os.listdir(rd)) if os.path.isdir(rd) else []:
        pp = os.path.join(rd, n, "patch.diff")
        if os.path.exists(pp):
            out.append(("refactor", n, pp, prop))
    return out


def _run_patch(repo, kind, name, patch, prop):
    d = tempfile.mkdtemp(prefix="vpat-")
    try:
        shutil.copytree(os.path.join(repo, "src"), os.path.join(d, "src"))
        r = subprocess.run(["patch", "-p1", "-s", "-f", "-i", patch], cwd=d, capture_output=True, text=True)
        if r.returncode != 0:
            return kind, name, prop, "stale", None
        return kind, name, prop, "ok", _check(d, [prop])[prop]
    finally:
        shutil.rmtree(d, ignore_errors=True)


def run_for_property(prop, repo="/repo", all_props=False):
    """returns exit code: 0 ok, 2 when the checker fails its own self-test (never 1: this is not a violation of /repo)"""
    t0 = time.time()
    muts = [m for m in MUTANTS if all_props or prop in m.props]
    n_miss = n_stale = 0
    results = []
    with ThreadPoolExecutor(max_workers=16) as ex:
        futs = [ex.submit(_run_mutant, repo, m, (m.props if all_props else [prop])) for m in muts]
        sil = [ex.submit(_run_silent, repo, k, s, ([prop] if not all_props else sorted({p for m in MUTANTS for p in m.props}))) for k, s in SILENT]
        corpus = _patch_corpus(prop, all_props)
        pfuts = [ex.submit(_run_patch, repo, k, n, pp, p) for k, n, pp, p in corpus]
        for m, f in zip(muts, futs):
            mid, st, err, res = f.result()
            if st != "ok":
                n_stale += 1
                print("SELFTEST mutant=%s %s (%s)" % (mid, st, err))
                results.append({"mutant": mid, "status": st, "detail": err})
                continue
            for p, (rc, rules) in res.items():
                hit = (rc == 1 and (m.rule in rules or any(r.startswith(m.rule) for r in rules))) or rc == 2
                print("SELFTEST mutant=%s property=%s %s rules=%s" % (mid, p, ("detected" if rc == 1 else "flagged-anchor-lost") if hit else "MISSED(exit %d)" % rc, ",".join(rules)))
                results.append({"mutant": mid, "property": p, "detected": hit, "rules": rules})
                if not hit:
                    n_miss += 1
        n_noise = 0
        for f in sil:
            kind, res = f.result()
            for p, (rc, rules) in res.items():
                # the baseline may legitimately contain known findings (exit 0); anything else is noise
                ok = rc == 0
                print("SELFTEST silent=%s property=%s %s" % (kind, p, "silent" if ok else "NOISE(exit %d %s)" % (rc, rules)))
                results.append({"silent": kind, "property": p, "silent_ok": ok})
                if not ok:
                    n_noise += 1
        n_seed = n_ref = 0
        for f in pfuts:
            kind, name, p, st, res = f.result()
            if st != "ok":
                n_stale += 1
                print("SELFTEST %s=%s property=%s stale (patch no longer applies)" % (kind, name, p))
                continue
            rc, rules = res
            if kind == "seed":
                n_seed += 1
                hit = rc in (1, 2)
                print("SELFTEST seed=%s property=%s %s rules=%s" % (name, p, ("detected" if rc == 1 else "flagged-anchor-lost") if hit else "MISSED(exit %d)" % rc, ",".join(rules)))
                results.append({"seed": name, "property": p, "detected": hit, "rules": rules})
                if not hit:
                    n_miss += 1
            else:
                n_ref += 1
                ok = rc == 0
                print("SELFTEST refactor=%s property=%s %s" % (name, p, "silent" if ok else "NOISE(exit %d %s)" % (rc, rules)))
                if not ok:
                    results.append({"refactor": name, "property": p, "silent_ok": ok})
                    n_noise += 1
    wall = time.time() - t0
    print("SELFTEST-RESULT property=%s mutants=%d seeded=%d refactorings=%d missed=%d stale=%d silent_variants=%d noise=%d wall=%.1fs" % (
        prop, len(muts), n_seed, n_ref, n_miss, n_stale, len(SILENT), n_noise, wall))
    # append to the evidence file written by the check itself
    evp = os.path.join(HERE, "evidence", "%s.json" % prop)
    try:
        ev = json.load(open(evp))
        ev["coverage"]["selftest"] = {"mutants": len(muts), "seeded_changes": n_seed, "refactorings": n_ref, "missed": n_miss, "stale": n_stale,
                                      "silent_variants": len(SILENT), "noise": n_noise,
                                      "results": results[:80]}
        ev["wall_s"] = round(ev.get("wall_s", 0) + wall, 3)
        json.dump(ev, open(evp, "w"), indent=1)
    except Exception:
        pass
    if n_miss or n_noise:
        print("ANALYSIS-ERROR property=%s checker self-test failed (missed=%d noise=%d)" % (prop, n_miss, n_noise))
        return 2
    return 0


if __name__ == "__main__":
    sys.exit(run_for_property(sys.argv[1] if len(sys.argv) > 1 else "C01", all_props="--all" in sys.argv))
