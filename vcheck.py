"""CLI of the static checker.  Exit 0 ok / 1 VIOLATION / 2 ANALYSIS-ERROR."""
import argparse
import json
import os
import sys

HERE = os.path.dirname(os.path.abspath(__file__))
sys.path.insert(0, HERE)
sys.dont_write_bytecode = True

from sa import core  # noqa: E402


def main():
    ap = argparse.ArgumentParser()
    ap.add_argument("--property", "-p")
    ap.add_argument("--tier", default=os.environ.get("VERIF_TIER", "quick"), choices=["quick", "thorough"])
    ap.add_argument("--repo", default=os.environ.get("VERIF_REPO", "/repo"))
    ap.add_argument("--all", action="store_true")
    ap.add_argument("--rules", help="comma separated rule ids (debug)")
    ap.add_argument("--replay")
    ap.add_argument("--list", action="store_true")
    ap.add_argument("--no-evidence", action="store_true")
    ap.add_argument("--selftest", action="store_true", help="run the mutation self-test (thorough tier does this too)")
    a = ap.parse_args()
    seed = int(os.environ.get("VERIF_SEED", "0") or 0)
    try:
        core.import_rules()
    except Exception:
        import traceback
        print("ANALYSIS-ERROR cannot load rules")
        traceback.print_exc()
        return 2
    if a.list:
        for rid in core.ORDER:
            r = core.RULES[rid]
            print("%-6s %-8s %-8s %s  -> %s" % (rid, r.engine, r.tier, r.title, ",".join(r.props)))
        return 0
    only = set(a.rules.split(",")) if a.rules else None
    if a.replay:
        with open(a.replay) as fh:
            rp = json.load(fh)
        print("replaying %s rule %s: %s" % (rp["property"], rp["rule"], rp["key"]))
        return core.check_property(rp["property"], rp.get("tier", "quick"), a.repo, seed,
                                   write_evidence=False, only_rules={rp["rule"]})
    props = []
    if a.all:
        props = sorted({p for r in core.RULES.values() for p in r.props})
    elif a.property:
        props = [a.property]
    else:
        ap.error("need --property or --all")
    worst = 0
    for p in props:
        rc = core.check_property(p, a.tier, a.repo, seed, write_evidence=not a.no_evidence, only_rules=only)
        if rc == 0 and a.tier == "thorough" and not only:
            from selftest import mutate
            rc = mutate.run_for_property(p, a.repo)
        worst = max(worst, rc)
    return worst


def _guarded():
    global _RC
    try:
        _RC = main()
    except SystemExit as e:
        _RC = e.code if isinstance(e.code, int) else 2
    except Exception:
        import traceback
        print("ANALYSIS-ERROR internal error")
        traceback.print_exc()
        _RC = 2


_RC = 2
if __name__ == "__main__":
    import threading
    sys.setrecursionlimit(100000)
    threading.stack_size(512 * 1024 * 1024)
    t = threading.Thread(target=_guarded)
    t.start()
    t.join()
    sys.stdout.flush()
    sys.exit(_RC)
