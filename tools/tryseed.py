#!/usr/bin/env python3
"""Run the quick checks against a scratch copy of /repo with a seeded patch applied.
usage: tryseed.py PATCH [PROP ...]   (default: all properties; prints per-property exit + findings)"""
import os, shutil, subprocess, sys, tempfile, json
patch = os.path.abspath(sys.argv[1])
props = sys.argv[2:] or ["C%02d" % i for i in range(1, 21)]
d = tempfile.mkdtemp(prefix="vseed-")
try:
    shutil.copytree("/repo/src", os.path.join(d, "src"))
    r = subprocess.run(["patch", "-p1", "-s", "-i", patch], cwd=d, capture_output=True, text=True)
    if r.returncode != 0:
        print("patch failed", r.stdout, r.stderr); sys.exit(3)
    hit = []
    for p in props:
        r = subprocess.run(["/verif/vcheck", "--property", p, "--repo", d, "--no-evidence"], capture_output=True, text=True)
        f = [l for l in r.stdout.splitlines() if l.startswith(("FINDING", "ANALYSIS-ERROR"))]
        if r.returncode != 0:
            hit.append(p)
            print("== %s exit %d" % (p, r.returncode))
            for l in f[:6]:
                print("   " + l[:300])
    print("DETECTED-BY:", " ".join(hit) if hit else "none")
finally:
    shutil.rmtree(d)
