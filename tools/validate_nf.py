#!/venv/bin/python
"""Validate sa/normalize.py on a patched copy of /repo: build the normal form of the whole package, unparse it to a scratch tree and run
the 146 fast stable tests against it (the normal form must behave like the code it was made from).
usage: validate_nf.py [PATCH]      prints NF-OK / NF-FAIL"""
import ast, os, shutil, subprocess, sys, tempfile
sys.path.insert(0, "/verif")
from sa.ir import Program
patch = os.path.abspath(sys.argv[1]) if len(sys.argv) > 1 else None
d = tempfile.mkdtemp(prefix="vnfv-")
try:
    shutil.copytree("/repo/src", d + "/src")
    if patch:
        r = subprocess.run(["patch", "-p1", "-s", "-i", patch], cwd=d, capture_output=True, text=True)
        if r.returncode:
            print(patch, "PATCH-FAILED"); sys.exit(0)
    prog = Program(d, form="nf")
    for m in prog.modules.values():
        p = os.path.join(d, m.relpath)
        txt = ast.unparse(m.tree)
        compile(txt, p, "exec")
        open(p, "w").write(txt)
    tests = open("/verif/tools/stable_fast.txt").read().split()
    env = dict(os.environ, PYTHONPATH=d + "/src")
    wd = tempfile.mkdtemp(prefix="vnfw-")
    os.symlink("/repo/ve", wd + "/ve")
    r = subprocess.run(["/venv/bin/python", "-m", "pytest", "-q", "-p", "no:cacheprovider", "-W", "ignore", "-x"] + tests, cwd=wd, env=env, capture_output=True, text=True)
    shutil.rmtree(wd, ignore_errors=True)
    tail = r.stdout.strip().splitlines()[-1] if r.stdout.strip() else r.stderr[-200:]
    print(("/".join(patch.split("/")[-2:-1]) if patch else "HEAD"), prog.nf_stats, "NF-OK" if r.returncode == 0 else "NF-FAIL", tail)
finally:
    shutil.rmtree(d, ignore_errors=True)
