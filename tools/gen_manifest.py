#!/usr/bin/env python3
"""Regenerate MANIFEST.json from the rule registry + tables/claims.py (per-property texts)."""
import json
import os
import sys

HERE = os.path.dirname(os.path.dirname(os.path.abspath(__file__)))
sys.path.insert(0, HERE)
from sa import core  # noqa: E402
from tables import claims  # noqa: E402

core.import_rules()
props = [json.loads(l)["id"] for l in open(os.path.join(HERE, "properties.jsonl"))]
checks, na = [], []
for p in props:
    rq = core.rules_for(p, "quick")
    rt = core.rules_for(p, "thorough")
    if not rq:
        na.append({"property_id": p, "reason": claims.NOT_APPLICABLE.get(p, "no static rule armed for this property yet")})
        continue
    c = claims.CLAIMS[p]
    engines = sorted({core.RULES[r].engine for r in rt})
    checks.append({
        "property_id": p,
        "quick_cmd": "./vcheck --property %s --tier quick" % p,
        "thorough_cmd": "./vcheck --property %s --tier thorough" % p,
        "evidence_file": "/verif/evidence/%s.json" % p,
        "replay_cmd_template": "./vcheck --replay {path}",
        "engine": "vcheck-static",
        "level_claimed": {
            "category": "other",
            "text": c["text"],
            "design_ref": "DESIGN.md section 5 (%s)" % p,
        },
        "level_note": c["note"],
        "technique": "static analysis: " + c["technique"] + " [rules: " + ", ".join(rt) + "]",
    })
man = {
    "version": 1,
    "setup_cmd": "/venv/bin/python -B -c \"import ast, sys; sys.exit(0 if sys.version_info >= (3, 9) else 1)\"",
    "hooks": {
        "guard": "PYVSC_VERIF",
        "enable": "none needed: the checks read /repo/src/vsc with ast and never import or run it",
        "baseline_off_cmd": "cd /repo && /venv/bin/python -m pytest -ra -q -p no:cacheprovider --timeout=900 --continue-on-collection-errors",
        "source_commits": [],
        "add_only": True,
    },
    "engines": [
        {"name": "vcheck-static", "path": "/verif/vcheck", "serves_properties": [c["property_id"] for c in checks],
         "kind_free_text": "stdlib-ast static analyser specific to pyvsc: program model with visitor double dispatch and interposer "
                           "pseudo-classes (sa/ir.py), structured abstract interpreter with exceptional edges and path facts (sa/sai.py), "
                           "partial evaluator for opcode dispatchers and truth tables (sa/pe.py), effect/ownership closure, sibling comparison"},
    ],
    "checks": checks,
    "not_applicable": na,
    "notes": "Every check decides structural necessary conditions of its property from /repo's current source (never executes it). "
             "Exit 0 ok, 1 + VIOLATION line, 2 + ANALYSIS-ERROR when an anchored construct vanished. Known findings: known_findings.json.",
}
with open(os.path.join(HERE, "MANIFEST.json"), "w") as fh:
    json.dump(man, fh, indent=1)
print("checks:", len(checks), "not_applicable:", len(na))
