#!/bin/sh
# usage: import_seeds.sh <srcdir e.g. /tmp/wt5> <prefix e.g. R5>
for d in $1/C*-out/[ABC]; do
  [ -f "$d/notes.json" ] && [ -f "$d/patch.diff" ] || continue
  p=$(basename $(dirname $d) | sed 's/-out//'); x=$(basename $d)
  t=/verif/seeded/$2-$p-$x
  [ -d "$t" ] && continue
  mkdir -p $t; cp $d/patch.diff $d/demo.py $d/notes.json $t/
  echo "$2-$p-$x: $(/verif/tools/tryseed.py $t/patch.diff $p 2>&1 | tail -1)"
done
