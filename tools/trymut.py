#!/usr/bin/env python3
"""Ad-hoc mutation probe: copy /repo/src to a scratch dir, replace OLD by NEW in FILE, run a check.
usage: trymut.py PROP FILE OLD NEW [--rules R]   (OLD/NEW are python string literals w/ \\n allowed)"""
import os, shutil, subprocess, sys, tempfile
prop, file, old, new = sys.argv[1:5]
extra = sys.argv[5:]
old = old.encode().decode('unicode_escape'); new = new.encode().decode('unicode_escape')
d = tempfile.mkdtemp(prefix="vmut-")
try:
    shutil.copytree("/repo/src", os.path.join(d, "src"))
    p = os.path.join(d, file)
    s = open(p).read()
    if s.count(old) != 1:
        print("OLD occurs %d times" % s.count(old)); sys.exit(3)
    open(p, "w").write(s.replace(old, new))
    import py_compile
    py_compile.compile(p, doraise=True, cfile=os.path.join(d, "x.pyc"))
    r = subprocess.run(["/verif/vcheck", "--property", prop, "--repo", d, "--no-evidence"] + extra, capture_output=True, text=True)
    print(r.stdout[-3000:], r.stderr[-2000:])
    print("exit", r.returncode)
finally:
    shutil.rmtree(d)
