#!/bin/sh
# run the 146 fast stable tests against /repo (pass "all" to include the slow test_smoke2)
cd /repo
L=/verif/tools/stable_fast.txt
[ "$1" = "all" ] && L=/verif/tools/stable_tests.txt
/venv/bin/python -m pytest -q -p no:cacheprovider -n 8 $(cat $L) 2>&1 | tail -3
