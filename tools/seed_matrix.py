#!/usr/bin/env python3
"""For every seeded change: apply it to a scratch copy of /repo/src, run every property's quick check, record which
checks report it and with which rule; write seeded/<id>/meta.json and seeded/MATRIX.md.  (16 workers.)"""
import json
import os
import re
import shutil
import subprocess
import sys
import tempfile
from concurrent.futures import ThreadPoolExecutor

HERE = os.path.dirname(os.path.dirname(os.path.abspath(__file__)))
SEEDS = os.path.join(HERE, "seeded")
PROPS = ["C%02d" % i for i in range(1, 21)]


def one(name):
    sd = os.path.join(SEEDS, name)
    d = tempfile.mkdtemp(prefix="vseed-")
    out = {"detected_by": {}, "error": None}
    try:
        shutil.copytree("/repo/src", os.path.join(d, "src"))
        r = subprocess.run(["patch", "-p1", "-s", "-i", os.path.join(sd, "patch.diff")], cwd=d, capture_output=True, text=True)
        if r.returncode != 0:
            out["error"] = "patch failed: " + (r.stdout + r.stderr)[-200:]
            return name, out
        r = subprocess.run([os.path.join(HERE, "vcheck"), "--all", "--repo", d, "--no-evidence"], capture_output=True, text=True)
        cur = None
        per = {}
        finds = []
        for l in r.stdout.splitlines():
            if l.startswith("FINDING"):
                finds.append(l)
            elif l.startswith("ANALYSIS-ERROR"):
                m = re.search(r"property=(C\d+)", l)
                if m:
                    per.setdefault(m.group(1), []).append("ANALYSIS-ERROR " + l[:160])
            elif l.startswith("RESULT"):
                m = re.search(r"property=(C\d+).*violations=(\d+)", l)
                if m and int(m.group(2)) > 0:
                    rules = sorted({re.search(r"\[(\w+)\]", f).group(1) for f in finds if re.search(r"\[(\w+)\]", f)})
                    per[m.group(1)] = {"rules": rules, "first": finds[0][8:260] if finds else ""}
                finds = []
        out["detected_by"] = per
    finally:
        shutil.rmtree(d, ignore_errors=True)
    return name, out


def main():
    names = sorted(n for n in os.listdir(SEEDS) if os.path.isdir(os.path.join(SEEDS, n)))
    with ThreadPoolExecutor(max_workers=8) as ex:
        res = dict(ex.map(one, names))
    rows = []
    for n in names:
        sd = os.path.join(SEEDS, n)
        notes = json.load(open(os.path.join(sd, "notes.json"))) if os.path.exists(os.path.join(sd, "notes.json")) else {}
        conf = json.load(open(os.path.join(sd, "confirm.json"))) if os.path.exists(os.path.join(sd, "confirm.json")) else {}
        prop = re.search(r"C\d\d", n).group(0)
        det = res[n]["detected_by"]
        meta = {
            "id": n,
            "breaks_property": prop,
            "files": notes.get("files"),
            "what": notes.get("what"),
            "needs_to_manifest": notes.get("needs"),
            "written_by": "independent sub-agent given only the property text and a scratch worktree of /repo (no access to /verif)",
            "author_ran": notes.get("ran"),
            "confirmed_by_me": {
                "how": "tools/confirm_seed.py: scratch worktree of /repo HEAD under /tmp; demo.py on clean HEAD and with the patch applied; "
                       "stable tests with the patch; worktree removed afterwards",
                "repo_head": conf.get("repo_head"), "demo_clean_exit": conf.get("demo_clean_exit"),
                "demo_patched_exit": conf.get("demo_patched_exit"), "demo_patched_says": conf.get("demo_patched_tail"),
                "tests": conf.get("tests"), "tests_scope": conf.get("tests_scope"), "confirmed": conf.get("confirmed"),
            },
            "detected_by_checks": det,
            "detected_by_own_property": prop in det,
            "note": res[n]["error"],
        }
        json.dump(meta, open(os.path.join(sd, "meta.json"), "w"), indent=1)
        own = det.get(prop)
        rows.append((n, "yes" if prop in det else "NO", ",".join(own["rules"]) if isinstance(own, dict) else "", ",".join(sorted(det)),
                     (notes.get("files") or [""])[0].replace("src/vsc/", "")))
    with open(os.path.join(SEEDS, "MATRIX.md"), "w") as fh:
        fh.write("# Seeded changes vs checks (quick tier, applied to a scratch copy of /repo HEAD)\n\n")
        fh.write("| seed | caught by its property's check | rules | all properties reporting | first file |\n|---|---|---|---|---|\n")
        for r in rows:
            fh.write("| %s | %s | %s | %s | %s |\n" % r)
    n_ok = sum(1 for r in rows if r[1] == "yes")
    print("seeds %d, caught by own property %d" % (len(rows), n_ok))
    for r in rows:
        if r[1] != "yes":
            print("MISSED", r)


if __name__ == "__main__":
    main()
