#!/usr/bin/env python3
"""Confirm a seeded change against the CURRENT /repo HEAD in a scratch worktree (outside /repo and /verif):
demo exits 0 on clean HEAD and 1 with the patch; the stable tests still pass with the patch.
usage: confirm_seed.py <seed dir> [--slow]     writes <seed dir>/confirm.json ; removes the worktree."""
import json
import os
import shutil
import subprocess
import sys
import tempfile
import time

seed = os.path.abspath(sys.argv[1])
slow = "--slow" in sys.argv
name = os.path.basename(seed)
wt = tempfile.mkdtemp(prefix="cs-%s-" % name, dir="/tmp")
os.rmdir(wt)
res = {"seed": name, "repo_head": subprocess.check_output(["git", "-C", "/repo", "rev-parse", "--short", "HEAD"], text=True).strip(),
       "at": time.strftime("%Y-%m-%dT%H:%M:%SZ", time.gmtime())}


def run(cmd, **kw):
    return subprocess.run(cmd, capture_output=True, text=True, **kw)


try:
    r = run(["git", "-C", "/repo", "worktree", "add", "--detach", "-q", wt, "HEAD"])
    if r.returncode != 0:
        res["error"] = "worktree: " + r.stderr
        raise SystemExit
    env = dict(os.environ, PYTHONPATH=wt + "/src")
    demo = os.path.join(seed, "demo.py")
    d0 = run(["/venv/bin/python", demo], env=env, cwd=wt, timeout=600)
    res["demo_clean_exit"] = d0.returncode
    res["demo_clean_tail"] = (d0.stdout.strip().splitlines() or [""])[-1][:200]
    patch = os.path.join(seed, "patch.diff")
    a = run(["git", "apply", "--3way", patch], cwd=wt)
    if a.returncode != 0:
        run(["git", "checkout", "--", "."], cwd=wt)
        a = run(["patch", "-p1", "--fuzz=3", "-s", "-i", patch], cwd=wt)
    res["patch_applies"] = a.returncode == 0
    if a.returncode != 0:
        res["error"] = "patch does not apply to HEAD: " + (a.stdout + a.stderr)[-300:]
        raise SystemExit
    c = run(["/venv/bin/python", "-m", "compileall", "-q", "src/vsc"], cwd=wt)
    res["compiles"] = c.returncode == 0
    d1 = run(["/venv/bin/python", demo], env=env, cwd=wt, timeout=600)
    res["demo_patched_exit"] = d1.returncode
    res["demo_patched_tail"] = (d1.stdout.strip().splitlines() or [""])[-1][:300]
    ids = open("/verif/tools/stable_tests.txt" if slow else "/verif/tools/stable_fast.txt").read().split()
    t = run(["/venv/bin/python", "-m", "pytest", "-q", "-p", "no:cacheprovider", "-n", "4"] + ids, env=env, cwd=wt, timeout=3000)
    tail = [l for l in t.stdout.strip().splitlines() if "passed" in l or "failed" in l]
    res["tests"] = tail[-1] if tail else t.stdout[-200:]
    res["tests_scope"] = "147 stable tests" if slow else "146 fast stable tests (test_smoke2 not run)"
    res["tests_pass"] = (t.returncode == 0)
    # regenerate the patch against HEAD (context may have moved since the seed was written)
    g = run(["git", "diff"], cwd=wt)
    res["rebased_patch"] = g.stdout
    res["confirmed"] = bool(res["demo_clean_exit"] == 0 and res["demo_patched_exit"] not in (0, None) and res["compiles"] and res["tests_pass"])
except SystemExit:
    pass
except Exception as e:
    res["error"] = "%s: %s" % (type(e).__name__, e)
finally:
    subprocess.run(["git", "-C", "/repo", "worktree", "remove", "--force", wt], capture_output=True)
    shutil.rmtree(wt, ignore_errors=True)
rp = res.pop("rebased_patch", None)
if rp and res.get("confirmed"):
    with open(os.path.join(seed, "patch.diff"), "w") as fh:
        fh.write(rp)
with open(os.path.join(seed, "confirm.json"), "w") as fh:
    json.dump(res, fh, indent=1)
print(name, "CONFIRMED" if res.get("confirmed") else "NOT-CONFIRMED", res.get("error", ""), res.get("demo_clean_exit"), res.get("demo_patched_exit"), res.get("tests"))
