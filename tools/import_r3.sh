#!/bin/sh
# import round-3 deliverables from /tmp/wt3/Cnn-out/{A,B} into seeded/R3-Cnn-X and evaluate
for d in /tmp/wt3/C*-out/*; do
  [ -f "$d/notes.json" ] || continue
  p=$(basename $(dirname $d) | sed 's/-out//'); x=$(basename $d)
  t=/verif/seeded/R3-$p-$x
  [ -d "$t" ] && continue
  mkdir -p $t; cp $d/patch.diff $d/demo.py $d/notes.json $t/
  echo "## R3-$p-$x"; /verif/tools/tryseed.py $t/patch.diff 2>&1 | tail -8
done
