#!/bin/sh
# import third refactoring round deliverables /tmp/wt11/Cnn-out/{A..D} into refactors/R4-Cnn-X and evaluate
for d in /tmp/wt11/C*-out/[ABCD]; do
  [ -f "$d/patch.diff" ] && [ -f "$d/notes.json" ] || continue
  p=$(basename $(dirname $d) | sed 's/-out//'); x=$(basename $d)
  t=/verif/refactors/R4-$p-$x
  if [ -d "$t" ] && cmp -s $d/patch.diff $t/patch.diff; then continue; fi
  mkdir -p $t; cp $d/patch.diff $d/notes.json $t/
  /verif/tools/tryrefac.py $t/patch.diff 2>&1 | cut -c1-300
done
