#!/venv/bin/python
"""Apply a (behaviour-preserving) patch to a scratch copy of /repo/src and run every property's quick check in one process.
A silent run prints 'SILENT'; anything else (findings, analysis errors) is listed - each is a false alarm to be fixed in the rules.
usage: tryrefac.py PATCH [PATCH ...]"""
import os, shutil, subprocess, sys, tempfile
rc_all = 0
for patch in sys.argv[1:]:
    patch = os.path.abspath(patch)
    d = tempfile.mkdtemp(prefix="vref-")
    try:
        shutil.copytree("/repo/src", os.path.join(d, "src"))
        r = subprocess.run(["patch", "-p1", "-s", "-i", patch], cwd=d, capture_output=True, text=True)
        if r.returncode != 0:
            print(patch, "PATCH-FAILED", (r.stdout + r.stderr)[-200:])
            continue
        r = subprocess.run(["/verif/vcheck", "--all", "--repo", d, "--no-evidence"], capture_output=True, text=True)
        bad = [l for l in r.stdout.splitlines() if l.startswith(("FINDING", "ANALYSIS-ERROR"))]
        name = "/".join(patch.split("/")[-3:-1])
        if r.returncode == 0 and not bad:
            print(name, "SILENT")
        else:
            rc_all = 1
            print(name, "NOISE exit", r.returncode)
            seen = set()
            for l in bad:
                k = l[:200]
                if k not in seen:
                    seen.add(k)
                    print("    " + l[:330])
            if not bad:
                print(r.stdout[-500:], r.stderr[-800:])
    finally:
        shutil.rmtree(d, ignore_errors=True)
sys.exit(rc_all)
