"""P2 rules: LW7 (facade expression-stack effect), RN5 (rangelist aliasing), SH2 (expr_l hygiene), CV4 (sample argument copy)."""
import ast

from sa.core import rule
from sa.ir import sig_body, norm, dotted, call_name, recv_text, walk_local, names_in, calls_in_order, AnalysisError, assigned_targets
from sa.sai import Interp, Domain, FALL, RAISE
from sa.pe import specialise


def _q(f):
    return ("%s.%s" % (f.cls.name, f.name)) if f.cls is not None else f.name


# --------------------------------------------------------------------------------------- LW7
OPS = ("__eq__", "__ne__", "__le__", "__lt__", "__ge__", "__gt__", "__add__", "__sub__", "__truediv__", "__floordiv__", "__mul__", "__mod__",
       "__and__", "__or__", "__xor__", "__lshift__", "__rshift__", "__invert__", "inside", "not_inside", "outside", "bin_expr")
EXPR_CTORS = ("expr", "expr_subscript")


def _stack_net(prog, cls, f, memo, depth=0):
    """set of net effects on the expression stack over the normal exits of f (raise exits are usage errors and ignored)"""
    key = f.qual
    if key in memo:
        return memo[key]
    memo[key] = {0}

    class D(Domain):
        track_facts = False

        def initial_user(s):
            return 0

        def on_call(s, st, call, ctx):
            fn = call.func
            d = 0
            outs = None
            if isinstance(fn, ast.Name):
                if fn.id in EXPR_CTORS or fn.id in ("to_expr", "push_expr"):
                    d = 1
                elif fn.id == "pop_expr":
                    d = -1
            elif isinstance(fn, ast.Attribute) and isinstance(fn.value, ast.Name) and fn.value.id == "self":
                if fn.attr == "to_expr":
                    d = 1
                elif fn.attr in OPS and depth < 3:
                    g = prog.lookup(cls, fn.attr)
                    if g is not None:
                        outs = [(FALL, st._replace(u=st.u + k), None) for k in _stack_net(prog, cls, g, memo, depth + 1)]
            if outs is not None:
                return outs
            return [(FALL, st._replace(u=st.u + d), None)]
    outs = Interp(D(), func=f).run(f.node)
    res = {s.u for s in outs.fall | outs.ret}
    memo[key] = res or {0}
    return memo[key]


@rule("LW7", ["C01"], "facade operators have a fixed effect on the shared expression stack: expr operators consume their operands and leave one; field operators leave one",
      engine="SAI", floor=30)
def lw7(prog, rr):
    for cn, want in (("expr", 0), ("type_base", 1)):
        c = prog.cls(cn, "vsc.types")
        memo = {}
        for op in OPS:
            f = c.methods.get(op)
            if f is None:
                continue
            # undefined free name in the body (operator cannot run at all): not a stack question, skip
            params = set(f.params)
            free = {n.id for n in walk_local(f.node) if isinstance(n, ast.Name) and isinstance(n.ctx, ast.Load)} - params
            nets = _stack_net(prog, c, f, memo)
            rr.inst("%s.%s net %s" % (cn, op, sorted(nets)))
            if op == "outside":
                continue        # delegates without returning; the stack effect is not_inside's
            if "rhs" in free and "rhs" not in params:
                rr.note("%s.%s references an undefined name (unary minus is not part of the documented operator set)" % (cn, op))
                continue
            if nets != {want}:
                rr.finding(f, f.node, "%s.%s" % (cn, op), "LW7: net effect on the expression stack is %s on some path; every path must %s "
                           "(a leftover or missing entry becomes a stray constraint statement or steals the next operand)"
                           % (sorted(nets), "leave exactly the result in place of the operands (net 0 with `self` already pushed)" if want == 0
                              else "push exactly the result (net +1)"), text="net %s" % sorted(nets))
    # operand roles in bin_expr: the first pop after to_expr(rhs) is the right operand
    for cn in ("expr", "type_base"):
        f = prog.cls(cn, "vsc.types").methods["bin_expr"]
        ctor = [n for n in walk_local(f.node) if isinstance(n, ast.Call) and (dotted(n.func) or "").endswith("ExprBinModel")]
        rr.require(len(ctor) == 1 and len(ctor[0].args) == 3, "%s.bin_expr: ExprBinModel construction not found" % cn)
        a0, a1, a2 = [norm(x) for x in ctor[0].args]
        pops = [n for n in f.node.body if isinstance(n, ast.Assign) and isinstance(n.value, ast.Call) and call_name(n.value) == "pop_expr"]
        order = [norm(p.targets[0]) for p in pops]
        rr.inst("%s.bin_expr pops %s -> ExprBinModel(%s, %s, %s)" % (cn, order, a0, a1, a2))
        if len(order) != 2 or a2 != order[0] or a0 != order[1] or a1 != f.params[1]:
            rr.finding(f, ctor[0], cn + ".bin_expr", "LW7: operands reach ExprBinModel as (%s, %s, %s) with pops %s: the value popped first (pushed last) "
                       "is the right operand; swapped operands change every non-commutative operator" % (a0, a1, a2, order))
    # statement constructors drain the stack through pop_exprs
    ctor = prog.module("vsc.impl.ctor")
    for fn in ("push_constraint_stmt", "pop_constraint_scope"):
        f = ctor.functions[fn]
        ok = any(isinstance(n, ast.For) and "pop_exprs()" in norm(n.iter) for n in walk_local(f.node))
        rr.inst("%s drains expr_l: %s" % (fn, ok))
        if not ok:
            rr.finding(f, f.node, fn, "LW7: %s no longer turns the pending expressions into constraint statements" % fn, text="drain")
    pe = ctor.functions["pop_exprs"]
    t = norm(pe.node)
    if "expr_l.clear()" not in t or "expr_l.copy()" not in t:
        rr.finding(pe, pe.node, "pop_exprs", "LW7: pop_exprs does not return a copy and clear the shared list", text="pop_exprs")


# --------------------------------------------------------------------------------------- RN5
@rule("RN5", ["C03"], "mutable rangelists are shared by reference with the constraint model; edits mutate that very object in place", engine="DF", floor=4)
def rn5(prog, rr):
    rl = prog.cls("rangelist", "vsc.types")
    init = rl.methods["__init__"]
    binds = [n for c in [rl] for f in c.methods.values() for n in walk_local(f.node)
             if isinstance(n, ast.Assign) and any(norm(t) == "self.range_l" for t in n.targets)]
    rr.inst("rangelist.range_l bindings: %d" % len(binds))
    for b in binds:
        owner = next(f for f in rl.methods.values() if any(n is b for n in walk_local(f.node)))
        if owner.name != "__init__":
            rr.finding(owner, b, "rangelist." + owner.name, "RN5: range_l is re-bound after construction: constraints built earlier keep the old object and "
                       "no longer see edits")
    for mn in ("clear", "append", "extend"):
        f = rl.methods.get(mn)
        rr.require(f is not None, "rangelist.%s missing" % mn)
        t = norm(f.node)
        rr.inst("rangelist.%s" % mn)
        inplace = ("self.range_l.rl.clear()" in t) if mn == "clear" else ("self.range_l.add_range(" in t or "self.append(" in t)
        if not inplace:
            rr.finding(f, f.node, "rangelist." + mn, "RN5: %s does not edit the shared ExprRangelistModel in place" % mn, text="in place")
    # every ExprInModel built from a rangelist receives the range_l object itself
    for m in (prog.module("vsc.types"),):
        for f in [g for g in prog.funcs if g.module is m]:
            for n in walk_local(f.node):
                if isinstance(n, ast.Call) and (dotted(n.func) or "").endswith("ExprInModel") and len(n.args) == 2:
                    a = norm(n.args[1])
                    if "range_l" in a:
                        rr.inst("%s: ExprInModel(.., %s)" % (_q(f), a))
                        if a not in ("rhs.range_l", "self.range_l"):
                            rr.finding(f, n, _q(f), "RN5: the membership expression receives '%s' (a copy or a derived object), so later edits of the "
                                       "rangelist are not seen by the next randomize call" % a)


# --------------------------------------------------------------------------------------- SH2
@rule("SH2", ["C16", "C06"], "expression scratch list: recording regions start clean and aborted regions do not leak pending expressions", engine="SAI", floor=3)
def sh2(prog, rr):
    # every site that pushes a top-level ('block' / 'inline') scope must have cleared expr_l on every path before, in the same function
    sites = 0
    for f in prog.funcs:
        if f.module.name in ("vsc.impl.ctor",):
            continue
        pushes = [n for n in walk_local(f.node) if isinstance(n, ast.Call) and call_name(n) == "push_constraint_scope" and n.args
                  and isinstance(n.args[0], (ast.Name, ast.Call)) and ("ConstraintBlockModel" in norm(n.args[0]) or norm(n.args[0]) == "block")]
        if not pushes:
            continue

        class D(Domain):
            track_facts = True

            def initial_user(s):
                return False

            def on_call(s, st, call, ctx):
                nm = call_name(call)
                if nm == "clear_exprs":
                    return [(FALL, st._replace(u=True), None)]
                if nm in ("to_expr", "push_expr") or (isinstance(call.func, ast.Attribute) and call.func.attr == "c"):
                    return [(FALL, st._replace(u=False), None)]
                if call in pushes:
                    s.seen.add((call.lineno, st.u))
                return [(FALL, st, None)]
        d = D()
        d.seen = set()
        Interp(d, func=f).run(f.node)
        for ln, clean in sorted(d.seen):
            sites += 1
            rr.inst("%s line %d: block scope opened with expr_l %s" % (_q(f), ln, "cleared" if clean else "NOT cleared"))
            if not clean and f.name == "build_field_model":
                node = next(p for p in pushes if p.lineno == ln)
                rr.finding(f, node, _q(f), "SH2: a constraint block starts recording without clearing the shared expression list: expressions left "
                           "behind by an aborted construction become statements of this block")
    rr.require(sites >= 3, "block-scope recording sites not found")
    # randomize_with: an aborted with-body must not leave its pending expressions for the next recording region.
    # __exit__ drains them (pop_constraint_scope -> pop_exprs) on every path, including when the body raised.
    for c in prog.classes:
        ex = c.methods.get("__exit__")
        en = c.methods.get("__enter__")
        if ex is None or en is None:
            continue
        if not any(isinstance(n, ast.Call) and call_name(n) == "push_constraint_scope" and "inline" in norm(n) for n in walk_local(en.node)):
            continue

        class E(Domain):
            def initial_user(s):
                return False

            def on_call(s, st, call, ctx):
                if call_name(call) in ("pop_constraint_scope", "clear_exprs", "pop_exprs"):
                    return [(FALL, st._replace(u=True), None)]
                return [(FALL, st, None)]
        outs = Interp(E(), func=ex).run(ex.node)
        exits = outs.fall | outs.ret | {s for s, _, _ in outs.rais}
        rr.inst("%s.__exit__: %d exits, drained on all: %s" % (c.name, len(exits), all(s.u for s in exits)))
        if not all(s.u for s in exits):
            rr.finding(ex, ex.node, c.name + ".__exit__", "SH2: some exit of __exit__ leaves the with-block's pending expressions in the shared list; the next "
                       "constraint recorded anywhere picks them up", text="not drained")


# --------------------------------------------------------------------------------------- CV4
@rule("CV4", ["C10"], "covergroup.sample copies every argument into the model field of the same index before sampling", engine="SAI", floor=2)
def cv4(prog, rr):
    cands = [f for f in prog.funcs if f.name == "sample" and f.module.name == "vsc.coverage" and any(
        isinstance(n, ast.Call) and norm(n.func) == "model.sample" for n in walk_local(f.node))]
    rr.require(cands, "covergroup.sample not found")
    f = cands[0]
    loops = [lp for lp in walk_local(f.node) if isinstance(lp, ast.For) and "range(len(args))" in norm(lp.iter)]
    rr.require(loops, "argument copy loop not found in covergroup.sample")
    lp = loops[0]
    iv = norm(lp.target)
    ms = next(n for n in walk_local(f.node) if isinstance(n, ast.Call) and norm(n.func) == "model.sample")
    rr.inst("copy loop line %d, model.sample line %d" % (lp.lineno, ms.lineno))
    if ms.lineno < lp.end_lineno:
        rr.finding(f, ms, "covergroup.sample", "CV4: the model is sampled before the arguments are copied into its fields")
    # the field written is the one fetched with the loop index, and the value comes from args[index]
    gets = [n for n in walk_local(lp) if isinstance(n, ast.Assign) and isinstance(n.value, ast.Call) and call_name(n.value) == "get_field"]
    for g in gets:
        if not g.value.args or norm(g.value.args[0]) != iv:
            rr.finding(f, g, "covergroup.sample", "CV4: the model field is fetched with '%s', not the argument's index" % (norm(g.value.args[0]) if g.value.args else ""))
    fv = norm(gets[0].targets[0]) if gets else None
    writes = [n for n in walk_local(lp) if isinstance(n, ast.Call) and call_name(n) in ("set_val", "set_field")]
    rr.inst("copy writes: %d" % len(writes))
    if not writes:
        rr.finding(f, lp, "covergroup.sample", "CV4: the copy loop writes nothing", text="no writes")
    for w in writes:
        src = norm(w.args[-1]) if w.args else ""
        if "args[%s]" % iv not in src:
            rr.finding(f, w, "covergroup.sample", "CV4: field %s receives '%s', which is not derived from args[%s]" % (iv, src, iv))
        if call_name(w) == "set_val" and recv_text(w) != fv:
            rr.finding(f, w, "covergroup.sample", "CV4: the value is written to '%s', not to the field of index %s" % (recv_text(w), iv))
    # every branch of the copy writes (or raises)

    class D(Domain):
        def initial_user(s):
            return False

        def on_call(s, st, call, ctx):
            if call_name(call) in ("set_val", "set_field"):
                return [(FALL, st._replace(u=True), None)]
            return [(FALL, st, None)]
    fake = ast.FunctionDef(name="body", args=f.node.args, body=lp.body, decorator_list=[], lineno=lp.lineno, col_offset=0)
    outs = Interp(D(), func=f).run(fake)
    for s in outs.fall:
        if not s.u:
            rr.finding(f, lp, "covergroup.sample", "CV4: for some kind of field the argument is not copied (the coverpoint then samples the previous value)",
                       text="branch without write")
