"""P2 rules: LW7 (facade expression-stack effect), RN5 (rangelist aliasing), SH2 (expr_l hygiene), CV4 (sample argument copy)."""
import ast

from sa.core import rule
from sa.ir import sig_body, norm, dotted, call_name, recv_text, walk_local, names_in, calls_in_order, AnalysisError, assigned_targets
from sa.sai import Interp, Domain, FALL, RAISE
from sa.pe import specialise


def _q(f):
    return ("%s.%s" % (f.cls.name, f.name)) if f.cls is not None else f.name


# --------------------------------------------------------------------------------------- LW7
OPS = ("__eq__", "__ne__", "__le__", "__lt__", "__ge__", "__gt__", "__add__", "__sub__", "__truediv__", "__floordiv__", "__mul__", "__mod__",
       "__and__", "__or__", "__xor__", "__lshift__", "__rshift__", "__invert__", "inside", "not_inside", "outside", "bin_expr")
EXPR_CTORS = ("expr", "expr_subscript")


def _stack_net(prog, cls, f, memo, depth=0):
    """set of net effects on the expression stack over the normal exits of f (raise exits are usage errors and ignored)"""
    key = f.qual
    if key in memo:
        return memo[key]
    memo[key] = {0}

    class D(Domain):
        track_facts = False

        def initial_user(s):
            return 0

        def on_call(s, st, call, ctx):
            fn = call.func
            d = 0
            outs = None
            if isinstance(fn, ast.Name):
                if fn.id in EXPR_CTORS or fn.id in ("to_expr", "push_expr"):
                    d = 1
                elif fn.id == "pop_expr":
                    d = -1
            elif isinstance(fn, ast.Attribute) and isinstance(fn.value, ast.Name) and fn.value.id == "self":
                if fn.attr == "to_expr":
                    d = 1
                elif fn.attr in OPS and depth < 3:
                    g = prog.lookup(cls, fn.attr)
                    if g is not None:
                        outs = [(FALL, st._replace(u=st.u + k), None) for k in _stack_net(prog, cls, g, memo, depth + 1)]
            if outs is not None:
                return outs
            return [(FALL, st._replace(u=st.u + d), None)]
    outs = Interp(D(), func=f).run(f.node)
    res = {s.u for s in outs.fall | outs.ret}
    memo[key] = res or {0}
    return memo[key]


@rule("LW7", ["C01"], "facade operators have a fixed effect on the shared expression stack: expr operators consume their operands and leave one; field operators leave one",
      engine="SAI", floor=30)
def lw7(prog, rr):
    for cn, want in (("expr", 0), ("type_base", 1)):
        c = prog.cls(cn, "vsc.types")
        memo = {}
        for op in OPS:
            f = c.methods.get(op)
            if f is None:
                continue
            # undefined free name in the body (operator cannot run at all): not a stack question, skip
            params = set(f.params)
            free = {n.id for n in walk_local(f.node) if isinstance(n, ast.Name) and isinstance(n.ctx, ast.Load)} - params
            nets = _stack_net(prog, c, f, memo)
            rr.inst("%s.%s net %s" % (cn, op, sorted(nets)))
            if op == "outside":
                continue        # delegates without returning; the stack effect is not_inside's
            if "rhs" in free and "rhs" not in params:
                rr.note("%s.%s references an undefined name (unary minus is not part of the documented operator set)" % (cn, op))
                continue
            if nets != {want}:
                rr.finding(f, f.node, "%s.%s" % (cn, op), "LW7: net effect on the expression stack is %s on some path; every path must %s "
                           "(a leftover or missing entry becomes a stray constraint statement or steals the next operand)"
                           % (sorted(nets), "leave exactly the result in place of the operands (net 0 with `self` already pushed)" if want == 0
                              else "push exactly the result (net +1)"), text="net %s" % sorted(nets))
    # operand roles in bin_expr: the first pop after to_expr(rhs) is the right operand
    for cn in ("expr", "type_base"):
        f = prog.cls(cn, "vsc.types").methods["bin_expr"]
        ctor = [n for n in walk_local(f.node) if isinstance(n, ast.Call) and (dotted(n.func) or "").endswith("ExprBinModel")]
        rr.require(len(ctor) == 1 and len(ctor[0].args) == 3, "%s.bin_expr: ExprBinModel construction not found" % cn)
        a0, a1, a2 = [norm(x) for x in ctor[0].args]
        pops = [n for n in f.node.body if isinstance(n, ast.Assign) and isinstance(n.value, ast.Call) and call_name(n.value) == "pop_expr"]
        order = [norm(p.targets[0]) for p in pops]
        rr.inst("%s.bin_expr pops %s -> ExprBinModel(%s, %s, %s)" % (cn, order, a0, a1, a2))
        if len(order) != 2 or a2 != order[0] or a0 != order[1] or a1 != f.params[1]:
            rr.finding(f, ctor[0], cn + ".bin_expr", "LW7: operands reach ExprBinModel as (%s, %s, %s) with pops %s: the value popped first (pushed last) "
                       "is the right operand; swapped operands change every non-commutative operator" % (a0, a1, a2, order))
    # statement constructors drain the stack through pop_exprs
    ctor = prog.module("vsc.impl.ctor")
    for fn in ("push_constraint_stmt", "pop_constraint_scope"):
        f = ctor.functions[fn]
        ok = any(isinstance(n, ast.For) and "pop_exprs()" in norm(n.iter) for n in walk_local(f.node))
        rr.inst("%s drains expr_l: %s" % (fn, ok))
        if not ok:
            rr.finding(f, f.node, fn, "LW7: %s no longer turns the pending expressions into constraint statements" % fn, text="drain")
    pe = ctor.functions["pop_exprs"]
    t = norm(pe.node)
    if "expr_l.clear()" not in t or "expr_l.copy()" not in t:
        rr.finding(pe, pe.node, "pop_exprs", "LW7: pop_exprs does not return a copy and clear the shared list", text="pop_exprs")


# --------------------------------------------------------------------------------------- RN5
@rule("RN5", ["C03", "C01"], "mutable rangelists are shared by reference with the constraint model; edits mutate that very object in place", engine="DF", floor=4)
def rn5(prog, rr):
    rl = prog.cls("rangelist", "vsc.types")
    init = rl.methods["__init__"]
    binds = [n for c in [rl] for f in c.methods.values() for n in walk_local(f.node)
             if isinstance(n, ast.Assign) and any(norm(t) == "self.range_l" for t in n.targets)]
    rr.inst("rangelist.range_l bindings: %d" % len(binds))
    for b in binds:
        owner = next(f for f in rl.methods.values() if any(n is b for n in walk_local(f.node)))
        if owner.name != "__init__":
            rr.finding(owner, b, "rangelist." + owner.name, "RN5: range_l is re-bound after construction: constraints built earlier keep the old object and "
                       "no longer see edits")
    for mn in ("clear", "append", "extend"):
        f = rl.methods.get(mn)
        rr.require(f is not None, "rangelist.%s missing" % mn)
        t = norm(f.node)
        rr.inst("rangelist.%s" % mn)
        if mn == "clear":
            inplace = "self.range_l.rl.clear()" in t
            if not inplace and "self.range_l.clear()" in t:
                # delegated to the model: its clear() must empty the list object in place
                mc = prog.cls("ExprRangelistModel").methods.get("clear")
                inplace = mc is not None and "self.rl.clear()" in norm(mc.node) and not any(
                    isinstance(a, ast.Assign) and any(norm(tg) == "self.rl" for tg in a.targets) for a in walk_local(mc.node))
        else:
            inplace = "self.range_l.add_range(" in t or "self.append(" in t
        if not inplace:
            rr.finding(f, f.node, "rangelist." + mn, "RN5: %s does not edit the shared ExprRangelistModel in place" % mn, text="in place")
    # every ExprInModel built from a rangelist receives the range_l object itself
    for m in (prog.module("vsc.types"),):
        for f in [g for g in prog.funcs if g.module is m]:
            for n in walk_local(f.node):
                if isinstance(n, ast.Call) and (dotted(n.func) or "").endswith("ExprInModel") and len(n.args) == 2:
                    a = norm(n.args[1])
                    if "range_l" in a:
                        rr.inst("%s: ExprInModel(.., %s)" % (_q(f), a))
                        if a not in ("rhs.range_l", "self.range_l"):
                            rr.finding(f, n, _q(f), "RN5: the membership expression receives '%s' (a copy or a derived object), so later edits of the "
                                       "rangelist are not seen by the next randomize call" % a)
            # a function that accepts a rangelist argument (isinstance(p, rangelist)) hands that rangelist's own model to ExprInModel
            from sa.ir import guard_facts
            for t in [x for x in walk_local(f.node) if isinstance(x, ast.Call) and call_name(x) == "isinstance" and len(x.args) == 2
                      and norm(x.args[1]) == "rangelist" and isinstance(x.args[0], ast.Name)]:
                pv = t.args[0].id
                ins = [n for n in walk_local(f.node) if isinstance(n, ast.Call) and (dotted(n.func) or "").endswith("ExprInModel") and len(n.args) == 2]
                shared = [n for n in ins if norm(n.args[1]) == pv + ".range_l" and ("isinstance(%s, rangelist)" % pv) in guard_facts(f.node, n)]
                rr.inst("%s: rangelist argument '%s' shared by reference at %d site(s)" % (_q(f), pv, len(shared)))
                if ins and not shared:
                    rr.finding(f, t, _q(f), "RN5: %s accepts a rangelist but builds the membership expression from %s instead of from %s.range_l itself: "
                               "the constraint holds a snapshot, so append/clear/extend on the rangelist after the constraint was elaborated are ignored"
                               % (_q(f), sorted({norm(n.args[1]) for n in ins}), pv), text="rangelist not shared")
                break


# --------------------------------------------------------------------------------------- SH2
@rule("SH2", ["C16", "C06"], "expression scratch list: recording regions start clean and aborted regions do not leak pending expressions", engine="SAI", floor=3)
def sh2(prog, rr):
    # every site that pushes a top-level ('block' / 'inline') scope must have cleared expr_l on every path before, in the same function
    sites = 0
    for f in prog.funcs:
        if f.module.name in ("vsc.impl.ctor",):
            continue
        from sa.ir import find_local
        blocks = set(find_local(f.node, lambda v: isinstance(v, ast.Call) and (dotted(v.func) or "").endswith("ConstraintBlockModel")))
        pushes = [n for n in walk_local(f.node) if isinstance(n, ast.Call) and call_name(n) == "push_constraint_scope" and n.args
                  and isinstance(n.args[0], (ast.Name, ast.Call)) and ("ConstraintBlockModel" in norm(n.args[0]) or norm(n.args[0]) in blocks)]
        if not pushes:
            continue

        class D(Domain):
            track_facts = True

            def initial_user(s):
                return False

            def on_call(s, st, call, ctx):
                nm = call_name(call)
                if nm == "clear_exprs":
                    return [(FALL, st._replace(u=True), None)]
                if nm in ("to_expr", "push_expr") or (isinstance(call.func, ast.Attribute) and call.func.attr == "c"):
                    return [(FALL, st._replace(u=False), None)]
                if call in pushes:
                    s.seen.add((call.lineno, st.u))
                return [(FALL, st, None)]
        d = D()
        d.seen = set()
        Interp(d, func=f).run(f.node)
        for ln, clean in sorted(d.seen):
            sites += 1
            rr.inst("%s line %d: block scope opened with expr_l %s" % (_q(f), ln, "cleared" if clean else "NOT cleared"))
            if not clean and f.name == "build_field_model":
                node = next(p for p in pushes if p.lineno == ln)
                rr.finding(f, node, _q(f), "SH2: a constraint block starts recording without clearing the shared expression list: expressions left "
                           "behind by an aborted construction become statements of this block")
    rr.require(sites >= 3, "block-scope recording sites not found")
    # randomize_with: an aborted with-body must not leave its pending expressions for the next recording region.
    # __exit__ drains them (pop_constraint_scope -> pop_exprs) on every path, including when the body raised.
    for c in prog.classes:
        ex = c.methods.get("__exit__")
        en = c.methods.get("__enter__")
        if ex is None or en is None:
            continue
        if not any(isinstance(n, ast.Call) and call_name(n) == "push_constraint_scope" and "inline" in norm(n) for n in walk_local(en.node)):
            continue

        class E(Domain):
            def initial_user(s):
                return False

            def on_call(s, st, call, ctx):
                if call_name(call) in ("pop_constraint_scope", "clear_exprs", "pop_exprs"):
                    return [(FALL, st._replace(u=True), None)]
                return [(FALL, st, None)]
        outs = Interp(E(), func=ex).run(ex.node)
        exits = outs.fall | outs.ret | {s for s, _, _ in outs.rais}
        rr.inst("%s.__exit__: %d exits, drained on all: %s" % (c.name, len(exits), all(s.u for s in exits)))
        if not all(s.u for s in exits):
            rr.finding(ex, ex.node, c.name + ".__exit__", "SH2: some exit of __exit__ leaves the with-block's pending expressions in the shared list; the next "
                       "constraint recorded anywhere picks them up", text="not drained")


# --------------------------------------------------------------------------------------- CV4
@rule("CV4", ["C10", "C11"], "covergroup.sample copies every argument into the model field of the same index before sampling", engine="SAI", floor=2)
def cv4(prog, rr):
    from sa.ir import find_local

    def model_sample_calls(g):
        ms = set(find_local(g.node, lambda v: norm(v) == "self.get_model()"))
        return [n for n in walk_local(g.node) if isinstance(n, ast.Call) and isinstance(n.func, ast.Attribute) and n.func.attr == "sample"
                and isinstance(n.func.value, ast.Name) and n.func.value.id in ms]
    cands = [f for f in prog.funcs if f.name == "sample" and f.module.name == "vsc.coverage" and model_sample_calls(f)]
    rr.require(cands, "covergroup.sample not found")
    f = cands[0]
    loops = [lp for lp in walk_local(f.node) if isinstance(lp, ast.For) and "range(len(args))" in norm(lp.iter)]
    rr.require(loops, "argument copy loop not found in covergroup.sample")
    lp = loops[0]
    iv = norm(lp.target)
    ms = model_sample_calls(f)[0]
    rr.inst("copy loop line %d, model.sample line %d" % (lp.lineno, ms.lineno))
    if ms.lineno < lp.end_lineno:
        rr.finding(f, ms, "covergroup.sample", "CV4: the model is sampled before the arguments are copied into its fields")
    # the sampled values are also exposed on the covergroup object (callable targets / iffs read them through self) - before the model samples
    exposes = [n for n in walk_local(f.node) if isinstance(n, ast.Call) and call_name(n) == "setattr" and len(n.args) == 3 and norm(n.args[0]) == "self"
               and "args[" in norm(n.args[2])]
    rr.inst("sample arguments exposed on the covergroup at %d site(s)" % len(exposes))
    for e in exposes:
        if e.lineno > ms.lineno:
            rr.finding(f, e, "covergroup.sample", "CV4: the sampled values are put on the covergroup object (%s) only after the model has sampled: a callable iff or "
                       "target that reads self.<parameter> sees the previous sample's arguments, so a cross counts gated-off samples and skips enabled ones"
                       % norm(e)[:60], text="exposed after sampling")
    # the field written is the one fetched with the loop index, and the value comes from args[index]
    gets = [n for n in walk_local(lp) if isinstance(n, ast.Assign) and isinstance(n.value, ast.Call) and call_name(n.value) == "get_field"]
    for g in gets:
        if not g.value.args or norm(g.value.args[0]) != iv:
            rr.finding(f, g, "covergroup.sample", "CV4: the model field is fetched with '%s', not the argument's index" % (norm(g.value.args[0]) if g.value.args else ""))
    fv = norm(gets[0].targets[0]) if gets else None
    writes = [n for n in walk_local(lp) if isinstance(n, ast.Call) and call_name(n) in ("set_val", "set_field")]
    rr.inst("copy writes: %d" % len(writes))
    if not writes:
        rr.finding(f, lp, "covergroup.sample", "CV4: the copy loop writes nothing", text="no writes")
    for w in writes:
        src = norm(w.args[-1]) if w.args else ""
        if "args[%s]" % iv not in src:
            rr.finding(f, w, "covergroup.sample", "CV4: field %s receives '%s', which is not derived from args[%s]" % (iv, src, iv))
        if call_name(w) == "set_val" and recv_text(w) != fv:
            rr.finding(f, w, "covergroup.sample", "CV4: the value is written to '%s', not to the field of index %s" % (recv_text(w), iv))
    # every branch of the copy writes (or raises)

    class D(Domain):
        def initial_user(s):
            return False

        def on_call(s, st, call, ctx):
            if call_name(call) in ("set_val", "set_field"):
                return [(FALL, st._replace(u=True), None)]
            return [(FALL, st, None)]
    fake = ast.FunctionDef(name="body", args=f.node.args, body=lp.body, decorator_list=[], lineno=lp.lineno, col_offset=0)
    outs = Interp(D(), func=f).run(fake, loop_body=True)
    for s in outs.fall:
        if not s.u:
            rr.finding(f, lp, "covergroup.sample", "CV4: for some kind of field the argument is not copied (the coverpoint then samples the previous value)",
                       text="branch without write")


# --------------------------------------------------------------------------------------- RN6
@rule("RN6", ["C04", "C02"], "no constraint expansion reads the current value of a list size that is being solved in the same call", engine="CG+DF", floor=4)
def rn6(prog, rr):
    from sa.cg import solve_path, model_layer
    from tables.exceptions import RN6_BOOKKEEPING
    funcs = [f for f in solve_path(prog) if model_layer(f.module.name)]
    par_cache = {}
    n = 0
    for f in sorted(funcs, key=lambda x: x.qual):
        for c in walk_local(f.node):
            if not (isinstance(c, ast.Call) and isinstance(c.func, ast.Attribute) and c.func.attr in ("get_val", "val")):
                continue
            rv = norm(c.func.value)
            if not (rv.endswith(".size") or rv == "size"):
                continue
            n += 1
            q = _q(f)
            rr.inst("size read %s in %s" % (norm(c), q))
            if f.name in ("post_randomize",) or q in RN6_BOOKKEEPING:
                continue
            guards = []
            if f not in par_cache:
                par = {}
                for x in ast.walk(f.node):
                    for ch in ast.iter_child_nodes(x):
                        par[ch] = x
                par_cache[f] = par
            par = par_cache[f]
            x = c
            while x in par:
                p = par[x]
                if isinstance(p, ast.If):
                    guards.append((norm(p.test), any(x is y for y in p.body)))
                x = p
            ok = any(("not" in t and ("is_rand_sz" in t or "is_used_rand" in t) and pos) or
                     (("is_rand_sz" in t or "is_used_rand" in t) and "not" not in t and not pos) for t, pos in guards)
            if not ok:
                rr.finding(f, c, q, "RN6: %s reads the list's current size while building the constraint; for a random-size list that value is whatever "
                           "an earlier rand set (or the previous call) left there, so sum/product/foreach are expanded over a stale element count and a "
                           "satisfiable size/element coupling fails or is violated" % norm(c))
    rr.note("size reads examined: %d" % n)


# --------------------------------------------------------------------------------------- FT10
@rule("FT10", ["C04"], "elements pre-extended for a random-size solve are dropped again once the size is known", engine="DF", floor=2)
def ft10(prog, rr):
    acb = prog.method("ArrayConstraintBuilder", "visit_field_scalar_array")
    ext = [n for n in walk_local(acb.node) if isinstance(n, ast.Call) and call_name(n) == "add_field"]
    rr.inst("pre-extension sites in ArrayConstraintBuilder.visit_field_scalar_array: %d" % len(ext))
    if not ext:
        return      # nothing is pre-extended, nothing to undo
    scalar_only = all(any("is_scalar" in t for t, pos in _guards_of(acb.node, e)) for e in ext)
    pr = prog.method("FieldArrayModel", "post_randomize")
    trunc = []
    for n in walk_local(pr.node):
        if isinstance(n, ast.Delete) and any(isinstance(t, ast.Subscript) and norm(t.value) == "self.field_l" and isinstance(t.slice, ast.Slice) for t in n.targets):
            trunc.append(n)
        if isinstance(n, ast.Assign) and any(norm(t) == "self.field_l" for t in n.targets) and "self.field_l[" in norm(n.value):
            trunc.append(n)
    rr.inst("FieldArrayModel.post_randomize truncations: %d" % len(trunc))
    if not trunc:
        rr.finding(pr, pr.node, "FieldArrayModel.post_randomize", "FT10: random-size lists are pre-extended to their maximum size before the solve (%s) but the "
                   "extra elements are never removed afterwards: append()/extend() then add behind stale elements and the length jumps to the storage size"
                   % "ArrayConstraintBuilder.visit_field_scalar_array", text="no truncation to size")
        return
    for t in trunc:
        txt = norm(t)
        if "self.size.get_val()" not in txt:
            rr.finding(pr, t, "FieldArrayModel.post_randomize", "FT10: the element storage is not cut at the solved size: %s" % txt)
        g = [x for x, pos in _guards_of(pr.node, t) if pos]
        if not any("is_rand_sz" in x for x in g) or (scalar_only and not any("is_scalar" in x for x in g)):
            rr.finding(pr, t, "FieldArrayModel.post_randomize", "FT10: truncation is not restricted to the lists that were pre-extended (guards: %s); "
                       "fixed-size or object lists would lose user elements" % g)


def _guards_of(fnode, node):
    par = {}
    for n in ast.walk(fnode):
        for ch in ast.iter_child_nodes(n):
            par[ch] = n
    out = []
    n = node
    while n in par:
        p = par[n]
        if isinstance(p, ast.If):
            out.append((norm(p.test), any(n is x for x in p.body)))
        n = p
    return out


# --------------------------------------------------------------------------------------- LW8
@rule("LW8", ["C02"], "the constant folder evaluates every expression kind itself (no operator inherits the do-nothing traversal)", engine="XS", floor=8)
def lw8(prog, rr):
    from tables.exceptions import LW8_INHERITED_OK
    mv = prog.cls("ModelVisitor")
    xe = prog.cls("XExprEvaluator")
    kinds = sorted(n for n in mv.methods if n.startswith("visit_expr_"))
    rr.require(len(kinds) >= 12, "ModelVisitor expression handlers not found")
    for k in kinds:
        f = prog.lookup(xe, k)
        own = f is not None and f.cls is xe
        rr.inst("XExprEvaluator.%s %s" % (k, "own" if own else "inherited from " + (f.cls.name if f else "?")))
        if own:
            # an own handler must decide is_x (directly or by delegating to a handler / field that does)
            t = norm(f.node)
            if "self.is_x" not in t and ".accept(self)" not in t:
                rr.finding(f, f.node, "XExprEvaluator." + k, "LW8: the handler neither sets is_x nor delegates", text="no result")
            continue
        if k in LW8_INHERITED_OK:
            rr.note("inherited %s accepted: %s" % (k, LW8_INHERITED_OK[k][:80]))
            continue
        rr.finding(xe, xe.node, "XExprEvaluator." + k, "LW8: %s is inherited from the default traversal, which merely visits the operands: the folded value is "
                   "that of the last operand visited and the operator is ignored, so a constant if-condition using it keeps the wrong branch" % k,
                   text="inherited " + k)
    # the folder is what decides a branch at expansion time
    acb = prog.method("ArrayConstraintBuilder", "visit_constraint_if_else")
    rr.inst("ArrayConstraintBuilder.visit_constraint_if_else uses XExprEvaluator: %s" % ("XExprEvaluator().eval(" in norm(acb.node)))


# --------------------------------------------------------------------------------------- LW10
VALUE_PRESERVING_DEFAULTS = {
    "visit_expr_dynamic": "the default descends into the single expanded expression e.expr(); its handler produces the copy",
}


@rule("LW10", ["C01", "C02", "C04"], "the constraint copier (foreach expansion) has a producing handler for every expression kind", engine="XS+SAI", floor=20)
def lw10(prog, rr):
    mv = prog.cls("ModelVisitor")
    base = prog.cls("ConstraintCopyBuilder")
    kinds = sorted(n for n in mv.methods if n.startswith("visit_expr_"))
    fam = [c for c in prog.subclasses(base) if c is base or callgraph_live(prog, c)]
    for c in sorted(fam, key=lambda k: k.name):
        for k in kinds:
            f = prog.lookup(c, k)
            rr.inst("%s.%s -> %s" % (c.name, k, f.cls.name if f else None))
            if f is None:
                continue
            if f.cls is mv:
                # forwarding defaults (array_sum -> dynamic) are followed
                tgt = k
                body = sig_body(f.node)
                if len(body) == 1 and isinstance(body[0], ast.Expr) and isinstance(body[0].value, ast.Call) and norm(body[0].value.func).startswith("self.visit_expr_"):
                    tgt = body[0].value.func.attr
                    g = prog.lookup(c, tgt)
                    if g is not None and g.cls is not mv:
                        continue
                if tgt in VALUE_PRESERVING_DEFAULTS:
                    continue
                if c is not base and prog.lookup(base, k).cls is mv:
                    continue        # reported once, at the copier itself
                rr.finding(c, c.node, "%s.%s" % (c.name, k), "LW10: %s has no copy handler in %s: the inherited traversal merely visits the operands, so the copy of "
                           "such an expression is whatever its last operand produced (a part-select becomes its index literal) or None; every foreach body "
                           "is rebuilt through this copier" % (k.replace("visit_expr_", ""), c.name), text="inherited " + k)
                continue
            # own handler: every normal path in copy mode assigns self._expr or delegates to a producing handler of the family
            res = set()

            class D(Domain):
                def initial_user(s):
                    return False

                def on_assign(s, st, stmt):
                    if any(t == "self._expr" for t in assigned_targets(stmt)):
                        return st._replace(u=True)
                    return st

                def on_call(s, st, call, ctx):
                    fn = call.func
                    if isinstance(fn, ast.Attribute) and fn.attr == k and not (isinstance(fn.value, ast.Name) and fn.value.id == "self"):
                        return [(FALL, st._replace(u=True), None)]       # super().visit_K / Base.visit_K(self, ..)
                    return [(FALL, st, None)]

                def decide(s, st, test, ctx):
                    t = norm(test).replace(" ", "")
                    if t in ("self.do_copy_level>0",):
                        return [(True, st)]
                    if t in ("self.phase!=1", "self.phase==0"):
                        return [(False, st)]
                    if t in ("self.phase==1",):
                        return [(True, st)]
                    return super().decide(st, test, ctx)
            outs = Interp(D(), func=f).run(f.node)
            exits = outs.fall | outs.ret
            if any(not s.u for s in exits):
                rr.finding(f, f.node, "%s.%s" % (f.cls.name, k), "LW10: in copy mode some path through %s.%s produces no expression (self._expr stays None): the "
                           "enclosing expression is then built with a None operand and randomize() fails with an internal AttributeError"
                           % (f.cls.name, k), text="no _expr on some path")


def callgraph_live(prog, c):
    from sa.cg import callgraph
    return callgraph(prog).live_class(c)
