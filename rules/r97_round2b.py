"""Rules added after the second half of the second seeded round: CV3b (cache copy unconditional), CLONE, BD7 (builder call sites),
NM3 (no state on persistent model objects from per-call helpers), DS3 (dist target literal typed as the field), SH6 (rollback reaches what the
installers reach), CB3 (array delegation unconditional), FT13 (twin setters), FT1 is generalised in r50, CV8b (zip needs a length guard),
FOLD2 (list accumulators on the solve path)."""
import ast

from sa.core import rule
from sa.ir import sig_body, norm, dotted, call_name, recv_text, walk_local, names_in, calls_in_order, AnalysisError, assigned_targets
from sa.cg import solve_path, model_layer


def _q(f):
    return ("%s.%s" % (f.cls.name, f.name)) if f.cls is not None else f.name


def _guards(fnode, node):
    """(test text, in-body?) of the enclosing ifs, plus the canonical facts of sa.ir.guard_facts as (fact, True): inverted
    branches and early exits are seen as the positive guards they are equivalent to"""
    from sa.ir import guard_facts
    par = {}
    for n in ast.walk(fnode):
        for ch in ast.iter_child_nodes(n):
            par[ch] = n
    out = []
    n = node
    while n in par:
        p = par[n]
        if isinstance(p, ast.If):
            out.append((norm(p.test), any(n is x for x in p.body)))
        n = p
    have = {t for t, pos in out if pos}
    for f in guard_facts(fnode, node, with_raise=False):
        if f not in have:
            out.append((f, True))
            have.add(f)
    return out


def _loops(fnode, node):
    par = {}
    for n in ast.walk(fnode):
        for ch in ast.iter_child_nodes(n):
            par[ch] = n
    out = []
    n = node
    while n in par:
        n = par[n]
        if isinstance(n, (ast.For, ast.While)):
            out.append(n)
    return out


# --------------------------------------------------------------------------------------- CV3b
@rule("CV3b", ["C11", "C12"], "the instance's sampled values and iff results are copied to the type model unconditionally, for every coverpoint and cross", engine="DF", floor=2)
def cv3b(prog, rr):
    f = prog.method("CovergroupModel", "sample")
    calls = [n for n in walk_local(f.node) if isinstance(n, ast.Call) and call_name(n) == "set_target_value_cache"]
    rr.require(len(calls) >= 2, "cache copy calls not found in CovergroupModel.sample")
    for c in calls:
        g = [t for t, pos in _guards(f.node, c) if t.replace(" ", "") not in ("self.type_cgisnotNone", "self.type_cg!=None")]
        rr.inst("cache copy %s guards %s" % (recv_text(c), g))
        if g:
            rr.finding(f, c, "CovergroupModel.sample", "CV3b: the copy to the type model is skipped under %s: the type item then keeps the value another instance (or an earlier "
                       "sample) left in its cache and counts or drops samples accordingly" % g)
        lp = _loops(f.node, c)
        if not lp or "range(len(self." not in norm(lp[0].iter):
            rr.finding(f, c, "CovergroupModel.sample", "CV3b: the copy does not run over every item of the covergroup")


# --------------------------------------------------------------------------------------- CLONE
CLONE_COMPLETE = ("CoverageOptionsModel", "ConstraintBlockModel", "WildcardBinspec")


@rule("CLONE", ["C12", "C07"], "clone() of option-like records copies every field the constructor defines", engine="XS", floor=2)
def clone(prog, rr):
    for cn in CLONE_COMPLETE:
        c = prog.cls(cn)
        init, cl = c.methods.get("__init__"), c.methods.get("clone")
        rr.require(init is not None and cl is not None, "%s: __init__/clone missing" % cn)
        attrs = []
        for n in walk_local(init.node):
            if isinstance(n, ast.Assign):
                for t in assigned_targets(n):
                    if t.startswith("self.") and t.count(".") == 1 and t[5:] not in attrs:
                        attrs.append(t[5:])
        copied = set()
        ctor_args = 0
        for n in walk_local(cl.node):
            if isinstance(n, ast.Assign):
                for t in assigned_targets(n):
                    if "." in t and not t.startswith("self."):
                        copied.add(t.split(".", 1)[1].rstrip("[]"))
            if isinstance(n, ast.Call) and (dotted(n.func) or "").split(".")[-1] == cn:
                for a in n.args:
                    for x in ast.walk(a):
                        if isinstance(x, ast.Attribute) and isinstance(x.value, ast.Name) and x.value.id == "self":
                            copied.add(x.attr)
            if isinstance(n, ast.Call) and isinstance(n.func, ast.Attribute) and n.func.attr in ("append", "extend") and not norm(n.func.value).startswith("self."):
                copied.add(norm(n.func.value).split(".")[-1])
        from tables.exceptions import CLONE_NOT_COPIED
        for a in attrs:
            rr.inst("%s.clone copies %s: %s" % (cn, a, a in copied))
            if a not in copied and "%s.%s" % (cn, a) not in CLONE_NOT_COPIED:
                rr.finding(cl, cl.node, cn + ".clone", "CLONE: clone() does not copy '%s': the copy silently falls back to the constructor default (for coverage options "
                           "the type model, which is a clone of the first instance, then applies a different threshold/weight than its instances)" % a,
                           text="clone misses " + a)


# --------------------------------------------------------------------------------------- BD7
@rule("BD7", ["C14"], "the three bound builders are called with the expression's own operator and matching operand roles", engine="DF", floor=3)
def bd7(prog, rr):
    f = prog.method("VariableBoundVisitor", "visit_expr_bin")
    e = f.params[1]
    from sa.ir import find_local
    lfm = find_local(f.node, lambda v: isinstance(v, ast.Call) and call_name(v) == "field" and (e + ".lhs") in norm(v))
    rfm = find_local(f.node, lambda v: isinstance(v, ast.Call) and call_name(v) == "field" and (e + ".rhs") in norm(v))
    lb = find_local(f.node, lambda v: isinstance(v, ast.Subscript) and norm(v.value) == "self.bound_m" and norm(v.slice) in lfm)
    rb = find_local(f.node, lambda v: isinstance(v, ast.Subscript) and norm(v.value) == "self.bound_m" and norm(v.slice) in rfm)
    lnr = find_local(f.node, lambda v: isinstance(v, ast.Call) and call_name(v) == "is_nonrand" and (e + ".lhs") in norm(v))
    rnr = find_local(f.node, lambda v: isinstance(v, ast.Call) and call_name(v) == "is_nonrand" and (e + ".rhs") in norm(v))
    rr.require(len(lb) == 1 and len(rb) == 1 and lnr and rnr, "visit_expr_bin: bound / non-randomness locals not recognised")
    LB, RB = lb[0], rb[0]
    want = {
        "lhsvar_rhsvar_propagator": (LB, e + ".op", RB),
        "lhsvar_rhsnre_propagator": (LB, e + ".op", e + ".rhs"),
        "lhsnre_rhsvar_propagator": (e + ".lhs", e + ".op", RB),
    }
    seen = set()
    for n in walk_local(f.node):
        if isinstance(n, ast.Call) and call_name(n) in want:
            nm = call_name(n)
            seen.add(nm)
            a = tuple(norm(x) for x in n.args)
            rr.inst("%s(%s)" % (nm, ", ".join(a)))
            if a != want[nm]:
                rr.finding(f, n, "VariableBoundVisitor.visit_expr_bin", "BD7: %s is called with (%s); expected (%s): a translated operator or swapped operand changes which "
                           "bound is narrowed and by how much, and feasible boundary values fall out of the inferred range" % (nm, ", ".join(a), ", ".join(want[nm])))
    # guards: the expression side is non-random on the path that builds an expression bound
    for nm, flag in (("lhsvar_rhsnre_propagator", rnr[0]), ("lhsnre_rhsvar_propagator", lnr[0])):
        for n in walk_local(f.node):
            if isinstance(n, ast.Call) and call_name(n) == nm:
                g = [t for t, pos in _guards(f.node, n) if pos]
                if flag not in g:
                    rr.finding(f, n, "VariableBoundVisitor.visit_expr_bin", "BD7: %s is built without the `%s` test: a bound computed from an expression that "
                               "contains random fields uses their previous values" % (nm, flag))
    for nm in want:
        if nm not in seen:
            rr.finding(f, f.node, "VariableBoundVisitor.visit_expr_bin", "BD7: %s is no longer used by visit_expr_bin (its operator table is the checked one, BD3)" % nm,
                       text="unused " + nm)


# --------------------------------------------------------------------------------------- NM3
PERSISTENT_SUFFIX = ("_e", "_expr", "expr", "in_e", "fm", "field", "constraint")


@rule("NM3", ["C14", "C03"], "per-call helpers (propagators, visitors) store nothing on the persistent expression / constraint objects they are given", engine="EFF", floor=10)
def nm3(prog, rr):
    em = prog.cls("ExprModel")
    expr_classes = {c.name for c in prog.subclasses(em)}
    for c in prog.classes:
        if not (c.name.startswith("VariableBound") and c.name.endswith("Propagator")):
            continue
        init = c.methods.get("__init__")
        held = {}
        if init is not None:
            ann = {a.arg: (dotted(a.annotation) or "").split(".")[-1] if a.annotation is not None else None for a in init.node.args.args}
            for n in walk_local(init.node):
                if isinstance(n, ast.Assign) and isinstance(n.value, ast.Name) and n.value.id in ann:
                    for t in assigned_targets(n):
                        if t.startswith("self."):
                            held[t] = ann[n.value.id]
        persistent = {t for t, ty in held.items() if (ty in expr_classes) or (ty is None and t.split(".")[-1].endswith(PERSISTENT_SUFFIX))}
        for name, f in c.methods.items():
            rr.inst("%s.%s (persistent refs %s)" % (c.name, name, sorted(persistent)))
            for n in walk_local(f.node):
                if isinstance(n, (ast.Assign, ast.AugAssign)):
                    for t in assigned_targets(n):
                        base = ".".join(t.split(".")[:2])
                        if base in persistent and t.count(".") >= 2:
                            rr.finding(f, n, "%s.%s" % (c.name, name), "NM3: the propagator writes %s on an expression object of the object's constraint tree; that object "
                                       "outlives the call, so what is cached there (e.g. evaluated range ends of non-random fields) is reused by later calls although "
                                       "the fields have changed" % t)


# --------------------------------------------------------------------------------------- DS3
@rule("DS3", ["C15"], "the value requested for a dist field is compared as a literal of the field's own width and signedness", engine="DF", floor=1)
def ds3(prog, rr):
    f = prog.method("SolveGroupSwizzlerPartsel", "swizzle_field")
    fp = f.params[1]
    lits = []
    for n in walk_local(f.node):
        if isinstance(n, ast.Call) and (dotted(n.func) or "").endswith("ExprLiteralModel"):
            g = [t for t, pos in _guards(f.node, n) if pos]
            if any("dist_field_m" in t for t in g):
                lits.append(n)
    rr.require(len(lits) >= 1, "dist target literals not found in swizzle_field")
    for n in lits:
        a = [norm(x) for x in n.args]
        rr.inst("dist target literal (%s)" % ", ".join(a))
        if len(a) != 3 or a[1] != fp + ".is_signed" or a[2] != fp + ".width":
            rr.finding(f, n, "SolveGroupSwizzlerPartsel.swizzle_field", "DS3: the dist target is built as ExprLiteralModel(%s): with a signedness/width other than the field's own, a "
                       "negative value of a narrow signed field becomes an unsatisfiable equality, the request is silently dropped and the weighted choice is replaced "
                       "by the solver's default" % ", ".join(a))


# --------------------------------------------------------------------------------------- SH6
@rule("SH6", ["C16", "C07", "C09", "C15"], "the rollback visitor reaches every block the installing builders rewrite", engine="XS", floor=3)
def sh6(prog, rr):
    inst = ["ArrayConstraintBuilder", "DistConstraintBuilder"]
    rb = prog.cls("ConstraintOverrideRollbackVisitor")
    for h in ("visit_constraint_block", "visit_constraint_scope", "visit_composite_field", "visit_constraint_if_else", "visit_constraint_implies",
              "visit_constraint_foreach", "visit_constraint_inline_scope"):
        fr = prog.lookup(rb, h)
        rfilter = _filters(fr)
        for ic in inst:
            fi = prog.lookup(prog.cls(ic), h)
            ifilter = _filters(fi)
            rr.inst("%s: rollback via %s %s / %s via %s %s" % (h, fr.cls.name if fr else None, sorted(rfilter), ic, fi.cls.name if fi else None, sorted(ifilter)))
            extra = rfilter - ifilter
            if extra:
                rr.finding(fr, fr.node, "%s.%s" % (fr.cls.name, h), "SH6: the rollback visitor skips part of the tree (%s) that %s still rewrites: temporary foreach/dist "
                           "replacements installed there survive the call and the next call solves a stale expansion" % (sorted(extra), ic))


def _filters(f):
    """attribute tests that make the handler skip its descent"""
    out = set()
    if f is None:
        return out
    for n in walk_local(f.node):
        if isinstance(n, ast.If):
            t = norm(n.test)
            if any(w in t for w in (".enabled", "is_used_rand", "is_declared_rand", "rand_mode")):
                out.add(t)
    return out


# --------------------------------------------------------------------------------------- CB3
@rule("CB3", ["C17"], "list models forward pre/post_randomize to the composite propagation unconditionally", engine="DF", floor=2)
def cb3(prog, rr):
    fa = prog.cls("FieldArrayModel")
    for phase in ("pre_randomize", "post_randomize"):
        f = fa.methods.get(phase)
        if f is None:
            continue
        dele = [n for n in walk_local(f.node) if isinstance(n, ast.Call) and call_name(n) == phase]
        for d in dele:
            g = _guards(f.node, d)
            rr.inst("FieldArrayModel.%s delegation guards %s" % (phase, [t for t, _ in g]))
            if g or _loops(f.node, d):
                rr.finding(f, d, "FieldArrayModel." + phase, "CB3: the propagation to the list's elements happens only under %s: for the other kind of list the elements' %s "
                           "callbacks never run (while the opposite phase still does)" % ([t for t, _ in g], phase))


# --------------------------------------------------------------------------------------- FT13
@rule("FT13", ["C18"], "the two scalar setters (set_val and the val property) are the same code", engine="XS", floor=1)
def ft13(prog, rr):
    c = prog.cls("type_base", "vsc.types")
    a, b = c.methods.get("set_val"), c.methods.get("val@setter")
    rr.require(a is not None and b is not None, "type_base.set_val / val setter not found")

    def canon(f):
        p = f.params[1]
        t = ast.parse(norm(sig_body(f.node)))
        for n in ast.walk(t):
            if isinstance(n, ast.Name) and n.id == p:
                n.id = "V"
        return ast.unparse(t)
    ca, cb = canon(a), canon(b)
    rr.inst("type_base.set_val vs val setter identical: %s" % (ca == cb))
    if ca != cb:
        al, bl = ca.splitlines(), cb.splitlines()
        diff = [(x, y) for x, y in zip(al, bl) if x != y][:2] or [("%d lines" % len(al), "%d lines" % len(bl))]
        rr.finding(a, a.node, "type_base.set_val", "FT13: set_val and the `val` setter normalise differently (%s): the same assignment gives a different stored value depending "
                   "on the access path" % diff, text="twin setters differ")


# --------------------------------------------------------------------------------------- CV8b
@rule("CV8b", ["C12", "C19"], "equals() that pairs two element lists with zip() first compares their lengths", engine="XS", floor=2)
def cv8b(prog, rr):
    n = 0
    for c in prog.classes:
        e = c.methods.get("equals")
        if e is None:
            continue
        for z in walk_local(e.node):
            if isinstance(z, ast.Call) and isinstance(z.func, ast.Name) and z.func.id == "zip" and len(z.args) == 2:
                n += 1
                a, b = norm(z.args[0]), norm(z.args[1])
                t = norm(e.node).replace(" ", "")
                ok = ("len(%s)==len(%s)" % (a, b)) in t or ("len(%s)!=len(%s)" % (a, b)) in t
                rr.inst("%s.equals zip(%s, %s) length-guarded: %s" % (c.name, a, b, ok))
                if not ok:
                    rr.finding(e, z, c.name + ".equals", "CV8b: zip(%s, %s) stops at the shorter list and no length comparison precedes it: a specification that is a prefix of "
                               "another compares equal, so differently parameterised covergroups share one type model" % (a, b))
        # index loops over one side's length need the guard too
        for lp in walk_local(e.node):
            if isinstance(lp, ast.For) and norm(lp.iter).startswith("range(len(self."):
                lst = norm(lp.iter)[len("range(len("):-2]
                oth = lst.replace("self.", e.params[1] + ".", 1)
                t = norm(e.node).replace(" ", "")
                n += 1
                ok = ("len(%s)==len(%s)" % (lst, oth)) in t
                rr.inst("%s.equals index loop over %s length-guarded: %s" % (c.name, lst, ok))
                if not ok:
                    rr.finding(e, lp, c.name + ".equals", "CV8b: element-wise comparison over len(%s) without comparing it with len(%s)" % (lst, oth))
    rr.require(n >= 2, "no paired-list comparisons found in equals() methods")


# --------------------------------------------------------------------------------------- FOLD2
@rule("FOLD2", ["C20", "C14", "C01", "C04"], "list accumulators on the solve path are extended, not replaced, inside their loop", engine="DF", floor=5)
def fold2(prog, rr):
    funcs = [f for f in solve_path(prog) if model_layer(f.module.name)]
    n = 0
    for f in sorted(funcs, key=lambda x: x.qual):
        inits = {}
        for a in walk_local(f.node):
            if isinstance(a, ast.Assign) and len(a.targets) == 1 and isinstance(a.targets[0], ast.Name) and isinstance(a.value, ast.List) and not a.value.elts:
                inits.setdefault(a.targets[0].id, []).append(a)
        for name, ini in inits.items():
            grows = [c for c in walk_local(f.node) if isinstance(c, ast.Call) and call_name(c) in ("append", "extend") and recv_text(c) == name and _loops(f.node, c)]
            reassign = [a for a in walk_local(f.node) if isinstance(a, ast.Assign) and any(norm(t) == name for t in a.targets) and a not in ini and _loops(f.node, a)]
            if not grows and not reassign:
                continue
            n += 1
            rr.inst("%s list accumulator '%s': %d grow sites, %d re-assignments in loops" % (_q(f), name, len(grows), len(reassign)))
            for a in reassign:
                lp = _loops(f.node, a)[0]
                # re-initialisation at the top of an *outer* loop body is fine (a per-iteration list); replacing inside the loop that fills it is not
                init_in_same_loop = any(lp in _loops(f.node, i) for i in ini)
                uses_after = any(isinstance(x, ast.Name) and x.id == name and x.lineno > getattr(lp, "end_lineno", lp.lineno) for x in walk_local(f.node))
                if name not in names_in(a.value) and not (isinstance(a.value, ast.List) and not a.value.elts) and not init_in_same_loop and uses_after:
                    rr.finding(f, a, _q(f), "FOLD2: '%s' is filled over the iterations of a loop but '%s = %s' replaces it inside that loop: only the last iteration's "
                               "elements survive (with several fields in an ordering group only the last one picked gets its random target)" % (name, name, norm(a.value)[:60]))
    rr.note("list accumulators examined: %d" % n)


# --------------------------------------------------------------------------------------- BD5
@rule("BD5", ["C14", "C10", "C19"], "interval coalescing keeps the larger upper bound when it merges a range into its predecessor", engine="DF", floor=3)
def bd5(prog, rr):
    cov = prog.module("vsc.coverage")
    wba = cov.classes.get("wildcard_bin_array")
    sites = [
        (prog.method("RangelistModel", "compact"), "C10"),
        (prog.method("VariableBoundInPropagator", "propagate"), "C14"),
    ]
    if wba is not None and "__init__" in wba.methods:
        sites.append((wba.methods["__init__"], "C19"))
    for f, _ in sites:
        merges = []
        for n in walk_local(f.node):
            if not isinstance(n, ast.Assign) or not _loops(f.node, n):
                continue
            t = n.targets[0]
            # X[..][1] = V     or     X[i] = (X[i][0], V)
            if isinstance(t, ast.Subscript) and norm(t.slice) == "1" and isinstance(t.value, ast.Subscript):
                merges.append((n, n.value, norm(t)))
            elif isinstance(t, ast.Subscript) and isinstance(n.value, ast.Tuple) and len(n.value.elts) == 2 and norm(n.value.elts[0]) == norm(t) + "[0]":
                merges.append((n, n.value.elts[1], norm(t) + "[1]"))
        # only merges that sit under an overlap test (a comparison mentioning an upper bound [1] and a lower bound [0])
        merges = [(n, v, cur) for n, v, cur in merges
                  if any("[1]" in g and "[0]" in g for g, pos in _guards(f.node, n)) or f.name == "compact"]
        rr.inst("%s: %d merge assignments" % (_q(f), len(merges)))
        if not merges:
            rr.finding(f, f.node, _q(f), "BD5: no interval-merge step recognised in %s" % _q(f), text="no merge")
        for n, v, cur in merges:
            ok = isinstance(v, ast.Call) and isinstance(v.func, ast.Name) and v.func.id == "max" and any(norm(a) == cur for a in v.args) and len(v.args) == 2 \
                and all(norm(a).endswith("[1]") for a in v.args)
            if not ok:
                rr.finding(f, n, _q(f), "BD5: merging a range into its predecessor sets the upper bound to '%s' instead of max(%s, <merged range's upper>): when the later "
                           "range lies inside the earlier one (or the ranges are not ordered by upper bound) values above it are cut off" % (norm(v), cur))


# --------------------------------------------------------------------------------------- LW13
PYOP_DUNDER = {ast.Add: "__add__", ast.Sub: "__sub__", ast.Mult: "__mul__", ast.Div: "__truediv__", ast.FloorDiv: "__floordiv__", ast.Mod: "__mod__",
               ast.BitAnd: "__and__", ast.BitOr: "__or__", ast.BitXor: "__xor__", ast.LShift: "__lshift__", ast.RShift: "__rshift__",
               ast.Eq: "__eq__", ast.NotEq: "__ne__", ast.Lt: "__lt__", ast.LtE: "__le__", ast.Gt: "__gt__", ast.GtE: "__ge__", ast.Invert: "__invert__"}


@rule("LW13", ["C02"], "every operator the constant evaluators apply to operand values is defined by the value class", engine="XS", floor=10)
def lw13(prog, rr):
    from rules.r20_lowering import REF_PY
    vs = prog.cls("ValueScalar")
    have = set()
    for k in prog.mro(vs):
        have |= set(k.methods)
    fe = prog.method("XExprEvaluator", "visit_expr_bin")
    fv = prog.method("ExprBinModel", "val")
    used = {}
    for f in (fe, fv):
        # operand locals: assigned from the evaluator's result (`self.val`) or from an operand's `.val()`
        opnd = set()
        for n in walk_local(f.node):
            if isinstance(n, ast.Assign) and len(n.targets) == 1 and isinstance(n.targets[0], ast.Name):
                v = n.value
                if (isinstance(v, ast.Attribute) and v.attr == "val") or \
                        (isinstance(v, ast.Call) and isinstance(v.func, ast.Attribute) and v.func.attr == "val"):
                    opnd.add(n.targets[0].id)
        for n in walk_local(f.node):
            ops = []
            if isinstance(n, ast.BinOp) and isinstance(n.left, ast.Name):
                ops = [type(n.op)]
            elif isinstance(n, ast.Compare) and isinstance(n.left, ast.Name):
                ops = [type(o) for o in n.ops]
            elif isinstance(n, ast.UnaryOp) and isinstance(n.op, ast.Invert) and isinstance(n.operand, ast.Name):
                ops = [ast.Invert]
            for o in ops:
                if o in PYOP_DUNDER and any(x in opnd for x in names_in(n) if "." not in x):
                    used.setdefault(PYOP_DUNDER[o], (f, n))
    rr.require(len(used) >= 10, "operator uses in the constant evaluators not recognised (%d)" % len(used))
    for d, (f, n) in sorted(used.items()):
        rr.inst("value operator %s used in %s: defined=%s" % (d, _q(f), d in have))
        if d not in have:
            rr.finding(vs, vs.node, "ValueScalar." + d, "LW13: %s applies `%s` to operand values (%s) but ValueScalar does not define %s: folding a constant "
                       "if-condition that uses this operator raises TypeError on a satisfiable program" % (_q(f), norm(n)[:40], _q(f), d), text="missing " + d)
