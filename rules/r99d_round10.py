"""Rules added after the tenth step (seventh seeded round)."""
import ast

from sa.core import rule
from sa.ir import sig_body, norm, dotted, call_name, recv_text, walk_local, names_in, local_defs, expand_locals
from sa.ir import guard_facts as _guard_facts_all


def guard_facts(fnode, node):
    return _guard_facts_all(fnode, node, with_raise=False)


def _q(f):
    return ("%s.%s" % (f.cls.name, f.name)) if f.cls is not None else f.name


def _pos(n):
    return (n.lineno, n.col_offset)


# --------------------------------------------------------------------------------------- UV1
@rule("UV1", ["C01", "C02"], "unique_vec compares every pair of lists, and two lists differ when ANY position differs", engine="DF", floor=2)
def uv1(prog, rr):
    b = prog.method("ConstraintUniqueVecModel", "build")
    fors = [lp for lp in walk_local(b.node) if isinstance(lp, ast.For)]
    pair_loops = []
    for lp in fors:
        it = norm(lp.iter)
        if "zip(" in it and "[1:]" in it:
            rr.finding(b, lp, _q(b), "UV1: lists are compared with their successor only (%s): non-adjacent lists may come out equal" % it, text="adjacent pairs only")
            pair_loops.append(lp)
        if isinstance(lp.iter, ast.Call) and call_name(lp.iter) == "range" and len(lp.iter.args) == 2 and "+ 1" in norm(lp.iter.args[0]) \
                and "len(" in norm(lp.iter.args[1]):
            pair_loops.append(lp)
        if "combinations(" in it:
            pair_loops.append(lp)
    rr.inst("unique_vec pair enumeration loops: %d" % len(pair_loops))
    rr.require(pair_loops, "pair enumeration not recognised in ConstraintUniqueVecModel.build")
    ne = prog.method("ConstraintUniqueVecModel", "_mkVecNotEq")
    accs = [c for c in walk_local(ne.node) if isinstance(c, ast.Call) and call_name(c) in ("And", "Or") and recv_text(c) == ne.params[1]]
    rr.inst("_mkVecNotEq folds with %s" % sorted({call_name(c) for c in accs}))
    for c in accs:
        if call_name(c) == "And":
            rr.finding(ne, c, _q(ne), "UV1: two lists count as different only when EVERY position differs (And of the element inequalities): a satisfiable "
                       "unique_vec over small element domains fails to solve", text="and of inequalities")
    rr.require(accs, "_mkVecNotEq: fold over positions not found")


# --------------------------------------------------------------------------------------- RN11
@rule("RN11", ["C03", "C16", "C02"], "the failure path of a solve disposes and locks the fields of EVERY rand set of the call", engine="DF", floor=1)
def rn11(prog, rr):
    f = prog.method("Randomizer", "randomize")
    n = 0
    for lp in walk_local(f.node):
        if not isinstance(lp, ast.For):
            continue
        body_calls = {call_name(c) for c in walk_local(lp) if isinstance(c, ast.Call)}
        locks = [c for c in walk_local(lp) if isinstance(c, ast.Call) and call_name(c) == "set_used_rand" and c.args and norm(c.args[0]) == "False"]
        if "randsets" in norm(lp.iter) and "dispose" in body_calls and locks and any("SolveFailure" in norm(r) for r in walk_local(f.node) if isinstance(r, ast.Raise) and r.lineno > lp.lineno):
            g = guard_facts(f.node, lp)
            if not any("Sat()" in t or "SAT" in t for t in g):
                continue
            n += 1
            rr.inst("failure clean-up iterates %s" % norm(lp.iter))
            if isinstance(lp.iter, ast.Subscript) or not norm(lp.iter).endswith("randsets()"):
                rr.finding(f, lp, _q(f), "RN11: the clean-up after a failed solve covers %s only: fields of the rand sets that were not attempted stay used-as-random, "
                           "and a later call that merely references them overwrites them" % norm(lp.iter), text="partial failure clean-up")
    rr.require(n >= 1, "failure clean-up loop not found in Randomizer.randomize")


# --------------------------------------------------------------------------------------- AR2
@rule("AR2", ["C04", "C08"], "every under-populated random-size object list gets its size limit (the shared block is only created once)", engine="DF", floor=1)
def ar2(prog, rr):
    f = prog.method("ArrayConstraintBuilder", "visit_field_scalar_array")
    adds = [c for c in walk_local(f.node) if isinstance(c, ast.Call) and call_name(c) == "addConstraint" and "constraint_block" in (recv_text(c) or "")]
    rr.inst("size-limit additions: %d" % len(adds))
    ok = [c for c in adds if not any("constraint_block is None" in t or "constraint_block == None" in t for t in guard_facts(f.node, c))]
    if not ok:
        rr.finding(f, f.node, _q(f), "AR2: the size limit of an under-populated list reaches the shared block only while that block is being created: the second "
                   "such list of a call gets no limit and can be solved to a size larger than the elements it holds", text="size limit only for first list")


# --------------------------------------------------------------------------------------- RSNB1
@rule("RSNB1", ["C05", "C02", "C03"], "solver nodes are built for ALL fields of a rand set (non-random ones are constants a soft constraint may mention)", engine="DF", floor=1)
def rsnb1(prog, rr):
    from rules.r40_randness import _full_field_getters
    full = _full_field_getters(prog)
    b = prog.method("RandSetNodeBuilder", "build")
    p = b.params[1]
    loops = [lp for lp in walk_local(b.node) if isinstance(lp, ast.For) and isinstance(lp.iter, ast.Call) and recv_text(lp.iter) == p
             and any(isinstance(c, ast.Call) and call_name(c) == "accept" for c in walk_local(lp)) and "field" in call_name(lp.iter)]
    rr.require(loops, "field walk not found in RandSetNodeBuilder.build")
    for lp in loops:
        g = call_name(lp.iter)
        rr.inst("RandSetNodeBuilder.build walks %s()" % g)
        if g not in full:
            rr.finding(b, lp, _q(b), "RSNB1: only %s() get a solver node before the constraints are built: a non-random field mentioned by a soft constraint alone "
                       "is never built and randomize() raises" % g, text="partial field build")


# --------------------------------------------------------------------------------------- CP1
@rule("CP1", ["C05", "C01", "C04"], "in copy mode the constraint copier always returns new nodes (never the statement / expression it was given)", engine="XS", floor=1)
def cp1(prog, rr):
    c = prog.cls("ConstraintCopyBuilder")
    n = 0
    for name, m in sorted(c.methods.items()):
        if not name.startswith("visit_") or len(m.params) < 2 or name in ("visit_expr_fieldref", "visit_expr_literal", "visit_expr_indexed_fieldref"):
            continue        # leaves without operands are shared by design (they hold no per-copy state)
        p = m.params[1]
        n += 1
        for x in walk_local(m.node):
            vals = []
            if isinstance(x, ast.Assign) and any(norm(t) in ("self._expr", "ret") for t in x.targets):
                vals.append(x.value)
            if isinstance(x, ast.Call) and call_name(x) == "append" and "constraints" in (recv_text(x) or "") and x.args:
                vals.append(x.args[0])
            for v in vals:
                cands = [v.body, v.orelse] if isinstance(v, ast.IfExp) else [v]
                if any(isinstance(k, ast.Name) and k.id == p for k in cands):
                    g = guard_facts(m.node, x)
                    if any("do_copy_level > 0" in t or "do_copy_level" in t and not t.startswith("not ") for t in g):
                        rr.finding(m, x, _q(m), "CP1: in copy mode %s can hand back the node it was given (%s): a loop-invariant statement of a foreach body then "
                                   "appears N times as the SAME object, and per-object bookkeeping (the soft priority) is applied N times" % (name, norm(v)[:70]),
                                   text="copy returns original")
    rr.inst("copier handlers examined: %d" % n)
    rr.require(n >= 10, "ConstraintCopyBuilder handlers not found")


# --------------------------------------------------------------------------------------- RB2 / RB3
@rule("RB2", ["C06", "C16", "C04"], "the rollback visitor adds no handler that can skip part of the walk; no constraint model builds to 'true' because it is disabled",
      engine="XS", floor=2)
def rb2(prog, rr):
    c = prog.cls("ConstraintOverrideRollbackVisitor")
    n = 0
    for name, m in sorted(c.methods.items()):
        if not name.startswith("visit_") or name == "visit_constraint_override":
            continue
        n += 1
        sup = [x for x in walk_local(m.node) if isinstance(x, ast.Call) and norm(x.func) == "super().%s" % name]
        rr.inst("rollback visitor overrides %s (super call: %d)" % (name, len(sup)))
        if not sup or any(guard_facts(m.node, x) for x in sup):
            rr.finding(m, m.node, _q(m), "RB2: the rollback visitor handles %s itself and does not always continue with the inherited walk: an expansion "
                       "installed below such a node (a foreach inside a dynamic block used as a Boolean term) is never rolled back" % name,
                       text="rollback skips " + name)
    rr.inst("rollback visitor handlers: %d extra" % n)
    base = prog.cls("ConstraintModel")
    k = 0
    for cl in [base] + list(prog.subclasses(base)):
        b = cl.methods.get("build")
        if b is None:
            continue
        k += 1
        for t in walk_local(b.node):
            if isinstance(t, (ast.If, ast.IfExp)) and any(isinstance(a, ast.Attribute) and a.attr == "enabled" for a in ast.walk(t.test)):
                rr.finding(b, t, _q(b), "RB2: %s.build decides on `enabled`: whether a block takes part is decided where rand sets are formed; a dynamic block "
                           "(never 'enabled' by itself) used as a Boolean term would build to a constant" % cl.name, text="build gated on enabled")
    rr.inst("constraint model build() methods examined: %d" % k)
    rr.require(k >= 2, "constraint model build methods not found")


# --------------------------------------------------------------------------------------- CV31
@rule("CV31", ["C10"], "auto-bins of a signed type start at the most negative value of the type", engine="DF", floor=1)
def cv31(prog, rr):
    n = 0
    for f in prog.funcs:
        if f.module.name != "vsc.coverage" or f.name != "build_cov_model":
            continue
        for c in walk_local(f.node):
            if isinstance(c, ast.Call) and call_name(c) == "add_range" and len(c.args) == 2:
                g = guard_facts(f.node, c)
                if not any("is_signed" in t and t.startswith("not ") is False and "not" not in t.split("is_signed")[0][-5:] for t in g):
                    continue
                if not any(t.replace(" ", "").startswith("notself.cp_t.is_signed") for t in g) and not any("is_signed" in t for t in g):
                    continue
                signed = any("is_signed" in t and not t.strip().startswith("not ") for t in g)
                if not signed:
                    continue
                n += 1
                lo = expand_locals(f.node, c.args[0])
                rr.inst("%s: signed auto-bin range from %s" % (_q(f), lo))
                lo_n = ast.parse(lo, mode="eval").body
                neg = lo_n.operand if isinstance(lo_n, ast.UnaryOp) and isinstance(lo_n.op, ast.USub) else None
                if neg is not None and isinstance(neg, ast.BinOp) and isinstance(neg.op, ast.Sub) and isinstance(neg.right, ast.Constant) and neg.right.value == 1:
                    rr.finding(f, c, _q(f), "CV31: the signed auto-bin range starts at %s = -(2^(w-1) - 1): the minimum of the type is never counted and every "
                               "partition boundary shifts" % lo, text="symmetric signed auto-bin range")
    rr.require(n >= 1, "signed auto-bin range not found in coverpoint.build_cov_model")


# --------------------------------------------------------------------------------------- NB1
@rule("NB1", ["C12", "C11", "C10"], "bin containers ask a sub-bin for its size through get_n_bins() (array bins do not keep the n_bins attribute)", engine="XS", floor=1)
def nb1(prog, rr):
    n = 0
    for f in prog.funcs:
        if not f.module.name.startswith("vsc.model.cover"):
            continue
        n += 1
        called = {id(c.func) for c in walk_local(f.node) if isinstance(c, ast.Call)}
        for a in walk_local(f.node):
            if isinstance(a, ast.Attribute) and a.attr == "n_bins" and isinstance(a.ctx, ast.Load) and norm(a.value) != "self" and id(a) not in called:
                rr.finding(f, a, _q(f), "NB1: %s reads the attribute n_bins of another bin model: CoverpointBinArrayModel only overrides the accessor "
                           "get_n_bins(), its attribute stays -1, so offsets behind an array sub-bin are wrong" % norm(a), text="n_bins attribute read")
    rr.inst("coverage model functions scanned: %d" % n)
    rr.require(n >= 5, "coverage model functions not found")


# --------------------------------------------------------------------------------------- NM6
@rule("NM6", ["C14", "C03", "C01"], "visitors keep no memo on the model nodes they walk (a classification that depends on per-call random-ness is recomputed)", engine="EFF", floor=1)
def nm6(prog, rr):
    n = 0
    for f in prog.funcs:
        if not f.module.name.startswith("vsc.visitors.") or f.cls is None:
            continue
        n += 1
        params = set(f.params) - {"self"}
        for a in walk_local(f.node):
            tgs = a.targets if isinstance(a, ast.Assign) else [a.target] if isinstance(a, (ast.AugAssign, ast.AnnAssign)) else []
            for t in tgs:
                for tt in (t.elts if isinstance(t, ast.Tuple) else [t]):
                    if isinstance(tt, ast.Attribute) and isinstance(tt.value, ast.Name) and tt.value.id in params and tt.attr.startswith("_"):
                        rr.finding(f, a, _q(f), "NM6: %s stores %s on the node it visits: the node lives as long as the object, so the answer computed in one call "
                                   "(which depends on what is random in THAT call) is reused by later calls" % (_q(f), norm(tt)), text="memo on visited node")
            if isinstance(a, ast.Call) and call_name(a) == "setattr" and a.args and isinstance(a.args[0], ast.Name) and a.args[0].id in params:
                rr.finding(f, a, _q(f), "NM6: %s sets an attribute on the node it visits (%s)" % (_q(f), norm(a)[:60]), text="setattr on visited node")
    rr.inst("visitor methods scanned: %d" % n)
    rr.require(n >= 20, "visitor methods not found")


# --------------------------------------------------------------------------------------- SW2
@rule("SW2", ["C14", "C09"], "the fields to steer are picked at random from ALL candidates (no truncation before the pick)", engine="DF", floor=1)
def sw2(prog, rr):
    f = prog.method("SolveGroupSwizzlerPartsel", "swizzle_field_l")
    lst = f.params[1]
    draws = [c for c in walk_local(f.node) if isinstance(c, ast.Call) and ("randstate" in norm(c.func) or "rng" in norm(c.func))
             and call_name(c) in ("randint", "shuffle", "sample", "randbits", "choice")]
    rr.require(draws, "random pick not found in swizzle_field_l")
    first = min(_pos(d) for d in draws)
    rr.inst("swizzle_field_l: first random pick at line %d" % first[0])
    for x in walk_local(f.node):
        cut = None
        if isinstance(x, ast.Delete) and any(isinstance(t, ast.Subscript) and isinstance(t.slice, ast.Slice) and norm(t.value) == lst for t in x.targets):
            cut = x
        if isinstance(x, ast.Assign) and any(norm(t) == lst for t in x.targets) and isinstance(x.value, ast.Subscript) and isinstance(x.value.slice, ast.Slice) \
                and norm(x.value.value) == lst:
            cut = x
        if cut is not None and _pos(cut) < first:
            rr.finding(f, cut, _q(f), "SW2: the candidate list is cut (%s) before anything is picked at random: in a rand set with more fields than are steered "
                       "per call only the first ones are ever steered" % norm(cut), text="truncate before pick")


# --------------------------------------------------------------------------------------- IN1
@rule("IN1", ["C15", "C01"], "every element of an `inside` list contributes its own term (no branch leaves the previous element's term in place)", engine="DF", floor=1)
def in1(prog, rr):
    f = prog.method("ExprInModel", "build")
    loops = [lp for lp in walk_local(f.node) if isinstance(lp, ast.For) and ".rl" in norm(lp.iter)]
    rr.require(loops, "loop over the range list not found in ExprInModel.build")
    lp = loops[0]
    tv = None
    for a in walk_local(lp):
        if isinstance(a, ast.Assign) and len(a.targets) == 1 and isinstance(a.targets[0], ast.Name) and isinstance(a.value, ast.Call) \
                and (dotted(a.value.func) or "").endswith("ExprBinModel"):
            tv = a.targets[0].id
            break
    rr.require(tv is not None, "per-element term variable not found in ExprInModel.build")
    top = [st for st in lp.body if isinstance(st, ast.If) and any(isinstance(a, ast.Assign) and any(norm(t) == tv for t in a.targets) for a in walk_local(st))]
    rr.require(top, "per-element dispatch not found in ExprInModel.build")
    leaves = []

    def rec(block, path):
        ifs = [st for st in block if isinstance(st, ast.If)]
        assigns = any(isinstance(st, ast.Assign) and any(norm(t) == tv for t in st.targets) for st in block)
        loops_in = [st for st in block if isinstance(st, (ast.For, ast.While))]
        if assigns or loops_in or (len(block) == 1 and isinstance(block[0], ast.Pass)):
            leaves.append((path, True))
            return
        if not ifs:
            leaves.append((path, False))
            return
        for i in ifs:
            rec(i.body, path + [norm(i.test)])
            rec(i.orelse, path + ["not " + norm(i.test)]) if i.orelse else leaves.append((path + ["not " + norm(i.test)], False))
    rec([top[0]], [])
    rr.inst("ExprInModel.build: %d element kinds, %d without a term of their own" % (len(leaves), sum(1 for p, ok in leaves if not ok)))
    for path, ok in leaves:
        if not ok and any("is_rand_sz" in t for t in path):
            continue        # the (documented) open case of a list whose size is being solved: nothing is built for it today
        if not ok:
            rr.finding(f, top[0], _q(f), "IN1: for an element with %s no term is built: the term of the previous element is or-ed in again (or nothing, if it "
                       "was the first), so that value can never be produced and, if all elements are of this kind, membership becomes constant" % path,
                       text="element kind without term")


# --------------------------------------------------------------------------------------- DS4
@rule("DS4", ["C15"], "every call of next_target_range draws: no return before the draw", engine="DF", floor=1)
def ds4(prog, rr):
    f = prog.method("ConstraintDistScopeModel", "next_target_range")
    draws = [c for c in walk_local(f.node) if isinstance(c, ast.Call) and call_name(c) == "randint"]
    rr.require(draws, "draw not found in next_target_range")
    d0 = min(_pos(d) for d in draws)
    rr.inst("next_target_range: draw at line %d" % d0[0])
    for r in walk_local(f.node):
        if isinstance(r, ast.Return) and _pos(r) < d0:
            rr.finding(f, r, _q(f), "DS4: next_target_range returns %s without drawing (under %s): self.target_range is an index into the weights that is only "
                       "set at the end of a draw, so the constructor default 0 is handed out - the zero-weight entry 0 is targeted"
                       % (norm(r.value) if r.value is not None else None, guard_facts(f.node, r)), text="return before draw")


# --------------------------------------------------------------------------------------- LW17
@rule("LW17", ["C16", "C01"], "facade constructors pop each operand they convert before converting the next (a failing conversion leaves nothing behind)", engine="DF", floor=1)
def lw17(prog, rr):
    n = 0
    for f in prog.funcs:
        if f.module.name != "vsc.types":
            continue
        ev = []
        for st in f.node.body:
            if isinstance(st, ast.Expr) and isinstance(st.value, ast.Call) and call_name(st.value) == "to_expr":
                ev.append(("push", st))
            else:
                for c in walk_local(st):
                    if isinstance(c, ast.Call) and call_name(c) == "pop_expr":
                        ev.append(("pop", c))
        if sum(1 for k, _ in ev if k == "push") < 2:
            continue
        n += 1
        rr.inst("%s: %s" % (_q(f), [k for k, _ in ev]))
        depth = 0
        for k, node in ev:
            depth += 1 if k == "push" else -1
            if depth > 1:
                rr.finding(f, node, _q(f), "LW17: %s converts a second operand while the first is still on the expression stack: if that conversion raises (a bound "
                           "of an unsupported type) the first stays on the shared stack and becomes an extra inline constraint of the next randomize_with"
                           % _q(f), text="two operands pending")
                break
    rr.require(n >= 1, "two-operand facade constructors not found (%d)" % n)


# --------------------------------------------------------------------------------------- ST9
@rule("ST9", ["C18", "C09"], "RandState.randint returns a draw from [low, high] on every path", engine="DF", floor=1)
def st9(prog, rr):
    f = prog.method("RandState", "randint")
    draws = {a.targets[0].id for a in walk_local(f.node) if isinstance(a, ast.Assign) and len(a.targets) == 1 and isinstance(a.targets[0], ast.Name)
             and isinstance(a.value, ast.Call) and call_name(a.value) == "randint" and len(a.value.args) == 2}
    rets = [r for r in walk_local(f.node) if isinstance(r, ast.Return)]
    rr.inst("RandState.randint: %d returns" % len(rets))
    rr.require(rets, "RandState.randint has no return")
    for r in rets:
        v = r.value
        ok = (isinstance(v, ast.Name) and v.id in draws) or (isinstance(v, ast.Call) and call_name(v) == "randint" and len(v.args) == 2)
        if not ok:
            rr.finding(f, r, _q(f), "ST9: randint returns %s, which is not a draw over [low, high]: a signed 64-bit field gets values outside its type"
                       % (norm(v) if v is not None else None), text="return not from [low, high]")
