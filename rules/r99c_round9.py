"""Rules added after the ninth step (sixth seeded round): OV1 (the override cursor is used before any nested walk), FOLD3 (a constant-false if visits whatever else-branch exists), ST8 (a diagnostic block does
not rebind a local the solve path reads), CV28 (a pushed cache value is marked valid; type-level clones carry no iff), EQ2 (equals() rejects
when ANY component differs), CV29 (report scopes: type scope named by the type name, weights handed on unconverted), DSP1 (the dispose
visitor dispatches through accept), RN9 (an element appended to a list inherits the list's random-ness), FT26 (model building skips only
dunder / internal names), CV30 (pattern width skips the separators the parser skips), RS16 (a field added to a rand set is recorded in the
field map)."""
import ast

from sa.core import rule
from sa.ir import sig_body, norm, dotted, call_name, recv_text, walk_local, names_in, local_defs, expand_locals
from sa.ir import guard_facts as _guard_facts_all


def guard_facts(fnode, node):
    return _guard_facts_all(fnode, node, with_raise=False)


def _q(f):
    return ("%s.%s" % (f.cls.name, f.name)) if f.cls is not None else f.name


def _pos(n):
    return (n.lineno, n.col_offset)


# --------------------------------------------------------------------------------------- OV1
@rule("OV1", ["C01", "C04", "C08"], "override_constraint() addresses the statement through the visitor's scope cursor: it runs before any nested walk of the same method",
      engine="DF", floor=2)
def ov1(prog, rr):
    base = prog.cls("ConstraintOverrideVisitor")
    n = 0
    for c in [base] + list(prog.subclasses(base)):
        for m in c.methods.values():
            ovs = [x for x in walk_local(m.node) if isinstance(x, ast.Call) and call_name(x) == "override_constraint" and recv_text(x) == "self"]
            if not ovs or m.name == "override_constraint":
                continue
            walks = [x for x in walk_local(m.node) if isinstance(x, ast.Call) and call_name(x) == "accept" and x.args and norm(x.args[0]) == "self"]
            walks += [x for x in walk_local(m.node) if isinstance(x, ast.Call) and (call_name(x) or "").startswith("visit_")]
            for o in ovs:
                n += 1
                early = [w for w in walks if _pos(w) < _pos(o)]
                rr.inst("%s: override_constraint at line %d, %d nested walks, %d before it" % (_q(m), o.lineno, len(walks), len(early)))
                if early:
                    rr.finding(m, o, _q(m), "OV1: override_constraint() runs after a nested walk (line %d): visit_constraint_scope moves the cursor scope_i for every "
                               "nested scope and never restores it, so the override replaces a SIBLING statement of the block - that statement is not "
                               "solved in this call" % early[0].lineno, text="override after nested walk")
    rr.require(n >= 2, "override_constraint call sites not found (%d)" % n)


# --------------------------------------------------------------------------------------- FOLD3
@rule("FOLD3", ["C05", "C01", "C04"], "an if/else folded on a constant condition walks the branch that applies: the else side whenever there is one (scope or else-if link)",
      engine="DF", floor=1)
def fold3(prog, rr):
    f = prog.method("ArrayConstraintBuilder", "visit_constraint_if_else")
    p = f.params[1]
    walks = [x for x in walk_local(f.node) if isinstance(x, ast.Call) and call_name(x) == "accept" and recv_text(x) == p + ".false_c"]
    rr.require(walks, "ArrayConstraintBuilder.visit_constraint_if_else: walk of the else side not found")
    for w in walks:
        g = guard_facts(f.node, w)
        rr.inst("else side walked under %s" % g)
        for t in g:
            if "isinstance" in t or "type(" in t or "hasattr" in t:
                rr.finding(f, w, _q(f), "FOLD3: the else side is walked only when %s: else_if stores the next if/else node (not a scope) in false_c, so when the "
                           "first condition folds to false the rest of the chain is dropped from this element's expansion" % t, text="else side filtered by type")


# --------------------------------------------------------------------------------------- ST8
@rule("ST8", ["C09"], "a block guarded by a diagnostic setting does not rebind a local that the solve path reads afterwards", engine="DF", floor=1)
def st8(prog, rr):
    from rules.r80_stability_bounds_dist import DIAG_WORDS
    words = tuple(w for w in DIAG_WORDS if w not in ("solve_info", "srcinfo", "in_srcinfo_mode"))
    n = 0
    for f in prog.funcs:
        if not f.module.name.startswith(("vsc.model", "vsc.visitors")):
            continue
        for br in walk_local(f.node):
            if not (isinstance(br, ast.If) and any(w in norm(br.test) for w in words)):
                continue
            n += 1
            bound = set()
            for x in [y for st in br.body for y in walk_local(st)]:
                if isinstance(x, ast.Name) and isinstance(x.ctx, ast.Store):
                    bound.add(x.id)
            if not bound:
                continue
            # names bound before the block as well (a rebinding), and read after it outside diagnostic blocks
            before = {x.id for x in walk_local(f.node) if isinstance(x, ast.Name) and isinstance(x.ctx, ast.Store) and _pos(x) < _pos(br)} | set(f.params)
            diag_nodes = set()
            for d in walk_local(f.node):
                if isinstance(d, ast.If) and any(w in norm(d.test) for w in words):
                    for y in ast.walk(d):
                        diag_nodes.add(y)
            end = (br.end_lineno, br.end_col_offset)
            for nm in sorted(bound & before):
                shadow = set()      # reads of a lambda parameter / comprehension variable of the same name
                for y in ast.walk(f.node):
                    if isinstance(y, ast.Lambda) and any(a.arg == nm for a in y.args.args):
                        shadow |= set(ast.walk(y))
                    if isinstance(y, (ast.ListComp, ast.SetComp, ast.DictComp, ast.GeneratorExp)) and \
                            any(isinstance(t, ast.Name) and t.id == nm for g in y.generators for t in ast.walk(g.target)):
                        shadow |= set(ast.walk(y))
                later = [x for x in ast.walk(f.node) if isinstance(x, ast.Name) and x.id == nm and isinstance(x.ctx, ast.Load) and _pos(x) > end
                         and x not in diag_nodes and x not in shadow]
                # a re-definition after the block and before the read makes the read independent of the block
                redefs = [x for x in walk_local(f.node) if isinstance(x, ast.Name) and x.id == nm and isinstance(x.ctx, ast.Store) and _pos(x) > end]
                later = [x for x in later if not any(_pos(r) < _pos(x) for r in redefs)]
                if later:
                    rr.finding(f, br, _q(f), "ST8: the diagnostic block (%s) rebinds '%s', which was set before it and is read again at line %d: the value "
                               "the solve path uses then depends on the diagnostic setting" % (norm(br.test), nm, later[0].lineno), text="diag rebinds " + nm)
    rr.inst("diagnostic blocks examined: %d" % n)
    rr.require(n >= 10, "diagnostic blocks not found (%d)" % n)


# --------------------------------------------------------------------------------------- CV28
@rule("CV28", ["C12", "C11", "C10"], "a value pushed into a coverage item's cache is marked valid; the type-level clone of an item carries no iff of its own", engine="XS", floor=3)
def cv28(prog, rr):
    n = 0
    for c in prog.classes:
        m = c.methods.get("set_target_value_cache")
        if m is None:
            continue
        asg = {}
        for a in walk_local(m.node):
            if isinstance(a, ast.Assign) and len(a.targets) == 1 and norm(a.targets[0]).startswith("self."):
                asg[norm(a.targets[0])[5:]] = a
        for nm, a in sorted(asg.items()):
            if not nm.endswith("_cache"):
                continue
            n += 1
            v = asg.get(nm + "_valid")
            rr.inst("%s.set_target_value_cache: %s pushed, valid flag %s" % (c.name, nm, norm(v.value) if v is not None else "not set"))
            if v is None or not (isinstance(v.value, ast.Constant) and v.value.value is True):
                rr.finding(m, a, _q(m), "CV28: %s is overwritten with the value pushed by the sampling instance but %s_valid is not set: the next sample() "
                           "re-evaluates the item's own expression and overwrites what was pushed" % (nm, nm), text="cache %s not marked valid" % nm)
    for cn in ("CoverpointModel", "CoverpointCrossModel"):
        c = prog.cls(cn)
        cl = c.methods.get("clone")
        if cl is None:
            continue
        for x in walk_local(cl.node):
            if isinstance(x, ast.Call) and norm(x.func) == cn:
                n += 1
                args = [norm(a) for a in x.args] + [norm(k.value) for k in x.keywords]
                rr.inst("%s.clone constructs with (%s)" % (cn, ", ".join(args)))
                if any(a in ("self.iff", "self.iff_f") for a in args):
                    rr.finding(cl, x, _q(cl), "CV28: the clone (used as the type-level item) is given the iff expression of the instance it was cloned from: "
                               "the type item then gates on the FIRST instance's fields instead of the value pushed by the sampling instance",
                               text="clone carries iff")
        for a in walk_local(cl.node):
            if isinstance(a, ast.Assign) and any(norm(t).endswith((".iff", ".iff_f")) for t in a.targets) and "self.iff" in norm(a.value):
                rr.finding(cl, a, _q(cl), "CV28: the clone is given the iff expression of the instance it was cloned from", text="clone carries iff")
    rr.require(n >= 3, "set_target_value_cache / clone sites not found (%d)" % n)


# --------------------------------------------------------------------------------------- EQ2
@rule("EQ2", ["C12", "C19", "C10"], "equals() rejects as soon as ANY compared component differs (no `a != b and c != d`)", engine="XS", floor=1)
def eq2(prog, rr):
    n = 0
    for f in prog.funcs:
        if f.name != "equals":
            continue
        n += 1
        for t in walk_local(f.node):
            if isinstance(t, ast.BoolOp) and isinstance(t.op, ast.And):
                ne = [v for v in t.values if isinstance(v, ast.Compare) and len(v.ops) == 1 and isinstance(v.ops[0], (ast.NotEq, ast.IsNot))
                      and not (isinstance(v.comparators[0], ast.Constant) and v.comparators[0].value is None)]
                if len(ne) >= 2:
                    rr.finding(f, t, _q(f), "EQ2: '%s' rejects only when ALL of these components differ; two objects that share one of them compare equal "
                               "(a covergroup instance is then attached to the type model of a different shape)" % norm(t), text="and of inequalities")
            if isinstance(t, ast.BoolOp) and isinstance(t.op, ast.Or):
                eqs = [v for v in t.values if isinstance(v, ast.Compare) and len(v.ops) == 1 and isinstance(v.ops[0], ast.Eq)]
                par_ret = [r for r in walk_local(f.node) if isinstance(r, (ast.Return, ast.Assign, ast.AugAssign)) and getattr(r, "value", None) is t]
                if len(eqs) >= 2 and par_ret:
                    rr.finding(f, t, _q(f), "EQ2: '%s' accepts when ONE component agrees" % norm(t), text="or of equalities")
    rr.inst("equals() methods examined: %d" % n)
    rr.require(n >= 8, "equals() methods not found (%d)" % n)


# --------------------------------------------------------------------------------------- CV29
@rule("CV29", ["C13"], "the report writer names a type scope by the type name and hands every weight on as stored", engine="DF", floor=3)
def cv29(prog, rr):
    c = prog.cls("CoverageSaveVisitor")
    n = 0
    # weights
    for m in c.methods.values():
        for a in walk_local(m.node):
            if isinstance(a, ast.Assign) and len(a.targets) == 1 and isinstance(a.targets[0], ast.Name) and \
                    any(isinstance(x, ast.Attribute) and x.attr == "weight" and norm(x.value).endswith("options") for x in ast.walk(a.value)):
                n += 1
                rr.inst("%s: weight = %s" % (_q(m), norm(a.value)))
                if not norm(a.value).endswith("options.weight"):
                    rr.finding(m, a, _q(m), "CV29: the weight written to the database is %s, not the option value: the reported TYPE/INST percentages are "
                               "computed with other weights than get_coverage() uses" % norm(a.value), text="weight converted")
    vc = c.methods["visit_covergroup"]
    for call in walk_local(vc.node):
        if isinstance(call, ast.Call) and call_name(call) == "createCovergroup" and call.args:
            g = guard_facts(vc.node, call)
            is_type = any(t.replace(" ", "") in ("%s.type_cgisNone" % vc.params[1], "%s.type_cg==None" % vc.params[1]) for t in g)
            if not is_type:
                continue
            n += 1
            a0 = expand_locals(vc.node, call.args[0])
            rr.inst("type scope named by %s" % a0)
            if "typename" not in a0:
                rr.finding(vc, call, _q(vc), "CV29: the covergroup TYPE scope is named by '%s' (an instance name), not by the type name: the report lists the type "
                           "under the name of whichever instance was created first" % a0, text="type scope named by instance")
    cl = prog.method("CovergroupModel", "clone")
    for x in walk_local(cl.node):
        if isinstance(x, ast.Call) and norm(x.func) == "CovergroupModel" and x.args:
            n += 1
            rr.inst("CovergroupModel.clone constructs with %s" % norm(x.args[0]))
            if norm(x.args[0]) != "self.typename":
                rr.finding(cl, x, _q(cl), "CV29: the type model (a clone) is constructed with name %s; its name is what reports show for the type" % norm(x.args[0]),
                           text="type model named by instance")
    rr.require(n >= 3, "report weight / type-scope sites not found (%d)" % n)


# --------------------------------------------------------------------------------------- DSP1
@rule("DSP1", ["C16", "C02"], "the rand-set dispose visitor reaches fields through accept(): composite targets (lists: size field and elements) are walked, not short-cut",
      engine="XS", floor=2)
def dsp1(prog, rr):
    c = prog.cls("RandSetDisposeVisitor")
    n = 0
    for name in ("visit_expr_fieldref", "visit_expr_indexed_fieldref"):
        m = c.methods.get(name)
        rr.require(m is not None, "RandSetDisposeVisitor.%s not found" % name)
        n += 1
        acc = [x for x in walk_local(m.node) if isinstance(x, ast.Call) and call_name(x) == "accept" and x.args and norm(x.args[0]) == "self"]
        disp = [x for x in walk_local(m.node) if isinstance(x, ast.Call) and call_name(x) == "dispose"]
        rr.inst("%s: %d accept(self), %d direct dispose()" % (name, len(acc), len(disp)))
        if not acc:
            rr.finding(m, m.node, _q(m), "DSP1: the referenced field is %s instead of being walked with accept(self): for a whole-list reference only the elements are "
                       "disposed, the node built for the size field survives the call and belongs to a dropped solver"
                       % ("disposed directly" if disp else "not visited"), text="no accept in " + name)
    rr.require(n >= 2, "dispose visitor methods not found")


# --------------------------------------------------------------------------------------- RN9
@rule("RN9", ["C17", "C08", "C03"], "an element added to a list model inherits the list's declared random-ness and rand_mode", engine="DF", floor=1)
def rn9(prog, rr):
    m = prog.method("FieldArrayModel", "append")
    p = m.params[1]
    want = {"is_declared_rand", "rand_mode"}
    got = {}
    for a in walk_local(m.node):
        if isinstance(a, ast.Assign):
            for t in a.targets:
                if isinstance(t, ast.Attribute) and norm(t.value) == p and t.attr in want:
                    got[t.attr] = a
    rr.inst("FieldArrayModel.append sets on the element: %s" % sorted(got))
    for w in sorted(want - set(got)):
        rr.finding(m, m.node, _q(m), "RN9: append() does not set %s.%s from the list: every facade path that adds an element (append, extend, init=, sz=) relies "
                   "on the model to do it; the element is never used-as-random, gets no callbacks and is not solved" % (p, w), text="no " + w)
    for w, a in sorted(got.items()):
        if "self.is_declared_rand" not in norm(a.value):
            rr.finding(m, a, _q(m), "RN9: %s.%s is set from %s, not from the list's declared random-ness" % (p, w, norm(a.value)))
    for g in [x for a in got.values() for x in guard_facts(m.node, a)]:
        rr.finding(m, m.node, _q(m), "RN9: the element's random-ness is set only when %s" % g, text="conditional")


# --------------------------------------------------------------------------------------- FT26
@rule("FT26", ["C17", "C08", "C01"], "model building leaves out only dunder and internal (_int*) attribute names", engine="XS", floor=2)
def ft26(prog, rr):
    n = 0
    for c in prog.classes:
        m = c.methods.get("build_field_model")
        if m is None:
            continue
        for x in walk_local(m.node):
            if isinstance(x, ast.Call) and call_name(x) == "startswith" and x.args and isinstance(x.args[0], ast.Constant):
                n += 1
                v = x.args[0].value
                rr.inst("%s: name filter startswith(%r)" % (_q(m), v))
                if v not in ("__", "_int"):
                    rr.finding(m, x, _q(m), "FT26: attributes whose name starts with %r are left out of the model tree: a random sub-object or list held under "
                               "such a name is not solved and gets no pre/post_randomize from its parent" % v, text="filter %r" % v)
    rr.require(n >= 2, "attribute name filters of build_field_model not found (%d)" % n)


# --------------------------------------------------------------------------------------- CV30
@rule("CV30", ["C19"], "the width of a wildcard pattern string counts the digits the parser reads (separators skipped by both)", engine="XS", floor=1)
def cv30(prog, rr):
    sb = prog.method("WildcardBinFactory", "str2bin")
    sw = prog.method("WildcardBinFactory", "str2width")

    def seps(fn):
        out = set()
        for t in walk_local(fn.node):
            if isinstance(t, ast.Compare) and len(t.ops) == 1 and isinstance(t.ops[0], (ast.NotEq, ast.NotIn)):
                c0 = t.comparators[0]
                for e in (c0.elts if isinstance(c0, (ast.List, ast.Tuple, ast.Set)) else [c0]):
                    if isinstance(e, ast.Constant) and isinstance(e.value, str) and not e.value.isalnum() and e.value != "?":
                        out.add(e.value)
            if isinstance(t, ast.Call) and call_name(t) == "replace" and len(t.args) == 2 and isinstance(t.args[0], ast.Constant) \
                    and isinstance(t.args[1], ast.Constant) and t.args[1].value == "":
                out.add(t.args[0].value)
            if isinstance(t, ast.Call) and call_name(t) == "count" and t.args and isinstance(t.args[0], ast.Constant):
                out.add(t.args[0].value)
        return out
    a, b = seps(sb), seps(sw)
    rr.inst("separators skipped: str2bin %s, str2width %s" % (sorted(a), sorted(b)))
    if a != b:
        rr.finding(sw, sw.node, _q(sw), "CV30: str2bin skips %s but str2width skips %s: a pattern with a separator gets phantom wildcard digits above it, so a "
                   "wildcard_bin_array has extra bins and over-wide values hit them" % (sorted(a), sorted(b)), text="separator sets differ")


# --------------------------------------------------------------------------------------- RS16
@rule("RS16", ["C20", "C01", "C02"], "a field added to a rand set while relationships are collected is recorded in the field -> rand set map", engine="DF", floor=2)
def rs16(prog, rr):
    c = prog.cls("RandInfoBuilder")
    n = 0
    for name in ("process_fieldref", "visit_expr_array_subscript"):
        m = c.methods.get(name)
        if m is None:
            continue
        for blk_owner in walk_local(m.node):
            for fld in ("body", "orelse"):
                blk = getattr(blk_owner, fld, None)
                if not isinstance(blk, list):
                    continue
                for i, st in enumerate(blk):
                    if not (isinstance(st, ast.Expr) and isinstance(st.value, ast.Call) and call_name(st.value) == "add_field"
                            and recv_text(st.value) == "self._active_randset" and st.value.args):
                        continue
                    n += 1
                    x = norm(st.value.args[0])
                    rec = [s for s in blk if isinstance(s, ast.Assign) and any(isinstance(t, ast.Subscript) and norm(t.value) == "self._randset_field_m"
                                                                               and norm(t.slice) == x for t in s.targets)]
                    rr.inst("%s: add_field(%s) recorded in the map: %s" % (_q(m), x, bool(rec)))
                    if not rec:
                        rr.finding(m, st, _q(m), "RN16: %s is added to the active rand set but not recorded in _randset_field_m: a second statement naming the "
                                   "same field starts another rand set, the two are solved in separate solver contexts and the first solve fixes the field "
                                   "(ordering directives on it are lost; a satisfiable system can fail)" % x, text="field not recorded")
    rr.require(n >= 2, "add_field sites not found (%d)" % n)


# --------------------------------------------------------------------------------------- RB1
@rule("RB1", ["C07", "C16", "C04"], "the rollback of per-call rewrites reaches every block, enabled or not: the rollback visitor (and what it inherits) never gates on `enabled`",
      engine="XS", floor=3)
def rb1(prog, rr):
    base = prog.cls("ConstraintOverrideRollbackVisitor")
    stop = prog.cls("ModelVisitor")
    classes = [base]
    # the rollback visitor and its ancestors below ModelVisitor (a rewrite that skips a disabled block is harmless as long as the rollback
    # still reaches every block; the reverse is not)
    cur = base
    seen = set()
    while cur is not None and cur is not stop and cur.name not in seen:
        seen.add(cur.name)
        nxt = None
        for b in cur.node.bases:
            bn = (dotted(b) or "").split(".")[-1]
            try:
                nxt = prog.cls(bn)
            except Exception:
                nxt = None
            if nxt is not None:
                break
        if nxt is not None and nxt is not stop and nxt not in classes:
            classes.append(nxt)
        cur = nxt
    n = 0
    for c in classes:
        n += 1
        gated = []
        for m in c.methods.values():
            for t in walk_local(m.node):
                if isinstance(t, (ast.If, ast.IfExp, ast.While)) and any(isinstance(a, ast.Attribute) and a.attr == "enabled" for a in ast.walk(t.test)):
                    gated.append((m, t))
        rr.inst("%s: %d tests on `enabled`" % (c.name, len(gated)))
        for m, t in gated:
            rr.finding(m, t, _q(m), "RB1: %s decides on `enabled` (%s) while walking: the array / dist rewrite or its rollback skips a block that is switched off, "
                       "so an expansion installed while the block was on stays inside it and is what is solved when the block is switched on again"
                       % (_q(m), norm(t.test)), text="walk gated on enabled")
    rr.require(n >= 3, "override visitor classes not found (%d)" % n)


# --------------------------------------------------------------------------------------- SUMW
def _n_plus_k(fnode, e):
    """e (after expanding single-definition locals) as  n + k  with n the current list size; -> k or None"""
    t = expand_locals(fnode, e).replace(" ", "")
    for size in ("int(self.size.get_val())", "self.size.get_val()", "len(self.field_l)"):
        if t == size or t == "(%s)" % size:
            return 0
        for sign in ("+", "-"):
            for form in ("%s%s" % (size, sign), "(%s)%s" % (size, sign)):
                if t.startswith(form) and t[len(form):].isdigit():
                    return int(t[len(form):]) * (1 if sign == "+" else -1)
    return None


@rule("SUMW", ["C01", "C04"], "the sum of n elements of width w is computed in at least w + ceil(log2 n) bits (decided on the two idioms bit_length / shift loop)",
      engine="DF", floor=1)
def sumw(prog, rr):
    c = prog.cls("FieldArrayModel")
    n_rec = 0
    for name in ("get_sum_width", "get_sum_expr"):
        m = c.methods.get(name)
        if m is None:
            continue
        forms = []          # (node, k0, k1): extra bits = bit_length(n + k0) + k1
        for lp in walk_local(m.node):
            if not isinstance(lp, ast.While):
                continue
            shifts = [a for a in walk_local(lp) if isinstance(a, ast.AugAssign) and isinstance(a.op, ast.RShift) and norm(a.value) == "1" and isinstance(a.target, ast.Name)]
            incs = [a for a in walk_local(lp) if isinstance(a, ast.AugAssign) and isinstance(a.op, ast.Add) and norm(a.value) == "1"]
            if len(shifts) != 1 or len(incs) != 1:
                continue
            v = shifts[0].target.id
            t = lp.test
            thr = None
            if isinstance(t, ast.Name) and t.id == v:
                thr = 0
            elif isinstance(t, ast.Compare) and len(t.ops) == 1 and norm(t.left) == v and isinstance(t.comparators[0], ast.Constant) \
                    and isinstance(t.comparators[0].value, int):
                k = t.comparators[0].value
                thr = k if isinstance(t.ops[0], ast.Gt) else k - 1 if isinstance(t.ops[0], ast.GtE) else 0 if isinstance(t.ops[0], ast.NotEq) and k == 0 else None
            init = [a for a in walk_local(m.node) if isinstance(a, ast.Assign) and len(a.targets) == 1 and norm(a.targets[0]) == v and a.lineno < lp.lineno]
            if thr is None or thr < 0 or len(init) != 1:
                continue
            k0 = _n_plus_k(m.node, init[0].value)
            if k0 is None:
                continue
            # iterations of `while v > thr: v >>= 1` from v0 > 0:  bit_length(v0) - bit_length(thr)
            forms.append((lp, k0, -int(thr).bit_length()))
        for call in walk_local(m.node):
            if isinstance(call, ast.Call) and call_name(call) == "bit_length" and isinstance(call.func, ast.Attribute) and not call.args:
                k0 = _n_plus_k(m.node, call.func.value)
                if k0 is None:
                    continue
                k1 = 0
                par = next((p for p in walk_local(m.node) if isinstance(p, ast.BinOp) and p.left is call and isinstance(p.op, (ast.Add, ast.Sub))
                            and isinstance(p.right, ast.Constant) and isinstance(p.right.value, int)), None)
                if par is not None:
                    k1 = par.right.value if isinstance(par.op, ast.Add) else -par.right.value
                forms.append((call, k0, k1))
        for node, k0, k1 in forms:
            n_rec += 1
            rr.inst("%s: extra bits = bit_length(n%+d)%+d" % (_q(m), k0, k1))
            # bit_length(n + k0) + k1 >= bit_length(n - 1) for every n >= 1  <=>  k1 >= 0 and k0 >= -1
            if not (k1 >= 0 and k0 >= -1):
                rr.finding(m, node, _q(m), "SUMW: the sum gets bit_length(n%+d)%+d bits above the element width; for n elements ceil(log2 n) = bit_length(n-1) are "
                           "needed (n = 3: 2 bits): for sizes that are not a power of two the sum wraps, so a constraint on list.sum is solved modulo "
                           "2^(w + floor(log2 n))" % (k0, k1), text="sum width too small")
    rr.inst("recognised sum-width computations: %d" % n_rec)
    rr.require(n_rec >= 1, "no recognised sum-width computation in FieldArrayModel (neither the shift loop nor bit_length)")


# --------------------------------------------------------------------------------------- XE2
@rule("XE2", ["C01", "C03", "C04"], "the constant folder reads `list[i]` from the selected element (index evaluated first), never from a walk over the whole list",
      engine="DF", floor=1)
def xe2(prog, rr):
    m = prog.method("XExprEvaluator", "visit_expr_array_subscript")
    p = m.params[1]
    arr = {norm(a.targets[0]) for a in walk_local(m.node) if isinstance(a, (ast.Assign, ast.AnnAssign)) and
           isinstance(getattr(a, "value", None), ast.Call) and call_name(a.value) == "field"
           for _ in [0] if (isinstance(a, ast.Assign) and len(a.targets) == 1) } | \
          {norm(a.target) for a in walk_local(m.node) if isinstance(a, ast.AnnAssign) and isinstance(a.value, ast.Call) and call_name(a.value) == "field"}
    acc = [x for x in walk_local(m.node) if isinstance(x, ast.Call) and call_name(x) == "accept" and x.args and norm(x.args[0]) == "self"]
    rr.inst("XExprEvaluator.visit_expr_array_subscript: list locals %s, walks %s" % (sorted(arr), [recv_text(a) for a in acc]))
    for a in acc:
        if recv_text(a) in arr:
            rr.finding(m, a, _q(m), "XE2: the value of `list[i]` is taken from a walk over the whole list (%s.accept): every element overwrites the result, so the "
                       "LAST element's value is used for every index - an if on a non-random list element inside a foreach takes the same branch for all "
                       "elements" % recv_text(a), text="whole-list walk")
    sel = [a for a in acc if "subscript()" in (recv_text(a) or "") or "field_l[" in (recv_text(a) or "") or "getFieldModel()" in (recv_text(a) or "")]
    idx = [a for a in acc if recv_text(a) == p + ".rhs"]
    if not sel:
        rr.finding(m, m.node, _q(m), "XE2: the selected element is never evaluated", text="no element evaluation")
    elif not idx:
        rr.finding(m, m.node, _q(m), "XE2: the element is selected without evaluating the index expression first (an index that depends on a random variable "
                   "has no constant value)", text="index not evaluated")


# --------------------------------------------------------------------------------------- RN10
@rule("RN10", ["C03", "C08"], "a field model takes part in a call only through set_used_rand: scalar fields start as not-used-random, elements created during "
      "a call get their status from their list, and a list is pre-extended only when its size is solved", engine="DF", floor=3)
def rn10(prog, rr):
    init = prog.method("FieldScalarModel", "__init__")
    asg = [a for a in walk_local(init.node) if isinstance(a, ast.Assign) and any(norm(t) == "self.is_used_rand" for t in a.targets)]
    rr.inst("FieldScalarModel.__init__: is_used_rand = %s" % [norm(a.value) for a in asg])
    for a in asg:
        if not (isinstance(a.value, ast.Constant) and a.value.value is False):
            rr.finding(init, a, _q(init), "RN10: a new scalar field starts with is_used_rand = %s: a declared-random field that is only REFERENCED by a call "
                       "(not passed to it, or owned by another object that was never randomized) is solved for and overwritten by that call" % norm(a.value),
                       text="initial used-rand")
    add = prog.method("FieldArrayModel", "add_field")
    calls = [c for c in walk_local(add.node) if isinstance(c, ast.Call) and call_name(c) == "set_used_rand" and recv_text(c) != "self"]
    rr.inst("FieldArrayModel.add_field: set_used_rand calls on the new element: %s" % [norm(c) for c in calls])
    if not calls:
        rr.finding(add, add.node, _q(add), "RN10: an element created while a call is running (pre-extension of a random-size list) is not given its used-random "
                   "status: with fields starting as not-random it would be left out of the solve", text="new element status")
    for c in calls:
        if c.args and norm(c.args[0]) == "self.is_used_rand":
            rr.finding(add, c, _q(add), "RN10: the new element's status is taken from the list's own flag, which composites keep from the previous call: an "
                       "element appended BETWEEN calls is created used-random and a later call that only references it overwrites it; the size field "
                       "(locked after every call) tells whether a call is solving this list", text="new element status from stale list flag")
            continue
        if not c.args or norm(c.args[0]) not in ("self.size.is_used_rand", "self.is_used_rand"):
            rr.finding(add, c, _q(add), "RN10: the new element's status is %s, not derived from the list's own status: elements of a list inside a non-random "
                       "sub-object become random" % norm(c), text="new element status source")

    pre = prog.method("ArrayConstraintBuilder", "visit_field_scalar_array")
    p = pre.params[1]
    adds = [c for c in walk_local(pre.node) if isinstance(c, ast.Call) and call_name(c) == "add_field" and recv_text(c) == p and not c.args]
    rr.require(adds, "pre-extension of random-size lists not found in ArrayConstraintBuilder.visit_field_scalar_array")
    for c in adds:
        g = guard_facts(pre.node, c)
        rr.inst("pre-extension runs under %s" % g)
        if not any("size.is_used_rand" in t and not t.startswith("not ") for t in g):
            rr.finding(pre, c, _q(pre), "RN10: a random-size list is extended to its maximum size whether or not its size is solved in this call (%s): a list "
                       "inside a non-random sub-object changes size in every call of the parent" % g, text="pre-extension not gated on size")


# --------------------------------------------------------------------------------------- FT27
@rule("FT27", ["C08", "C04"], "every method of the list facade that changes the facade's object array changes the model's element array in the same call", engine="XS", floor=3)
def ft27(prog, rr):
    from sa.ir import find_local
    c = prog.cls("list_t", "vsc.types")
    MUT = {"append", "extend", "insert", "pop", "remove", "clear", "sort", "reverse"}
    MODEL_MUT = {"append", "add_field", "set_field", "clear", "pop", "insert", "remove"}
    n = 0
    for name, m in sorted(c.methods.items()):
        if name == "__init__":
            continue
        fac = []
        for x in walk_local(m.node):
            if isinstance(x, ast.Call) and call_name(x) in MUT and recv_text(x) == "self.backing_arr":
                fac.append(x)
            if isinstance(x, ast.Subscript) and isinstance(x.ctx, (ast.Store, ast.Del)) and norm(x.value) == "self.backing_arr":
                fac.append(x)
        if not fac:
            continue
        n += 1
        mlocals = set(find_local(m.node, lambda v: norm(v) == "self.get_model()")) | {"self.get_model()", "self._int_field_info.model"}
        mod = [x for x in walk_local(m.node) if isinstance(x, ast.Call) and call_name(x) in MODEL_MUT and (recv_text(x) or "") in mlocals]
        mod += [x for x in walk_local(m.node) if isinstance(x, ast.Subscript) and isinstance(x.ctx, (ast.Store, ast.Del))
                and any(norm(x.value) == ml + ".field_l" for ml in mlocals)]
        # delegation to another mutator of the facade (extend -> append)
        dele = [x for x in walk_local(m.node) if isinstance(x, ast.Call) and recv_text(x) == "self" and call_name(x) in c.methods and call_name(x) in MUT]
        rr.inst("list_t.%s: %d facade updates, %d model updates" % (name, len(fac), len(mod)))
        if mod and not dele:
            # the model update may not be more conditional than the facade update
            gf = set(guard_facts(m.node, fac[0]))
            if all(set(guard_facts(m.node, x)) - gf for x in mod):
                extra = sorted(set(guard_facts(m.node, mod[0])) - gf)
                rr.finding(m, mod[0], "list_t." + name, "FT27: list_t.%s updates the model's element list only under %s but the facade array always: for the other "
                           "cases the two arrays disagree about which object sits at an index" % (name, extra), text="model update more conditional in " + name)
        if not mod and not dele:
            rr.finding(m, fac[0], "list_t." + name, "FT27: list_t.%s changes the facade's object array (%s) but not the model's element list: the list then exposes "
                       "objects the solver does not know, while it keeps randomizing (and expanding foreach over) the replaced ones"
                       % (name, norm(fac[0])[:50]), text="facade-only update in " + name)
    rr.require(n >= 3, "facade array mutators of list_t not found (%d)" % n)


# --------------------------------------------------------------------------------------- SG1
def _bool_guard(prog, cls, e, depth=1):
    """e builds `cond != 0` / `cond == 0` (directly, or through a helper of the class that returns such a node)"""
    if isinstance(e, ast.Call) and (dotted(e.func) or "").split(".")[-1] == "ExprBinModel" and len(e.args) == 3:
        op, lit = norm(e.args[1]), e.args[2]
        ops_ok = all(x in ("BinExprType.Ne", "BinExprType.Eq") for x in
                     ([norm(e.args[1].body), norm(e.args[1].orelse)] if isinstance(e.args[1], ast.IfExp) else [op]))
        lit_ok = isinstance(lit, ast.Call) and (dotted(lit.func) or "").split(".")[-1] == "ExprLiteralModel" and lit.args and norm(lit.args[0]) == "0"
        return ops_ok and lit_ok
    if depth and isinstance(e, ast.Call) and call_name(e) in cls.methods:
        g = cls.methods[call_name(e)]
        rets = [r for r in walk_local(g.node) if isinstance(r, ast.Return) and r.value is not None]
        return bool(rets) and all(_bool_guard(prog, cls, r.value, depth - 1) for r in rets)
    return False


@rule("SG1", ["C05"], "the enclosing conditions of a soft constraint are combined as Booleans (each compared with zero), not bit by bit", engine="DF", floor=3)
def sg1(prog, rr):
    from rules.r30_randset import _soft_attrs
    GST = _soft_attrs(prog)[0]
    c = prog.cls("RandInfoBuilder")
    n = 0
    for m in c.methods.values():
        for x in walk_local(m.node):
            v = None
            if isinstance(x, ast.Call) and call_name(x) == "append" and recv_text(x) == GST and x.args:
                v = x.args[0]
            elif isinstance(x, ast.Assign) and any(isinstance(t, ast.Subscript) and norm(t.value) == GST for t in x.targets):
                v = x.value
            if v is None:
                continue
            n += 1
            ok = _bool_guard(prog, c, v)
            rr.inst("%s: guard pushed: %s (%s)" % (_q(m), norm(v)[:60], "Boolean" if ok else "raw"))
            if not ok:
                rr.finding(m, x, _q(m), "SG1: the condition is pushed on the guard stack as %s: guards are and-ed bitwise and negated with a bitwise not, so for a "
                           "multi-bit condition the else-branch soft constraint applies although the condition holds (~1 != 0), and two true conditions "
                           "can and to zero (2 & 1)" % norm(v)[:60], text="raw guard")
    rr.require(n >= 3, "guard stack pushes not found in RandInfoBuilder (%d)" % n)
