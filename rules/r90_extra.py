"""Rules added after the first round of independently seeded changes (see DESIGN.md section 11):
SZ1, NM1, CV14, CV15, BD6, CV16, RS9."""
import ast

from sa.core import rule
from sa.ir import norm, dotted, call_name, recv_text, walk_local, names_in, calls_in_order, AnalysisError, assigned_targets
from sa.sai import Interp, Domain, FALL


def _q(f):
    return ("%s.%s" % (f.cls.name, f.name)) if f.cls is not None else f.name


def _guards(fnode, node):
    """(test text, in-body?) of the enclosing ifs, plus the canonical facts of sa.ir.guard_facts as (fact, True): inverted
    branches and early exits are seen as the positive guards they are equivalent to"""
    from sa.ir import guard_facts
    par = {}
    for n in ast.walk(fnode):
        for ch in ast.iter_child_nodes(n):
            par[ch] = n
    out = []
    n = node
    while n in par:
        p = par[n]
        if isinstance(p, ast.If):
            out.append((norm(p.test), any(n is x for x in p.body)))
        n = p
    have = {t for t, pos in out if pos}
    for f in guard_facts(fnode, node, with_raise=False):
        if f not in have:
            out.append((f, True))
            have.add(f)
    return out


# --------------------------------------------------------------------------------------- SZ1
@rule("SZ1", ["C04", "C03", "C16"], "caches computed from the list's size value are invalidated once the solver has written the size", engine="DF", floor=2)
def sz1(prog, rr):
    fam = prog.cls("FieldArrayModel")
    caches = {}
    for name, f in fam.methods.items():
        reads_size = any(norm(n).startswith("self.size.get_val()") or norm(n) == "self.size.get_val()" for n in walk_local(f.node) if isinstance(n, ast.Call))
        if not reads_size:
            continue
        for n in walk_local(f.node):
            if isinstance(n, ast.Assign):
                for t in n.targets:
                    d = dotted(t)
                    if d and d.startswith("self.") and d.count(".") == 1 and not (isinstance(n.value, ast.Constant) and n.value.value is None):
                        caches.setdefault(d[5:], []).append(f)
    rr.require(caches, "no size-dependent caches found in FieldArrayModel (get_sum_expr/get_product_expr)")
    pr = fam.methods.get("post_randomize")
    rr.require(pr is not None, "FieldArrayModel.post_randomize not found")
    resets = set()
    for st in pr.node.body:
        if isinstance(st, ast.Assign) and isinstance(st.value, ast.Constant) and st.value.value is None:
            for t in st.targets:
                d = dotted(t)
                if d and d.startswith("self."):
                    resets.add(d[5:])
    for a, fs in sorted(caches.items()):
        rr.inst("size-dependent cache %s (built in %s) reset in post_randomize: %s" % (a, _q(fs[0]), a in resets))
        if a not in resets:
            rr.finding(pr, pr.node, "FieldArrayModel.post_randomize", "SZ1: %s is built from the size value (%s) but is not invalidated after the solve has written "
                       "a new size: the next call expands sum/product over a stale element count" % (a, _q(fs[0])), text="cache %s not reset" % a)


# --------------------------------------------------------------------------------------- NM1
REF_NODE_CLASSES = ("ExprIndexedFieldRefModel", "ExprIndexedDynRefModel", "ExprFieldRefModel", "ExprArraySubscriptModel", "ExprDynRefModel")


@rule("NM1", ["C06", "C08"], "reference expression nodes keep no resolved-target state (targets are resolved afresh on every use)", engine="EFF", floor=5)
def nm1(prog, rr):
    for cn in REF_NODE_CLASSES:
        c = prog.cls(cn)
        for name, f in c.methods.items():
            if name == "__init__":
                continue
            rr.inst("%s.%s" % (cn, name))
            for n in walk_local(f.node):
                if isinstance(n, (ast.Assign, ast.AugAssign)):
                    for tg in assigned_targets(n):
                        if tg.startswith("self."):
                            rr.finding(f, n, "%s.%s" % (cn, name), "NM1: %s stores %s on the expression node: a class-level constraint keeps this node across calls, "
                                       "while the object it resolves to (a list element, an instance) can change, so the memo aliases another object's "
                                       "field or block" % (name, tg))


# --------------------------------------------------------------------------------------- CV14
def _alias_mutations(func, sources):
    """in-place element writes through a local that aliases storage owned by `sources` (dotted names)"""
    found = []

    def rooted(e):
        d = dotted(e)
        if d is None and isinstance(e, ast.Subscript):
            return rooted(e.value)
        if d is None:
            return None
        for s in sources:
            if d == s or d.startswith(s + "."):
                return s
        return d.split(".")[0]

    class D(Domain):
        track_facts = False

        def initial_user(s):
            return frozenset()       # names that alias source storage

        def _is_alias_expr(s, st, v):
            if isinstance(v, ast.Name):
                return v.id in st.u
            if isinstance(v, (ast.Subscript, ast.Attribute)):
                r = rooted(v)
                return r in sources or r in st.u
            return False

        def on_for(s, st, node, first=True):
            if isinstance(node.target, ast.Name):
                al = s._is_alias_expr(st, node.iter) or (dotted(node.iter) in sources if dotted(node.iter) else False)
                u = (st.u | {node.target.id}) if al else (st.u - {node.target.id})
                return [("enter", st._replace(u=u)), ("exit", st)]
            return [("enter", st), ("exit", st)]

        def on_assign(s, st, stmt):
            u = st.u
            if isinstance(stmt, ast.Assign) and len(stmt.targets) == 1 and isinstance(stmt.targets[0], ast.Name):
                n = stmt.targets[0].id
                u = (u | {n}) if s._is_alias_expr(st, stmt.value) else (u - {n})
                return st._replace(u=u)
            tg = stmt.targets if isinstance(stmt, ast.Assign) else [stmt.target]
            for t in tg:
                if isinstance(t, ast.Subscript):
                    base = t.value
                    if (isinstance(base, ast.Name) and base.id in st.u) or (not isinstance(base, ast.Name) and rooted(base) in sources and isinstance(base, ast.Subscript)):
                        found.append(stmt)
            return st
    Interp(D(), func=func).run(func.node)
    out, seen = [], set()
    for f in found:
        if id(f) not in seen:
            seen.add(id(f))
            out.append(f)
    return out


@rule("CV14", ["C10", "C19"], "building a bin model never mutates the bin specification it was built from", engine="SAI", floor=3)
def cv14(prog, rr):
    mk = prog.method("CoverpointBinCollectionModel", "mk_collection")
    rl = mk.params[1]
    targets = [(mk, {rl, rl + ".range_l"})]
    cov = prog.module("vsc.coverage")
    for cn in ("bin", "bin_array", "wildcard_bin", "wildcard_bin_array"):
        c = cov.classes.get(cn)
        if c is None:
            continue
        b = c.methods.get("build_cov_model")
        if b is None:
            continue
        attrs = set()
        init = c.methods.get("__init__")
        if init is not None:
            for n in walk_local(init.node):
                if isinstance(n, ast.Assign):
                    for tg in assigned_targets(n):
                        if tg.startswith("self."):
                            attrs.add(tg)
        targets.append((b, attrs))
    for f, sources in targets:
        muts = _alias_mutations(f, sources)
        rr.inst("%s: %d in-place writes through aliases of %s" % (_q(f), len(muts), sorted(sources)[:3]))
        for m in muts:
            rr.finding(f, m, _q(f), "CV14: '%s' writes through a reference into the bin specification (no copy on this path): the first model built is right, "
                       "but the specification is changed for every later coverpoint or covergroup instance built from it" % norm(m))
        # self.<spec attr> must not be rebound either
        if f.cls is not None and f.name == "build_cov_model":
            for n in walk_local(f.node):
                if isinstance(n, (ast.Assign, ast.AugAssign)):
                    for tg in assigned_targets(n):
                        if tg in sources or tg.rstrip("[]") in sources:
                            rr.finding(f, n, _q(f), "CV14: build_cov_model re-binds the specification attribute %s" % tg)
                if isinstance(n, ast.Call) and isinstance(n.func, ast.Attribute) and norm(n.func.value) in sources \
                        and n.func.attr in ("append", "extend", "pop", "remove", "clear", "sort", "insert", "reverse"):
                    rr.finding(f, n, _q(f), "CV14: build_cov_model mutates the specification (%s)" % norm(n)[:60])


# --------------------------------------------------------------------------------------- CV15
@rule("CV15", ["C13"], "save visitor reads options from the node it is visiting; report enumeration is computed from the live registry on every call", engine="DF", floor=4)
def cv15(prog, rr):
    sv = prog.cls("CoverageSaveVisitor")
    for hn in ("visit_coverpoint", "visit_coverpoint_cross", "visit_covergroup"):
        f = sv.methods.get(hn)
        rr.require(f is not None, "CoverageSaveVisitor.%s not found" % hn)
        p = f.params[1]
        for n in walk_local(f.node):
            if isinstance(n, ast.Attribute) and n.attr in ("at_least", "weight", "goal", "comment") and isinstance(n.ctx, ast.Load):
                src = norm(n.value)
                rr.inst("%s reads %s" % (hn, norm(n)))
                if not (src == p + ".options" or src == p + ".type_options"):
                    rr.finding(f, n, "CoverageSaveVisitor." + hn, "CV15: the %s written for this item is read from '%s', not from the visited item's own options (%s.options): "
                               "the saved threshold/weight belongs to another coverpoint, so report percentages disagree with get_coverage()" % (n.attr, src, p))
    reg = prog.cls("CoverageRegistry")
    for mn in ("covergroup_types", "types", "instances"):
        f = reg.methods.get(mn)
        if f is None:
            continue
        reads = {norm(n) for n in walk_local(f.node) if isinstance(n, ast.Attribute) and isinstance(n.value, ast.Name) and n.value.id == "self"}
        writes = [tg for n in walk_local(f.node) if isinstance(n, (ast.Assign, ast.AugAssign)) for tg in assigned_targets(n) if tg.startswith("self.")]
        rr.inst("CoverageRegistry.%s reads %s" % (mn, sorted(reads)))
        extra = {r for r in reads if r != "self.covergroup_type_m"}
        if extra or writes:
            rr.finding(f, f.node, "CoverageRegistry." + mn, "CV15: the enumeration used by reports and saves is cached on the registry (%s): a covergroup type or variant "
                       "registered after the first report is missing from later reports until the cache happens to be rebuilt" % sorted(extra | set(writes)),
                       text="cached enumeration")
    # every covergroup reaches the registry: the report functions enumerate covergroup_types()
    init = prog.module("vsc")
    t = norm(init.tree)
    rr.inst("vsc report entry points use the registry: %s" % ("covergroup_types()" in t))
    if "covergroup_types()" not in t:
        rr.finding(init, init.tree.body[0], "vsc.__init__", "CV15: report/save entry points no longer enumerate CoverageRegistry.covergroup_types()", text="entry")


# --------------------------------------------------------------------------------------- BD6
@rule("BD6", ["C14", "C04"], "bound domains are ascending at construction; min propagators read the first interval's low end, max propagators the last interval's high end",
      engine="XS", floor=4)
def bd6(prog, rr):
    em = prog.method("VariableBoundEnumModel", "__init__")
    adds = [n for n in walk_local(em.node) if isinstance(n, ast.Call) and call_name(n) in ("add_value", "add_range", "append")]
    sorts = [n for n in walk_local(em.node) if isinstance(n, ast.Call) and (call_name(n) == "sort" or (isinstance(n.func, ast.Name) and n.func.id == "sorted"))]
    rr.inst("VariableBoundEnumModel.__init__: %d adds, %d sorts" % (len(adds), len(sorts)))
    ok = bool(sorts) and all(s.lineno > max(a.lineno for a in adds) for s in sorts if call_name(s) == "sort") if adds else bool(sorts)
    src_sorted = any(isinstance(lp, ast.For) and "sorted(" in norm(lp.iter) for lp in walk_local(em.node))
    if adds and not (ok or src_sorted):
        rr.finding(em, em.node, "VariableBoundEnumModel.__init__", "BD6: the enumerators are added in declaration order and the range list is not sorted: every propagator "
                   "assumes ascending ranges, so an enum declared out of numeric order loses feasible enumerators from its inferred range", text="enum domain unsorted")
    pairs = [("VariableBoundBoundsMinPropagator", "min", "[0][0]"), ("VariableBoundBoundsMaxPropagator", "max", "[-1][1]")]
    for cn, mn, want in pairs:
        f = prog.method(cn, mn)
        for r in walk_local(f.node):
            if isinstance(r, ast.Return):
                t = norm(r.value)
                rr.inst("%s.%s returns %s" % (cn, mn, t))
                if "range_l" in t and ("range_l" + want) not in t:
                    rr.finding(f, r, "%s.%s" % (cn, mn), "BD6: %s() reads %s; the %s of the other variable's domain is range_l%s (with a multi-interval domain the "
                               "wrong interval cuts feasible values off)" % (mn, t, "minimum" if mn == "min" else "maximum", want))
    # scalar domain: the initial range covers the whole declared type
    sm = prog.method("VariableBoundScalarModel", "__init__")
    t = norm(sm.node)
    rr.inst("VariableBoundScalarModel.__init__ domain")
    if "width" not in t:
        rr.finding(sm, sm.node, "VariableBoundScalarModel.__init__", "BD6: the initial domain of a scalar field does not depend on its width", text="scalar domain")


# --------------------------------------------------------------------------------------- CV16
@rule("CV16", ["C19"], "a wildcard (value, mask) is normalised (value & mask) wherever it is consumed", engine="DF", floor=2)
def cv16(prog, rr):
    v2b = prog.method("WildcardBinFactory", "valmask2binlist")
    val, mask = v2b.params[1], v2b.params[2]
    seeds = [n for n in walk_local(v2b.node) if isinstance(n, ast.Assign) and norm(n.targets[0]) == "val_t"]
    rr.inst("valmask2binlist seed assignments: %s" % [norm(s.value) for s in seeds])
    for s in seeds:
        t = norm(s.value).replace(" ", "")
        if val in names_in(s.value) and t not in ("%s&%s" % (val, mask), "%s&%s" % (mask, val), "(%s&%s)" % (val, mask)):
            rr.finding(v2b, s, "WildcardBinFactory.valmask2binlist", "CV16: every expanded value starts from '%s' instead of (value & mask): a 1 under a wildcard bit of a "
                       "user-supplied value sticks in every generated value, so only part of the matching set gets a bin" % norm(s.value))
    # single wildcard bins: (val & mask) == value needs value normalised when the spec is stored
    ws = prog.method("WildcardBinspec", "__init__")
    stores = [n for n in walk_local(ws.node) if isinstance(n, ast.Call) and call_name(n) == "append" and recv_text(n) == "self.specs"]
    rr.inst("WildcardBinspec stores: %s" % [norm(s.args[0]) for s in stores])
    from sa.ir import erase_records
    for s in stores:
        a = erase_records(prog, s.args[0])
        ok = isinstance(a, ast.Tuple) and len(a.elts) == 2 and isinstance(a.elts[0], ast.BinOp) and isinstance(a.elts[0].op, ast.BitAnd)
        if not ok:
            rr.finding(ws, s, "WildcardBinspec.__init__", "CV16: a (value, mask) pair is stored as %s without normalising the value by the mask; the bin tests (sample & mask) == value, "
                       "so a pattern whose value has a 1 under a wildcard bit is never hit although every sample agreeing on the non-wildcard bits should match" % norm(a))


# --------------------------------------------------------------------------------------- RS9
@rule("RS9", ["C20"], "a dependency set is created only when the key is new; ordering directives of inline constraints are collected in pass 0", engine="DF", floor=2)
def rs9(prog, rr):
    vsf = prog.method("ExpandSolveOrderVisitor", "visit_scalar_field")
    news = []
    for n in walk_local(vsf.node):
        if isinstance(n, ast.Assign) and any(isinstance(t, ast.Subscript) and "order_m" in norm(t.value) for t in n.targets):
            news.append(n)
    rr.inst("order_m set creations: %d" % len(news))
    for n in news:
        key = norm(n.targets[0].slice)
        g = [t.replace(" ", "") for t, pos in _guards(vsf.node, n) if pos]
        ok = any(("not%sin" % key.replace(" ", "")) in t or ("%snotin" % key.replace(" ", "")) in t for t in g)
        if not ok and not (isinstance(n.value, ast.Call) and call_name(n.value) == "setdefault"):
            rr.finding(vsf, n, "ExpandSolveOrderVisitor.visit_scalar_field", "RS9: the dependency set of %s is (re)created unconditionally: a second directive for the same "
                       "'after' field wipes the predecessors recorded by the first, which are then never ordered" % key)
    b = prog.method("RandInfoBuilder", "build")
    fm, cl = b.params[0], b.params[1]
    seq = []
    for st in b.node.body:
        if isinstance(st, ast.Assign) and norm(st.targets[0]).endswith("._pass"):
            seq.append(("pass", norm(st.value)))
        if isinstance(st, ast.For) and any(isinstance(n, ast.Call) and call_name(n) == "accept" for n in walk_local(st)):
            seq.append(("visit", norm(st.iter)))
    rr.inst("RandInfoBuilder.build sequence: %s" % seq)
    p0 = []
    cur = None
    for k, v in seq:
        if k == "pass":
            cur = v
        elif cur == "0":
            p0.append(v)
    if fm not in p0 or cl not in p0:
        rr.finding(b, b.node, "RandInfoBuilder.build", "RS9: pass 0 (which collects solve_order directives) visits %s; it must visit the field models and the call's inline "
                   "constraints, otherwise solve_order written inside randomize_with is silently ignored" % p0, text="pass 0 visits %s" % p0)
