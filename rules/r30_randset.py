"""RS1-RS8: rand-set construction (statement attachment, merges, enabled blocks, soft priorities,
soft guards, dist registration, solve_order roles, order-sensitive containers)."""
import ast

from sa.core import rule
from sa.ir import sig_body, norm, dotted, call_name, recv_text, walk_local, names_in, calls_in_order, AnalysisError, assigned_targets
from sa.pe import specialise, SpecDom
from sa.sai import Interp, Domain, FALL
from sa.cg import callgraph, solve_path


def _children_visited(prog, cls, hname, param=None, depth=0, seen=None):
    """child attributes of the visited node that handler `hname` of visitor class `cls` descends into,
    following delegation to other handlers on the same node."""
    seen = seen or set()
    f = prog.lookup(cls, hname)
    if f is None or (f.qual, hname) in seen or depth > 6:
        return set()
    seen.add((f.qual, hname))
    if len(f.params) < 2:
        return set()
    p = f.params[1]
    out = set()
    for n in walk_local(f.node):
        if not isinstance(n, ast.Call) or not isinstance(n.func, ast.Attribute):
            continue
        if n.func.attr == "accept" and n.args and norm(n.args[0]) == "self":
            r = norm(n.func.value)
            # loop variables: map back to the iterated attribute
            for lp in walk_local(f.node):
                if isinstance(lp, (ast.For,)) and isinstance(lp.target, ast.Name) and lp.target.id == r:
                    r = norm(lp.iter) + "[*]"
            if r.startswith(p + ".") or r.startswith(p + "["):
                out.add(r[len(p):])
        elif n.func.attr.startswith("visit_") and len(n.args) == 1 and norm(n.args[0]) == p:
            v = n.func.value
            if isinstance(v, ast.Name) and v.id == "self":
                out |= _children_visited(prog, cls, n.func.attr, None, depth + 1, seen)
            elif isinstance(v, ast.Call) and isinstance(v.func, ast.Name) and v.func.id == "super":
                g = prog.lookup(cls, n.func.attr, after=f.cls)
                if g is not None:
                    out |= _children_visited(prog, g.cls, n.func.attr, None, depth + 1, seen)
    return out


def _constraint_handlers(prog):
    """(class, handler name) for every constraint statement class with an accept()"""
    cm = prog.cls("ConstraintModel")
    out = []
    for c in prog.subclasses(cm):
        f = c.methods.get("accept")
        if f is None:
            continue
        for n in walk_local(f.node):
            if isinstance(n, ast.Call) and isinstance(n.func, ast.Attribute) and n.func.attr.startswith("visit_"):
                out.append((c, n.func.attr))
    return out


@rule("RS1", ["C01", "C06"], "every constraint statement is attached to the rand set of the fields it mentions", engine="XS+SAI", floor=12)
def rs1(prog, rr):
    rib = prog.cls("RandInfoBuilder")
    mv = prog.cls("ModelVisitor")
    for c, h in _constraint_handlers(prog):
        base_children = _children_visited(prog, mv, h)
        f = prog.lookup(rib, h)
        rr.require(f is not None, "ModelVisitor.%s missing" % h)
        if f.cls is mv:
            rr.inst("%s: inherited default handler %s (visits %s)" % (c.name, h, sorted(base_children)))
            continue
        mine = _children_visited(prog, rib, h)
        rr.inst("%s: RandInfoBuilder.%s visits %s (default: %s)" % (c.name, h, sorted(mine), sorted(base_children)))
        # dynamic-constraint references are expanded in place (c.c.constraint_l instead of c.c)
        norm_mine = {m.replace(".c.constraint_l[*]", ".c") for m in mine}
        missing = base_children - norm_mine
        if h == "visit_constraint_solve_order":
            continue
        if h == "visit_constraint_expr":
            # `c.e` is visited either directly (dynref shortcut) or through the default handler
            missing = missing - {".e"} if ".e" in norm_mine else missing
        if missing:
            rr.finding(f, f.node, "RandInfoBuilder." + h, "RS1: handler for %s does not descend into %s, which the default traversal visits; "
                       "fields mentioned there are never linked to the statement's rand set" % (c.name, sorted(missing)),
                       text="def %s missing %s" % (h, sorted(missing)))
        # enter/leave bracket balanced on all paths, sub-visits inside the bracket
        _bracket(prog, rr, f, "RandInfoBuilder." + h)
    # leave() attaches the statement to the active rand set at statement depth 1 in pass 1
    lv = prog.method("RandInfoBuilder", "visit_constraint_stmt_leave")
    adds = [n for n in walk_local(lv.node) if isinstance(n, ast.Call) and call_name(n) == "add_constraint"
            and recv_text(n) == "self._active_randset"]
    rr.inst("visit_constraint_stmt_leave: %d add_constraint sites" % len(adds))
    if not adds:
        rr.finding(lv, lv.node, "RandInfoBuilder.visit_constraint_stmt_leave", "RS1: the statement is never added to the active rand set "
                   "(constraint silently not enforced)", text="no add_constraint")
    for a in adds:
        if not a.args or norm(a.args[0]) != lv.params[1]:
            rr.finding(lv, a, "RandInfoBuilder.visit_constraint_stmt_leave", "RS1: add_constraint receives %s, not the statement being left"
                       % (norm(a.args[0]) if a.args else "nothing"))

    def ev(node, st, dom):
        if isinstance(node, ast.Call) and call_name(node) == "add_constraint" and recv_text(node) == "self._active_randset":
            ev.hits += 1
    ev.hits = 0
    # the statement stack: the attribute visit_constraint_stmt_enter appends its statement to
    ent = prog.method("RandInfoBuilder", "visit_constraint_stmt_enter")
    stk = next((recv_text(n) for n in walk_local(ent.node) if isinstance(n, ast.Call) and call_name(n) == "append" and (recv_text(n) or "").startswith("self.")
                and n.args and norm(n.args[0]) == ent.params[1]), "self._constraint_s")
    specialise(lv, None, None, None, on_event=ev, assume={"self._pass == 1": True, "len(%s) == 1" % stk: True,
                                                          "self._active_randset is not None": True,
                                                          "self._active_randset == None": False})
    if adds and ev.hits == 0:
        rr.finding(lv, adds[0], "RandInfoBuilder.visit_constraint_stmt_leave", "RS1: add_constraint is not reached in pass 1 at statement depth 1 "
                   "with an active rand set", text="add_constraint unreachable")
    # pop precedes the depth test
    body = lv.node.body
    pops = [n for n in walk_local(lv.node) if isinstance(n, ast.Call) and call_name(n) == "pop" and recv_text(n) == stk]
    pushes = [n for n in walk_local(ent.node) if isinstance(n, ast.Call) and call_name(n) == "append" and recv_text(n) == stk]
    rr.inst("stmt stack: %d push / %d pop" % (len(pushes), len(pops)))
    if len(pushes) != 1 or len(pops) != 1:
        rr.finding(lv, lv.node, "RandInfoBuilder.visit_constraint_stmt_enter/leave", "RS1: statement stack push/pop sites: %d/%d (expected 1/1)"
                   % (len(pushes), len(pops)), text="stmt stack sites")


def _bracket(prog, rr, f, cname):
    """stmt_enter / stmt_leave balanced on every path of a handler that uses them"""
    calls = [call_name(n) for n in walk_local(f.node) if isinstance(n, ast.Call)]
    if "visit_constraint_stmt_enter" not in calls and "visit_constraint_stmt_leave" not in calls:
        return

    class D(Domain):
        def initial_user(s):
            return 0

        def on_call(s, st, call, ctx):
            nm = call_name(call)
            if nm == "visit_constraint_stmt_enter":
                return [(FALL, st._replace(u=st.u + 1), None)]
            if nm == "visit_constraint_stmt_leave":
                return [(FALL, st._replace(u=st.u - 1), None)]
            if nm == "accept" and st.u <= 0:
                rr.finding(f, call, cname, "RS1: sub-visit %s happens outside the stmt_enter/stmt_leave bracket" % norm(call))
            return [(FALL, st, None)]
    outs = Interp(D(), func=f).run(f.node)
    for s in outs.fall | outs.ret:
        if s.u != 0:
            rr.finding(f, f.node, cname, "RS1: stmt_enter/stmt_leave unbalanced on a path (net %+d): statements after it are attached "
                       "at the wrong depth" % s.u, text="bracket net %+d" % s.u)


# --------------------------------------------------------------------------------------- RS2
@rule("RS2", ["C01", "C05", "C15", "C02", "C04", "C07", "C08"], "rand-set merge moves fields, hard, soft and dist data and re-links the field map", engine="XS", floor=2)
def rs2(prog, rr):
    rib = prog.cls("RandInfoBuilder")
    rs = prog.cls("RandSet")
    # what a RandSet carries (from its constructor): getters for complete contents
    getters = {}
    for name, f in rs.methods.items():
        b = sig_body(f.node)
        if len(b) == 1 and isinstance(b[0], ast.Return) and isinstance(b[0].value, ast.Attribute):
            getters[name] = b[0].value.attr
    addf = prog.method("RandSet", "add_field")
    # the list add_field() always appends to = the complete field list
    full_attr = None
    for n in walk_local(addf.node):
        if isinstance(n, ast.Call) and call_name(n) == "append":
            par_if = _guards(addf.node, n)
            if not any("is_used_rand" in g for g in par_if):
                full_attr = recv_text(n).replace("self.", "")
    rr.require(full_attr is not None, "RandSet.add_field: complete field list not identified")
    full_getters = {g for g, a in getters.items() if a == full_attr}
    sites = []
    for name, f in rib.methods.items():
        for n in walk_local(f.node):
            if isinstance(n, ast.Assign) and isinstance(n.value, ast.Constant) and n.value.value is None:
                for t in n.targets:
                    if isinstance(t, ast.Subscript) and norm(t.value) == "self._randset_l":
                        sites.append((f, n))
    rr.require(len(sites) >= 2, "rand-set retirement sites (self._randset_l[idx] = None) not found")
    for f, retire in sites:
        blk = _enclosing_block(f.node, retire)
        pre = blk[: blk.index(_stmt_in(blk, retire))]
        # retired set R: key of the index lookup; survivor: target of the re-link
        R = None
        for s in pre:
            for n in ast.walk(s):
                if isinstance(n, ast.Subscript) and norm(n.value) == "self._randset_m" and isinstance(n.ctx, ast.Load):
                    R = norm(n.slice)
        if R is None:
            rr.finding(f, retire, "RandInfoBuilder." + f.name, "RS2: cannot identify the retired rand set (index lookup in _randset_m missing)")
            continue
        cname = "RandInfoBuilder." + f.name
        rr.inst("%s retires %s" % (cname, R))
        have = {"fields": False, "relink": False, "hard": False, "soft": False, "dist": False, "pop": False}
        surv = None
        for s in pre:
            if isinstance(s, ast.For):
                it = s.iter
                if isinstance(it, ast.Call) and isinstance(it.func, ast.Attribute) and norm(it.func.value) == R:
                    g = it.func.attr
                    body_calls = [n for n in walk_local(s) if isinstance(n, ast.Call)]
                    tv = norm(s.target)
                    if g in full_getters:
                        for c in body_calls:
                            if call_name(c) == "add_field" and c.args and norm(c.args[0]) == tv:
                                have["fields"] = True
                                surv = recv_text(c)
                        for a in walk_local(s):
                            if isinstance(a, ast.Assign) and any(isinstance(t, ast.Subscript) and norm(t.value) == "self._randset_field_m"
                                                                 and norm(t.slice) == tv for t in a.targets):
                                have["relink"] = True
                                surv = surv or norm(a.value)
                    elif getters.get(g) == "constraint_l":
                        have["hard"] = any(call_name(c) == "add_constraint" and c.args and norm(c.args[0]) == tv for c in body_calls)
                    elif getters.get(g) == "soft_constraint_l":
                        have["soft"] = any(call_name(c) == "add_constraint" and c.args and norm(c.args[0]) == tv for c in body_calls)
                    elif g in getters and getters[g] != full_attr and any(call_name(c) in ("add_field",) for c in body_calls):
                        rr.finding(f, s, cname, "RS2: merge moves only %s.%s() (a partial field list); fields outside it stay mapped to "
                                   "the retired rand set and later statements on them are lost" % (R, g))
            for n in ast.walk(s):
                if isinstance(n, ast.Attribute) and n.attr == "dist_field_m" and norm(n.value) == R:
                    have["dist"] = True
                if isinstance(n, ast.Call) and call_name(n) == "pop" and recv_text(n) == "self._randset_m":
                    if n.args and norm(n.args[0]) == R:
                        have["pop"] = True
                    else:
                        rr.finding(f, n, cname, "RS2: retired rand set removed from _randset_m by %s, not by its own key %s (KeyError / wrong entry)"
                                   % (norm(n.args[0]) if n.args else "nothing", R))
                        have["pop"] = True
        msgs = {"fields": "fields are not moved with add_field over the complete field list",
                "relink": "_randset_field_m is not re-linked for the moved fields",
                "hard": "hard constraints of the retired set are not moved (constraints lost)",
                "soft": "soft constraints of the retired set are not moved (soft constraints lost)",
                "dist": "the dist map (dist_field_m) of the retired set is not moved (dist weights lost)",
                "pop": "retired set is not removed from _randset_m"}
        for k, ok in have.items():
            if not ok:
                rr.finding(f, retire, cname, "RS2: merge incomplete: " + msgs[k], text="merge of %s lacks %s" % (R, k))


def _guards(fnode, node):
    par = {}
    for n in ast.walk(fnode):
        for ch in ast.iter_child_nodes(n):
            par[ch] = n
    out = []
    n = node
    while n in par:
        p = par[n]
        if isinstance(p, ast.If):
            out.append(norm(p.test))
        n = p
    from sa.ir import guard_facts
    for f in guard_facts(fnode, node, with_raise=False):
        if f not in out:
            out.append(f)
    return out


def _enclosing_block(fnode, stmt):
    for n in ast.walk(fnode):
        for fld in ("body", "orelse", "finalbody"):
            b = getattr(n, fld, None)
            if isinstance(b, list) and any(x is stmt for x in b):
                return b
    raise AnalysisError("statement not found in a block")


def _stmt_in(blk, node):
    for s in blk:
        if s is node:
            return s
    raise AnalysisError("stmt")


# --------------------------------------------------------------------------------------- RS3
@rule("RS3", ["C07", "C08", "C14"], "disabled blocks are skipped by both semantic visitors; sub-object blocks only under used-random composites",
      engine="PE", floor=3)
def rs3(prog, rr):
    for vc in ("RandInfoBuilder", "VariableBoundVisitor"):
        f = prog.method(vc, "visit_constraint_block")
        p = f.params[1]
        for enabled in (False, True):
            hits = []

            def ev(node, st, dom, hits=hits):
                if isinstance(node, ast.Call) and (call_name(node) in ("visit_constraint_block", "visit_constraint_scope", "accept")
                                                   and not (call_name(node) == "accept" and "c." not in norm(node) and p + "." not in norm(node))):
                    if call_name(node) != "visit_constraint_block" or isinstance(node.func.value, ast.Call):
                        hits.append(node)
            specialise(f, None, None, None, on_event=ev,
                       assume={p + ".enabled": enabled, "self._used_rand": True, "self.phase == 0": True, "self.phase != 1": True,
                               "self.phase == 1": False, "RandInfoBuilder.EN_DEBUG": False})
            rr.inst("%s.visit_constraint_block(enabled=%s): descent sites %d" % (vc, enabled, len(hits)))
            if not enabled and hits:
                rr.finding(f, hits[0], vc + ".visit_constraint_block", "RS3: a block with constraint_mode off is still traversed "
                           "(disabled constraints enforced / used for bounds)", text="descends when disabled")
            if enabled and not hits:
                rr.finding(f, f.node, vc + ".visit_constraint_block", "RS3: an enabled block is never traversed", text="no descent when enabled")
    # used-rand gating in RandInfoBuilder
    f = prog.method("RandInfoBuilder", "visit_constraint_block")
    hits = []

    def ev2(node, st, dom):
        if isinstance(node, ast.Call) and call_name(node) == "visit_constraint_block" and isinstance(node.func.value, ast.Call):
            hits.append(node)
    specialise(f, None, None, None, on_event=ev2, assume={f.params[1] + ".enabled": True, "self._used_rand": False})
    rr.inst("RandInfoBuilder.visit_constraint_block(_used_rand=False): %d descents" % len(hits))
    if hits:
        rr.finding(f, hits[0], "RandInfoBuilder.visit_constraint_block", "RS3: blocks of a composite that is not used as random are traversed",
                   text="descends when not used rand")
    vf = prog.method("RandInfoBuilder", "visit_composite_field")
    t = norm(vf.node)
    saves = [n for n in walk_local(vf.node) if isinstance(n, ast.Assign) and norm(n.targets[0]) == "self._used_rand"]
    rr.inst("RandInfoBuilder.visit_composite_field: %d writes of _used_rand" % len(saves))
    srcs = [norm(s.value) for s in saves]
    p = vf.params[1]
    if not any(x == p + ".is_used_rand" for x in srcs):
        rr.finding(vf, vf.node, "RandInfoBuilder.visit_composite_field", "RS3: _used_rand is not taken from the composite's is_used_rand (found %s)" % srcs,
                   text="_used_rand source")
    if len(saves) < 2 or not isinstance(saves[-1].value, ast.Name):
        rr.finding(vf, vf.node, "RandInfoBuilder.visit_composite_field", "RS3: _used_rand is not restored after visiting the composite", text="_used_rand restore")


# --------------------------------------------------------------------------------------- RS4
@rule("RS4", ["C05"], "soft priorities: cleared per call on roots and inline constraints, only incremented, class before inline", engine="SAI", floor=5)
def rs4(prog, rr):
    dr = prog.method("Randomizer", "do_randomize")
    csp = prog.cls("ClearSoftPriorityVisitor")
    # (1) the clearing visitor: visit_constraint_soft zeroes the priority; memo fresh per clear()
    vs = prog.lookup(csp, "visit_constraint_soft")
    z = [n for n in walk_local(vs.node) if isinstance(n, ast.Assign) and any(norm(t).endswith(".priority") for t in n.targets)
         and isinstance(n.value, ast.Constant) and n.value.value == 0]
    rr.inst("ClearSoftPriorityVisitor.visit_constraint_soft zeroes priority: %s" % bool(z))
    if vs.cls is not csp or not z:
        rr.finding(csp, csp.node, "ClearSoftPriorityVisitor.visit_constraint_soft", "RS4: soft priorities are not reset to 0", text="priority = 0")
    memo = [a for a, v in _init_attrs(csp).items() if isinstance(v, ast.Call) and call_name(v) in ("set", "list", "dict") or isinstance(v, (ast.List, ast.Set, ast.Dict))]
    used_memo = set()
    for f in csp.methods.values():
        for n in walk_local(f.node):
            if isinstance(n, ast.Compare) and any(isinstance(o, (ast.NotIn, ast.In)) for o in n.ops):
                for c in n.comparators:
                    d = dotted(c)
                    if d and d.startswith("self.") and d[5:] in memo:
                        used_memo.add(d[5:])
    clr = prog.lookup(csp, "clear")
    fresh_in_clear = set()
    if clr is not None:
        seen_accept = False
        for s in clr.node.body:
            for n in walk_local(s):
                if isinstance(n, ast.Call) and call_name(n) == "accept":
                    seen_accept = True
                if not seen_accept:
                    if isinstance(n, ast.Call) and call_name(n) == "clear" and (recv_text(n) or "").startswith("self."):
                        fresh_in_clear.add(recv_text(n)[5:])
                    if isinstance(n, ast.Assign):
                        for t in n.targets:
                            d = dotted(t)
                            if d and d.startswith("self."):
                                fresh_in_clear.add(d[5:])
    # visitor constructed inside do_randomize (fresh per call)?
    loc = None
    for n in walk_local(dr.node):
        if isinstance(n, ast.Assign) and isinstance(n.value, ast.Call) and (dotted(n.value.func) or "").split(".")[-1] == "ClearSoftPriorityVisitor":
            loc = n.targets[0].id if isinstance(n.targets[0], ast.Name) else None
    clear_calls = [n for n in walk_local(dr.node) if isinstance(n, ast.Call) and call_name(n) == "clear" and isinstance(n.func.value, (ast.Name, ast.Attribute))
                   and n.args]
    rr.inst("do_randomize: %d soft-priority clear() calls, visitor local=%s, memo=%s reset-in-clear=%s" % (len(clear_calls), loc, sorted(used_memo), sorted(fresh_in_clear)))
    rr.require(clear_calls, "do_randomize no longer clears soft priorities")
    for c in clear_calls:
        fresh_obj = loc is not None and norm(c.func.value) == loc
        stale = used_memo - fresh_in_clear
        if stale and not fresh_obj:
            rr.finding(dr, c, "Randomizer.do_randomize", "RS4: soft priorities are cleared through a visitor that outlives the call and whose "
                       "visited-memo %s is not reset in clear(): from the second call on, already-visited objects are skipped and their "
                       "priorities keep growing" % sorted(stale))
    # (2) ordering: clear on every root and every inline constraint before RandInfoBuilder.build
    _order_in(rr, dr, "Randomizer.do_randomize")
    # (3) _soft_priority only grows
    rib = prog.cls("RandInfoBuilder")
    for f in rib.methods.values():
        for n in walk_local(f.node):
            if isinstance(n, (ast.Assign, ast.AugAssign)):
                tg = n.targets if isinstance(n, ast.Assign) else [n.target]
                if any(norm(t) == _soft_attrs(prog)[1] for t in tg):
                    rr.inst("RandInfoBuilder.%s writes _soft_priority: %s" % (f.name, norm(n)))
                    ok = (f.name == "__init__" and isinstance(n, ast.Assign) and isinstance(n.value, ast.Constant) and n.value.value == 0) or \
                         (isinstance(n, ast.AugAssign) and isinstance(n.op, ast.Add) and isinstance(n.value, ast.Constant) and n.value.value > 0)
                    if not ok:
                        rr.finding(f, n, "RandInfoBuilder." + f.name, "RS4: _soft_priority is written by '%s'; it may only be initialised to 0 and "
                                   "incremented (later soft constraints must get a higher priority)" % norm(n))
    vsoft = prog.method("RandInfoBuilder", "visit_constraint_soft")
    p = vsoft.params[1]
    pw = [n for n in walk_local(vsoft.node) if isinstance(n, (ast.Assign, ast.AugAssign)) and norm(n.targets[0] if isinstance(n, ast.Assign) else n.target) == p + ".priority"]
    rr.inst("RandInfoBuilder.visit_constraint_soft priority writes: %s" % [norm(x) for x in pw])
    if not pw or not all(_soft_attrs(prog)[1] in norm(x.value) for x in pw):
        rr.finding(vsoft, vsoft.node, "RandInfoBuilder.visit_constraint_soft", "RS4: a soft constraint's priority is not derived from the running "
                   "_soft_priority counter", text="priority source")
    # (4) in RandInfoBuilder.build each pass visits the field models before the inline constraints
    b = prog.method("RandInfoBuilder", "build")
    loops = [s for s in b.node.body if isinstance(s, ast.For) and any(isinstance(n, ast.Call) and call_name(n) == "accept" for n in walk_local(s))]
    seq = [norm(s.iter) for s in loops]
    rr.inst("RandInfoBuilder.build visit loops: %s" % seq)
    fm, cl = b.params[0], b.params[1]
    if seq[:4] != [fm, cl, fm, cl]:
        rr.finding(b, b.node, "RandInfoBuilder.build", "RS4: visit order of the passes is %s; expected field models before inline constraints "
                   "in each pass (inline soft constraints must outrank class-level ones)" % seq, text="pass order")


def _init_attrs(cls):
    out = {}
    f = cls.methods.get("__init__")
    if f is None:
        return out
    for n in walk_local(f.node):
        if isinstance(n, ast.Assign):
            for t in n.targets:
                d = dotted(t)
                if d and d.startswith("self."):
                    out[d[5:]] = n.value
    return out


def _order_in(rr, dr, cname):
    """clear(f) for f in field_model_l and clear(c) for c in constraint_l dominate RandInfoBuilder.build"""
    class D(Domain):
        def initial_user(s):
            return frozenset()

        def on_for(s, st, node, first=True):
            # a loop whose body unconditionally clears its element clears every element once it has run to completion
            tok = s.loop_tok.get(id(node))
            if tok:
                return [("enter", st), ("exit", st._replace(u=st.u | {tok}))]
            return [("enter", st), ("exit", st)]

        def on_call(s, st, call, ctx):
            nm = call_name(call)
            if nm == "build" and norm(call.func.value) == "RandInfoBuilder":
                s.seen_build = True
                needs = ["clear:" + norm(a) for a in call.args[:2]] if len(call.args) >= 2 else ["clear:field_model_l", "clear:constraint_l"]
                for need in needs:
                    if not any(t.startswith("clear:") and s.alias(t[6:]) == s.alias(need[6:]) for t in st.u):
                        rr.finding(dr, call, cname, "RS4: RandInfoBuilder.build is reached on a path where soft priorities were not cleared "
                                   "for every element of %s" % need.split(":")[1], text="build without " + need)
            return [(FALL, st, None)]
    d = D()
    d.loop_tok = {}
    d.seen_build = False
    # names connected by plain copies (`a = b`) denote the same list
    parent = {}

    def find(x):
        while parent.get(x, x) != x:
            x = parent[x]
        return x
    for a in walk_local(dr.node):
        if isinstance(a, ast.Assign) and len(a.targets) == 1 and isinstance(a.targets[0], ast.Name) and isinstance(a.value, ast.Name):
            parent[find(a.targets[0].id)] = find(a.value.id)
    d.alias = find
    for lp in walk_local(dr.node):
        if isinstance(lp, ast.For):
            for stt in lp.body:
                if isinstance(stt, ast.Expr) and isinstance(stt.value, ast.Call) and call_name(stt.value) == "clear" \
                        and stt.value.args and norm(stt.value.args[0]) == norm(lp.target):
                    d.loop_tok[id(lp)] = "clear:" + norm(lp.iter)
    Interp(d, func=dr).run(dr.node)
    rr.require(d.seen_build, "RandInfoBuilder.build call not found in do_randomize")


# --------------------------------------------------------------------------------------- RS5
def _soft_attrs(prog):
    """names the builder uses today for the guard stack (what visit_constraint_if_else appends to and pops) and for the running
    soft priority (what visit_constraint_soft increments): -> ("self.<stack>", "self.<counter>")"""
    rib = prog.cls("RandInfoBuilder")
    ie = rib.methods["visit_constraint_if_else"]
    apps = [recv_text(c) for c in walk_local(ie.node) if isinstance(c, ast.Call) and call_name(c) == "append" and (recv_text(c) or "").startswith("self.")]
    pops = {recv_text(c) for c in walk_local(ie.node) if isinstance(c, ast.Call) and call_name(c) == "pop" and (recv_text(c) or "").startswith("self.")}
    stack = next((a for a in apps if a in pops), "self._soft_cond_l")
    vs = rib.methods["visit_constraint_soft"]
    incs = [norm(a.target) for a in walk_local(vs.node) if isinstance(a, ast.AugAssign) and isinstance(a.op, ast.Add) and norm(a.target).startswith("self.")]
    return stack, (incs[0] if incs else "self._soft_priority")


def _guard_kind(prog, cls, e, cond, depth=1, env=None):
    """polarity of a guard expression over `cond`: 'cond' (holds when cond is true), 'not-cond', or 'other:<text>'"""
    env = env or {}

    def const(x):
        if isinstance(x, ast.Constant):
            return x.value
        if isinstance(x, ast.Name) and x.id in env:
            return env[x.id]
        return None

    def is_cond(x):
        return norm(x) == cond or (isinstance(x, ast.Name) and env.get(x.id) == "<cond>")
    if is_cond(e):
        return "cond"
    if isinstance(e, ast.Call):
        fn = (dotted(e.func) or "").split(".")[-1]
        if fn == "ExprUnaryModel" and len(e.args) == 2 and norm(e.args[0]).endswith("UnaryExprType.Not") and is_cond(e.args[1]):
            return "not-cond"
        if fn == "ExprBinModel" and len(e.args) == 3 and is_cond(e.args[0]):
            op = e.args[1]
            if isinstance(op, ast.IfExp) and const(op.test) is not None:
                op = op.body if const(op.test) else op.orelse
            lit = e.args[2]
            zero = isinstance(lit, ast.Call) and (dotted(lit.func) or "").endswith("ExprLiteralModel") and lit.args and norm(lit.args[0]) == "0"
            if zero and norm(op) == "BinExprType.Ne":
                return "cond"
            if zero and norm(op) == "BinExprType.Eq":
                return "not-cond"
        if depth and fn in cls.methods and not e.keywords:
            g = cls.methods[fn]
            params = [a for a in g.params if a not in ("self", "cls")]
            if len(params) == len(e.args):
                env2 = {}
                for pn, a in zip(params, e.args):
                    env2[pn] = "<cond>" if is_cond(a) else const(a)
                rets = [r for r in walk_local(g.node) if isinstance(r, ast.Return) and r.value is not None]
                kinds = {_guard_kind(prog, cls, r.value, cond, depth - 1, env2) for r in rets}
                if len(kinds) == 1:
                    return kinds.pop()
    return "other:" + norm(e)


@rule("RS5", ["C05"], "soft guard stack balanced; true arm guarded by the condition, else arm by its negation", engine="SAI", floor=2)
def rs5(prog, rr):
    rib = prog.cls("RandInfoBuilder")
    GST = _soft_attrs(prog)[0]
    for h in ("visit_constraint_if_else", "visit_constraint_implies"):
        f = prog.method("RandInfoBuilder", h)
        p = f.params[1]

        class D(Domain):
            def initial_user(s):
                return (0, "none")

            def on_call(s, st, call, ctx):
                nm, rv = call_name(call), recv_text(call)
                d, top = st.u
                if rv == GST and nm == "append":
                    top = _guard_kind(prog, rib, call.args[0], p + ".cond")
                    return [(FALL, st._replace(u=(d + 1, top)), None)]
                if rv == GST and nm == "pop":
                    return [(FALL, st._replace(u=(d - 1, "none")), None)]
                if nm == "accept":
                    tgt = norm(call.func.value)
                    if tgt == p + ".true_c" and top != "cond":
                        rr.finding(f, call, "RandInfoBuilder." + h, "RS5: the true branch is visited with soft guard '%s' on top, not the condition" % top)
                    if tgt == p + ".false_c" and top != "not-cond":
                        rr.finding(f, call, "RandInfoBuilder." + h, "RS5: the else branch is visited with soft guard '%s' on top; expected Not(cond) "
                                   "(a soft under else would apply when the condition holds)" % top)
                if nm == "visit_constraint_scope" and top != "cond":
                    rr.finding(f, call, "RandInfoBuilder." + h, "RS5: the implies body is visited with soft guard '%s' on top, not the condition" % top)
                return [(FALL, st, None)]

            def on_assign(s, st, stmt):
                if isinstance(stmt, ast.Assign) and any(norm(t) == GST + "[-1]" for t in stmt.targets):
                    return st._replace(u=(st.u[0], _guard_kind(prog, rib, stmt.value, p + ".cond")))
                return st
        outs = Interp(D(), func=f).run(f.node)
        rr.inst("RandInfoBuilder.%s: %d exits" % (h, len(outs.fall | outs.ret)))
        for s in outs.fall | outs.ret:
            if s.u[0] != 0:
                rr.finding(f, f.node, "RandInfoBuilder." + h, "RS5: soft guard stack unbalanced on a path (net %+d): later soft constraints get a stale guard" % s.u[0],
                           text="guard net %+d" % s.u[0])
    vs = prog.method("RandInfoBuilder", "visit_constraint_soft")
    uses = [n for n in walk_local(vs.node) if isinstance(n, ast.Call) and (dotted(n.func) or "").endswith("ConstraintImpliesModel")]
    rr.inst("visit_constraint_soft guard wrappers: %d" % len(uses))
    if not uses:
        rr.finding(vs, vs.node, "RandInfoBuilder.visit_constraint_soft", "RS5: guarded soft constraints are no longer re-expressed as (guards) implies soft", text="no implies wrapper")


# --------------------------------------------------------------------------------------- RS6
@rule("RS6", ["C15"], "dist scopes are registered under the field of the dist lhs in the active rand set", engine="DF", floor=1)
def rs6(prog, rr):
    f = prog.method("RandInfoBuilder", "visit_constraint_dist_scope")
    p = f.params[1]
    stores = []
    for n in walk_local(f.node):
        if isinstance(n, ast.Assign):
            for t in n.targets:
                if isinstance(t, ast.Subscript) and norm(t.value) == "self._active_randset.dist_field_m":
                    stores.append((n, norm(t.slice), norm(n.value)))
        if isinstance(n, ast.Call) and call_name(n) == "append" and "dist_field_m" in (recv_text(n) or ""):
            stores.append((n, recv_text(n), norm(n.args[0])))
    rr.inst("visit_constraint_dist_scope: %d registrations" % len(stores))
    if not stores:
        rr.finding(f, f.node, "RandInfoBuilder.visit_constraint_dist_scope", "RS6: dist scope is not registered with the rand set; its weights are ignored", text="no registration")
    keydefs = [norm(n.value) for n in walk_local(f.node) if isinstance(n, ast.Assign) and isinstance(n.targets[0], ast.Name)]
    if not any((p + ".dist_c.lhs") in k for k in keydefs):
        rr.finding(f, f.node, "RandInfoBuilder.visit_constraint_dist_scope", "RS6: the registration key is not the field of the dist lhs", text="key")
    for n, k, v in stores:
        if p not in v:
            rr.finding(f, n, "RandInfoBuilder.visit_constraint_dist_scope", "RS6: registered value '%s' is not the dist scope" % v)


# --------------------------------------------------------------------------------------- RS7
@rule("RS7", ["C20"], "solve_order(before, after): before reaches the dependency (element) position, after the key; pass 0 only; no formula",
      engine="DF", floor=6)
def rs7(prog, rr):
    B, A = "BEFORE", "AFTER"
    so = prog.function("vsc.constraints", "solve_order")
    ps = so.params
    rr.require(len(ps) >= 2, "solve_order signature changed")
    role_of_param = {ps[0]: B, ps[1]: A}
    # hop 1: which list collects which parameter
    list_role = {}
    for n in walk_local(so.node):
        if isinstance(n, ast.Call) and call_name(n) == "append" and isinstance(n.func.value, ast.Name):
            lst = n.func.value.id
            src = _trace_to_params(so, n, set(role_of_param))
            for s in src:
                list_role.setdefault(lst, set()).add(role_of_param[s])
    rr.inst("solve_order lists: %s" % {k: sorted(v) for k, v in list_role.items()})
    ctor = [n for n in walk_local(so.node) if isinstance(n, ast.Call) and (dotted(n.func) or "").endswith("ConstraintSolveOrderModel")]
    rr.require(len(ctor) == 1 and len(ctor[0].args) == 2, "ConstraintSolveOrderModel construction not found in solve_order")
    arg_roles = []
    for a in ctor[0].args:
        r = list_role.get(norm(a), set())
        if len(r) != 1:
            rr.finding(so, ctor[0], "solve_order", "RS7: constructor argument '%s' mixes or lacks roles: %s" % (norm(a), sorted(r)))
            return
        arg_roles.append(next(iter(r)))
    # hop 2: constructor params -> attributes
    init = prog.method("ConstraintSolveOrderModel", "__init__")
    ip = init.params[1:]
    attr_role = {}
    for n in walk_local(init.node):
        if isinstance(n, ast.Assign) and isinstance(n.value, ast.Name) and n.value.id in ip:
            for t in n.targets:
                d = dotted(t)
                if d and d.startswith("self."):
                    attr_role[d[5:]] = arg_roles[ip.index(n.value.id)]
    rr.inst("ConstraintSolveOrderModel attrs: %s" % attr_role)
    # hop 3: RandInfoBuilder.visit_constraint_solve_order
    v = prog.method("RandInfoBuilder", "visit_constraint_solve_order")
    cp = v.params[1]
    loopvar = {}
    for lp in walk_local(v.node):
        if isinstance(lp, ast.For) and isinstance(lp.target, ast.Name):
            d = dotted(lp.iter)
            if d and d.startswith(cp + ".") and d[len(cp) + 1:] in attr_role:
                loopvar[lp.target.id] = attr_role[d[len(cp) + 1:]]
    exp_calls = [n for n in walk_local(v.node) if isinstance(n, ast.Call) and call_name(n) == "expand"]
    rr.require(exp_calls, "RandInfoBuilder.visit_constraint_solve_order no longer calls expand()")
    # pass-0 only
    for ec in exp_calls:
        g = _guards(v.node, ec)
        if not any(x.replace(" ", "") == "self._pass==0" for x in g):
            rr.finding(v, ec, "RandInfoBuilder.visit_constraint_solve_order", "RS7: ordering directives are consumed outside pass 0 (guards: %s)" % g)
    ev = prog.cls("ExpandSolveOrderVisitor")
    exp = prog.method("ExpandSolveOrderVisitor", "expand")
    vsf = prog.method("ExpandSolveOrderVisitor", "visit_scalar_field")
    einit = prog.method("ExpandSolveOrderVisitor", "__init__")
    # default lhs flag
    dflt = None
    a = einit.node.args
    names = [x.arg for x in a.args]
    if "lhs" in names:
        i = names.index("lhs") - (len(names) - len(a.defaults))
        if i >= 0 and isinstance(a.defaults[i], ast.Constant):
            dflt = bool(a.defaults[i].value)
    for ec in exp_calls:
        if len(ec.args) != 2:
            continue
        lhs0 = dflt
        ctor0 = ec.func.value
        if isinstance(ctor0, ast.Call):
            for k in ctor0.keywords:
                if k.arg == "lhs" and isinstance(k.value, ast.Constant):
                    lhs0 = bool(k.value.value)
        env = {exp.params[1]: loopvar.get(norm(ec.args[0])), exp.params[2]: loopvar.get(norm(ec.args[1]))}
        if None in env.values():
            rr.finding(v, ec, "RandInfoBuilder.visit_constraint_solve_order", "RS7: expand() arguments are not the before/after loop variables")
            continue
        res = _expand_roles(rr, exp, vsf, env, lhs0, depth=0)
        rr.inst("order_m[key].add(elem): roles %s" % sorted(res))
        rr.sample({"solve_order role flow": sorted(res)})
        for key, elem in res:
            if (key, elem) != (A, B):
                rr.finding(vsf, vsf.node, "ExpandSolveOrderVisitor.visit_scalar_field",
                           "RS7: dependency map gets order_m[%s].add(%s); toposort solves dependencies first, so solve_order(before, after) "
                           "needs order_m[AFTER].add(BEFORE)" % (key, elem), text="roles %s<-%s" % (key, elem))
        if not res:
            rr.finding(vsf, vsf.node, "ExpandSolveOrderVisitor.visit_scalar_field", "RS7: no dependency is recorded for an ordering directive", text="no add")
    # the directive contributes no formula: its class has no build(), RandInfoBuilder never add_constraint()s it
    som = prog.cls("ConstraintSolveOrderModel")
    rr.inst("ConstraintSolveOrderModel.build defined: %s" % ("build" in som.methods))
    for n in walk_local(v.node):
        if isinstance(n, ast.Call) and call_name(n) in ("add_constraint", "visit_constraint_stmt_enter", "visit_constraint_stmt_leave"):
            rr.finding(v, n, "RandInfoBuilder.visit_constraint_solve_order", "RS7: an ordering directive is treated as a constraint statement (%s)" % call_name(n))
    # groups are appended in toposort order and swizzled in list order
    b = prog.method("RandInfoBuilder", "build")
    for n in walk_local(b.node):
        if isinstance(n, ast.Call) and call_name(n) in ("reversed", "reverse") and "order" in norm(n):
            rr.finding(b, n, "RandInfoBuilder.build", "RS7: ordered groups are reversed")
        if isinstance(n, ast.For) and "toposort" in norm(n.iter):
            rr.inst("toposort loop: for %s in %s" % (norm(n.target), norm(n.iter)))
            if any(isinstance(c, ast.Call) and call_name(c) in ("reversed", "sorted") for c in ast.walk(n.iter)):
                rr.finding(b, n, "RandInfoBuilder.build", "RS7: toposort result is re-ordered: %s" % norm(n.iter))
            # rs_deps built as  rs_deps[f] = order_m[f]
    sw = prog.method("SolveGroupSwizzlerPartsel", "swizzle")
    from sa.ir import local_defs as _ld
    sdefs = _ld(sw.node)
    rsn = sw.params[2] if len(sw.params) > 2 else "rs"
    for n in walk_local(sw.node):
        if not isinstance(n, ast.For):
            continue
        # what the loop ranges over: its iterable, or - for a local - each expression that local may hold
        srcs = [norm(d) for d in sdefs.get(n.iter.id, [])] if isinstance(n.iter, ast.Name) and sdefs.get(n.iter.id) else [norm(n.iter)]
        for src in srcs:
            if "rand_order_l" in src:
                rr.inst("swizzle ordered loop: for %s in %s" % (norm(n.target), src))
                if src != "%s.rand_order_l" % rsn:
                    rr.finding(sw, n, "SolveGroupSwizzlerPartsel.swizzle", "RS7: ordered groups are iterated as '%s', not in list order" % src)


def _trace_to_params(func, call, params):
    """which of `params` the appended value is derived from (through to_expr/pop_expr pairs and loop variables)"""
    out = set()
    arg = call.args[0]
    names = {n.id for n in ast.walk(arg) if isinstance(n, ast.Name)}
    # x_e = pop_expr() right after to_expr(p)
    blk = _enclosing_block(func.node, _stmt_of(func.node, call))
    idx = blk.index(_stmt_of(func.node, call))
    for s in reversed(blk[:idx]):
        for n in ast.walk(s):
            if isinstance(n, ast.Call) and call_name(n) == "to_expr" and n.args:
                for nm in ast.walk(n.args[0]):
                    if isinstance(nm, ast.Name):
                        names.add(nm.id)
                break
        else:
            continue
        break
    par = {}
    for n in ast.walk(func.node):
        for ch in ast.iter_child_nodes(n):
            par[ch] = n
    # closure: an enclosing loop's variable stands for its iterable; a local stands for the nearest definition(s) that precede
    # the call in source order inside the same function (`item_l = before` / `item_l = [before]` in the two branches of an if)
    from sa.ir import local_defs as _ld
    before_call = {}
    for nm_, ds in _ld(func.node).items():
        before_call[nm_] = [d for d in ds if getattr(d, "lineno", 0) <= call.lineno]
    for _ in range(4):
        grew = False
        n = call
        while n in par:
            n = par[n]
            if isinstance(n, ast.For) and isinstance(n.target, ast.Name) and n.target.id in names:
                for x in ast.walk(n.iter):
                    if isinstance(x, ast.Name) and x.id not in names:
                        names.add(x.id)
                        grew = True
        for nm in list(names):
            if nm in params:
                continue
            ds = before_call.get(nm, [])
            # only the definitions closest to the call (the last assignment group before it)
            if ds:
                last = max(getattr(d, "lineno", 0) for d in ds)
                near = [d for d in ds if last - getattr(d, "lineno", 0) <= 3]
                for d in near:
                    for x in ast.walk(d):
                        if isinstance(x, ast.Name) and x.id not in names and x.id not in ("pop_expr", "to_expr"):
                            names.add(x.id)
                            grew = True
        if not grew:
            break
    for nm in list(names):
        if nm in params:
            out.add(nm)
    return out


def _stmt_of(fnode, node):
    par = {}
    for n in ast.walk(fnode):
        for ch in ast.iter_child_nodes(n):
            par[ch] = n
    n = node
    while n in par and not isinstance(n, ast.stmt):
        n = par[n]
    return n


def _expand_roles(rr, exp, vsf, env, lhs, depth):
    """symbolically run ExpandSolveOrderVisitor.expand(a, b) with role environment env"""
    if depth > 3 or lhs is None:
        return set()
    pa, pb = exp.params[1], exp.params[2]
    # self.X = param
    attr = {}
    for n in walk_local(exp.node):
        if isinstance(n, ast.Assign) and isinstance(n.value, ast.Name) and n.value.id in env:
            for t in n.targets:
                d = dotted(t)
                if d and d.startswith("self."):
                    attr[d] = env[n.value.id]
    visited = None

    def ev(node, st, dom):
        nonlocal visited
        if isinstance(node, ast.Call) and call_name(node) == "accept":
            rv = node.func.value
            if isinstance(rv, ast.IfExp) and norm(rv.test).replace(" ", "") in ("self.lhs", "notself.lhs"):
                pick_body = lhs if norm(rv.test).replace(" ", "") == "self.lhs" else not lhs
                rv = rv.body if pick_body else rv.orelse
            elif isinstance(rv, ast.Name):
                # a local bound once to such a choice: root = a if self.lhs else b
                ds = [a.value for a in walk_local(exp.node) if isinstance(a, ast.Assign) and len(a.targets) == 1 and norm(a.targets[0]) == rv.id]
                if len(ds) == 1 and isinstance(ds[0], ast.IfExp) and norm(ds[0].test).replace(" ", "") in ("self.lhs", "notself.lhs"):
                    pick_body = lhs if norm(ds[0].test).replace(" ", "") == "self.lhs" else not lhs
                    rv = ds[0].body if pick_body else ds[0].orelse
            tgt = norm(rv)
            visited = env.get(tgt, attr.get(tgt))
    specialise(exp, None, None, None, on_event=ev, assume={"self.lhs": lhs})
    if visited is None:
        return set()
    fparam = vsf.params[1]
    res = set()

    def val(node):
        t = norm(node)
        if t == fparam:
            return visited
        return attr.get(t)

    def ev2(node, st, dom):
        if not isinstance(node, ast.Call):
            return
        if call_name(node) == "expand" and len(node.args) == 2:
            lhs2 = None
            c0 = node.func.value
            if isinstance(c0, ast.Call):
                for k in c0.keywords:
                    if k.arg == "lhs" and isinstance(k.value, ast.Constant):
                        lhs2 = bool(k.value.value)
            env2 = {pa: val(node.args[0]), pb: val(node.args[1])}
            if None not in env2.values():
                res.update(_expand_roles(rr, exp, vsf, env2, lhs2, depth + 1))
        if call_name(node) == "add" and isinstance(node.func.value, ast.Subscript) and "order_m" in norm(node.func.value.value):
            k = val(node.func.value.slice)
            e = val(node.args[0]) if node.args else None
            if k and e:
                res.add((k, e))
    specialise(vsf, None, None, None, on_event=ev2, assume={"self.lhs": lhs})
    return res


# --------------------------------------------------------------------------------------- RS8
ORDER_FREE_CALLS = {"sorted", "len", "set", "frozenset", "min", "max", "sum", "any", "all"}


def set_typed_attrs(prog):
    """attribute names that are set-typed in every assignment across the program"""
    kinds = {}
    for f in prog.funcs:
        for n in walk_local(f.node):
            if isinstance(n, (ast.Assign, ast.AnnAssign)):
                tg = n.targets if isinstance(n, ast.Assign) else [n.target]
                v = n.value
                for t in tg:
                    if isinstance(t, ast.Attribute):
                        is_set = _is_set_expr(v) or (isinstance(n, ast.AnnAssign) and "Set[" in norm(n.annotation))
                        kinds.setdefault(t.attr, []).append(bool(is_set))
    return {a for a, ks in kinds.items() if ks and all(ks)}


def _is_set_expr(v):
    if v is None:
        return False
    if isinstance(v, (ast.Set, ast.SetComp)):
        return True
    if isinstance(v, ast.Call) and isinstance(v.func, ast.Name) and v.func.id in ("set", "frozenset"):
        return True
    return False


@rule("RS8", ["C09", "C20"], "no order-sensitive iteration over set-typed containers on the solve path", engine="CG+DF", floor=40)
def rs8(prog, rr):
    from tables.exceptions import RS8_ORDER_FREE
    sattrs = set_typed_attrs(prog)
    rr.note("set-typed attributes: %s" % sorted(sattrs))
    funcs = solve_path(prog)
    rr.note("functions reachable from do_randomize: %d" % len(funcs))
    n_iter = 0
    for f in sorted(funcs, key=lambda x: x.qual):
        local_sets = set()
        for n in walk_local(f.node):
            if isinstance(n, ast.Assign) and len(n.targets) == 1 and isinstance(n.targets[0], ast.Name) and _is_set_expr(n.value):
                local_sets.add(n.targets[0].id)
            # elements of a toposort result are sets
            if isinstance(n, (ast.For, ast.comprehension)) and isinstance(n.target, ast.Name) and "toposort(" in norm(n.iter):
                local_sets.add(n.target.id)

        def is_set(e):
            if _is_set_expr(e):
                return True
            if isinstance(e, ast.Name):
                return e.id in local_sets
            if isinstance(e, ast.Attribute):
                return e.attr in sattrs
            return False
        iters = []
        for n in walk_local(f.node):
            if isinstance(n, ast.For):
                iters.append((n.iter, n, n))
            elif isinstance(n, (ast.ListComp, ast.GeneratorExp, ast.DictComp)):
                for g in n.generators:
                    iters.append((g.iter, n, None))
            elif isinstance(n, ast.Call) and isinstance(n.func, ast.Name) and n.func.id in ("list", "tuple", "enumerate", "iter", "next") and n.args:
                iters.append((n.args[0], n, None))
            elif isinstance(n, ast.Call) and isinstance(n.func, ast.Attribute) and n.func.attr in ("extend", "pop") and False:
                pass
        for it, node, loop in iters:
            n_iter += 1
            if not is_set(it):
                continue
            key = "%s:%s" % (f.qual.replace("vsc.", "", 1), norm(it))
            if key in RS8_ORDER_FREE:
                # re-check the reason: the loop body only inserts into sets / calls add_constraint
                if loop is not None and _order_free_body(loop):
                    rr.note("exception %s: %s" % (key, RS8_ORDER_FREE[key][:80]))
                    continue
            rr.finding(f, node, f.qual.replace("vsc.", "", 1), "RS8: iteration over the set-typed '%s' on the solve path: element order depends on "
                       "object hashes (memory layout / PYTHONHASHSEED), which breaks random stability" % norm(it),
                       text="iterate %s" % norm(it))
    for i in range(n_iter):
        rr.inst("iteration site %d" % i)
    rr.note("iteration sites examined: %d" % n_iter)


def _order_free_body(loop):
    for n in walk_local(loop):
        if isinstance(n, ast.Call):
            nm = call_name(n)
            if nm not in ("add_constraint", "add", "discard", "print") and not (isinstance(n.func, ast.Name) and n.func.id in ORDER_FREE_CALLS):
                return False
        if isinstance(n, (ast.Assign, ast.AugAssign, ast.Return, ast.Break)):
            return False
    return True
