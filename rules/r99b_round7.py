"""Rules added after the seventh step (fifth seeded round, sites further from the centre): FT24 (if/else-if chains are walked to their end),
RS14 (a dynamic reference is expanded at every reference), MV1 (default traversal dispatches through the child's accept), BAL2 (a scoped
add is undone by removing the same element), ST7 (the global random module is only touched when no state was given)."""
import ast

from sa.core import rule
from sa.ir import sig_body, norm, dotted, call_name, recv_text, walk_local, names_in, local_defs, expand_locals
from sa.ir import guard_facts as _guard_facts_all


def guard_facts(fnode, node):
    """conditions under which node runs; an argument check that raises does not make what follows conditional"""
    return _guard_facts_all(fnode, node, with_raise=False)


def _q(f):
    return ("%s.%s" % (f.cls.name, f.name)) if f.cls is not None else f.name


# --------------------------------------------------------------------------------------- FT24
@rule("FT24", ["C01", "C05"], "else_if / else_then attach to the END of the if/else-if chain (the chain is walked with a loop)", engine="DF", floor=2)
def ft24(prog, rr):
    n = 0
    for f in prog.funcs:
        if f.module.name != "vsc.constraints":
            continue
        links = [x for x in walk_local(f.node) if isinstance(x, ast.Assign) and any(isinstance(t, ast.Attribute) and t.attr == "false_c" for t in x.targets)]
        if not links:
            continue
        for ln in links:
            n += 1
            tgt = [t for t in ln.targets if isinstance(t, ast.Attribute) and t.attr == "false_c"][0]
            v = norm(tgt.value)
            # the walk may run on the link variable itself or on a local it is copied from / to (a helper that returns the tail)
            cands = {v}
            for a in walk_local(f.node):
                if isinstance(a, ast.Assign) and len(a.targets) == 1 and isinstance(a.targets[0], ast.Name) and isinstance(a.value, ast.Name):
                    if a.targets[0].id == v:
                        cands.add(a.value.id)
                    if a.value.id == v:
                        cands.add(a.targets[0].id)
            walks = [w for w in walk_local(f.node) if isinstance(w, ast.While) and "false_c" in norm(w.test)
                     and any(isinstance(a, ast.Assign) and norm(a.targets[0]) in cands and norm(a.value) == norm(a.targets[0]) + ".false_c" for a in walk_local(w))
                     and w.lineno < ln.lineno]
            rr.inst("%s links %s.false_c after walking the chain: %s" % (_q(f), v, bool(walks)))
            if not walks:
                rr.finding(f, ln, _q(f), "FT24: %s.false_c is assigned without first walking to the end of the chain (`while %s.false_c is not None: "
                           "%s = %s.false_c`): with two or more else_if arms the link to the later arms is overwritten, so they vanish from the model "
                           "and the new branch applies in their place" % (v, v, v, v), text="chain tail not reached")
    rr.require(n >= 2, "else_if/else_then chain links not found (%d)" % n)


# --------------------------------------------------------------------------------------- RS14
@rule("RS14", ["C06"], "every reference to a dynamic constraint expands the block's statements where it stands", engine="DF", floor=1)
def rs14(prog, rr):
    f = prog.method("RandInfoBuilder", "visit_constraint_dynref")
    p = f.params[1]
    loops = [lp for lp in walk_local(f.node) if isinstance(lp, ast.For) and norm(lp.iter) == "%s.c.constraint_l" % p]
    desc = [c for c in walk_local(f.node) if isinstance(c, ast.Call) and call_name(c) == "accept"]
    rr.inst("RandInfoBuilder.visit_constraint_dynref: %d loops over the block, %d dispatches" % (len(loops), len(desc)))
    if not desc:
        rr.finding(f, f.node, "RandInfoBuilder.visit_constraint_dynref", "RS14: the referenced block is not walked", text="no expansion")
    for d in desc:
        g = guard_facts(f.node, d)
        if g:
            rr.finding(f, d, "RandInfoBuilder.visit_constraint_dynref", "RS14: the referenced dynamic block is only expanded when %s: a reference nested in an "
                       "if/implies body or under |, &, ~ comes first, and a later plain reference in the same call - the one that makes the block a "
                       "hard constraint - is skipped" % g, text="conditional expansion")


# --------------------------------------------------------------------------------------- MV1
@rule("MV1", ["C06", "C04", "C15"], "the default traversal hands each child to its own accept(); it never iterates a grandchild's statement list itself", engine="XS", floor=10)
def mv1(prog, rr):
    mv = prog.cls("ModelVisitor")
    n = 0
    for name, f in sorted(mv.methods.items()):
        if not name.startswith("visit_") or len(f.params) < 2:
            continue
        p = f.params[1]
        for lp in [x for x in walk_local(f.node) if isinstance(x, ast.For)]:
            n += 1
            it = lp.iter
            rr.inst("ModelVisitor.%s iterates %s" % (name, norm(it)))
            depth = 0
            e = it
            while isinstance(e, ast.Attribute):
                depth += 1
                e = e.value
            if isinstance(e, ast.Name) and e.id == p and depth >= 2 and any(isinstance(c, ast.Call) and call_name(c) == "accept" for c in walk_local(lp)):
                rr.finding(f, lp, "ModelVisitor." + name, "MV1: the default %s iterates %s itself instead of calling %s.accept(self): visitors that track the "
                           "current scope and statement index (the foreach/dist rewriters and their rollback) are not told that a new scope was "
                           "entered, so a rewrite inside the referenced block replaces the statement that holds the reference"
                           % (name, norm(it), norm(it.value)), text="grandchild iteration")
    rr.inst("ModelVisitor default handlers with loops: %d" % n)
    rr.require(n >= 10, "ModelVisitor traversal loops not recognised (%d)" % n)


# --------------------------------------------------------------------------------------- BAL2
@rule("BAL2", ["C08", "C04"], "a loop variable registered on entry to a foreach is taken out again by removing that very element", engine="DF", floor=1)
def bal2(prog, rr):
    n = 0
    for c in prog.classes:
        if not c.module.name.startswith("vsc.visitors"):
            continue
        for m in c.methods.values():
            adds = [x for x in walk_local(m.node) if isinstance(x, ast.Call) and call_name(x) in ("add", "append") and (recv_text(x) or "").startswith("self.")
                    and x.args]
            for a in adds:
                rv = recv_text(a)
                # only nesting-sensitive registrations: the method recurses (dispatches accept) between the add and its cleanup
                if not any(isinstance(x, ast.Call) and call_name(x) == "accept" and x.lineno > a.lineno for x in walk_local(m.node)):
                    continue
                cleanup = [x for x in walk_local(m.node) if isinstance(x, ast.Call) and recv_text(x) == rv and call_name(x) in ("remove", "discard", "pop", "clear")
                           and x.lineno > a.lineno]
                if not cleanup:
                    continue
                n += 1
                arg = norm(a.args[0])
                rr.inst("%s: %s.%s(%s) undone by %s" % (_q(m), rv, call_name(a), arg, [norm(x)[:40] for x in cleanup]))
                for x in cleanup:
                    if call_name(x) == "clear":
                        rr.finding(m, x, _q(m), "BAL2: on leaving, %s is cleared instead of removing %s: when this method is entered recursively (a foreach "
                                   "nested in a foreach) the outer loop's entry is dropped while the outer loop is still being unrolled, so references "
                                   "through the outer loop variable stay unexpanded and resolve to the last element" % (rv, arg), text="clear instead of remove")
                    elif call_name(x) in ("remove", "discard") and x.args and norm(x.args[0]) != arg:
                        rr.finding(m, x, _q(m), "BAL2: %s registers %s but removes %s" % (rv, arg, norm(x.args[0])), text="removes another element")
    rr.require(n >= 1, "no scoped registration found in the visitors")


# --------------------------------------------------------------------------------------- ST7
@rule("ST7", ["C09"], "the free functions draw a default state from Python's global random module only when no randstate was passed", engine="DF", floor=2)
def st7(prog, rr):
    n = 0
    for fn in ("randomize", "randomize_with"):
        f = prog.function("vsc.methods", fn)
        draws = [c for c in walk_local(f.node) if isinstance(c, ast.Call) and (norm(c.func) in ("random.randint", "random.random", "random.getrandbits", "RandState.mk")
                                                                               or call_name(c) == "mk" and "RandState" in norm(c.func))]
        par = {}
        for x in ast.walk(f.node):
            for ch in ast.iter_child_nodes(x):
                par[ch] = x
        for d in draws:
            n += 1
            g = guard_facts(f.node, d)
            guarded = any("randstate" in t for t in g)
            # evaluated eagerly as an argument of another call (dict.get default) - unless that call is the RandState constructor itself
            e = d
            eager = False
            while e in par and not isinstance(par[e], ast.stmt):
                e = par[e]
                if isinstance(e, ast.Call) and e is not d and call_name(e) in ("get", "setdefault", "pop"):
                    eager = True
            rr.inst("%s: global-random draw %s guarded by %s" % (fn, norm(d)[:40], g))
            if eager or not guarded:
                rr.finding(f, d, fn, "ST7: %s draws from Python's global random module (%s) %s: a call that passes randstate= then advances the global "
                           "generator too, so the values of objects that rely on the global seed depend on unrelated explicit-state calls"
                           % (fn, norm(d)[:40], "as an eagerly evaluated default argument" if eager else "on a path where a randstate may have been given"),
                           text="unguarded global draw")
    rr.require(n >= 2, "default-state draws not found in vsc.methods.randomize/randomize_with (%d)" % n)


# --------------------------------------------------------------------------------------- CV24
@rule("CV24", ["C10"], "a bin_array's ranges are sorted and merged (compact) on every path before bins are made from them", engine="DF", floor=1)
def cv24(prog, rr):
    c = prog.cls("bin_array", "vsc.coverage")
    comps = []
    for m in c.methods.values():
        for x in walk_local(m.node):
            if isinstance(x, ast.Call) and call_name(x) == "compact" and recv_text(x) == "self.ranges":
                comps.append((m, x, guard_facts(m.node, x)))
    rr.inst("bin_array compactions of self.ranges: %s" % [(m.name, g) for m, x, g in comps])
    if not comps:
        rr.finding(c, c.node, "bin_array", "CV24: the ranges of a bin_array are never compacted", text="no compact")
    elif not any(not g for m, x, g in comps):
        m, x, g = comps[0]
        rr.finding(m, x, "bin_array." + m.name, "CV24: the ranges of a bin_array are only sorted/merged when %s: unordered, overlapping or repeated ranges "
                   "(bin_array([4], (16,23), (0,7))) otherwise reach the partitioning as written - bin 0 holds 16..19 and overlaps are counted twice"
                   % g, text="conditional compact")


# --------------------------------------------------------------------------------------- CV27
@rule("CV27", ["C13", "C11", "C10"], "a bin container passes the child the index it reduced while locating the child", engine="DF", floor=3)
def cv27(prog, rr):
    n = 0
    for cn in ("CoverpointBinCollectionModel", "CoverpointModel"):
        c = prog.cls(cn)
        for name, m in sorted(c.methods.items()):
            for lp in [x for x in walk_local(m.node) if isinstance(x, ast.For)]:
                subs = [a for a in walk_local(lp) if isinstance(a, ast.AugAssign) and isinstance(a.op, ast.Sub) and isinstance(a.target, ast.Name)
                        and "get_n_bins()" in norm(a.value)]
                if not subs:
                    continue
                v = subs[0].target.id
                # calls on the located child after the loop
                after = [x for st in m.node.body for x in walk_local(st) if isinstance(x, ast.Call) and x.lineno > lp.end_lineno
                         and isinstance(x.func, ast.Attribute) and x.func.attr.startswith("get_") and x.args]
                rets = [x for x in walk_local(m.node) if isinstance(x, ast.Return) and x.value is not None and x.lineno > lp.end_lineno]
                copies = {a.targets[0].id for a in walk_local(m.node) if isinstance(a, ast.Assign) and a.lineno > lp.end_lineno and len(a.targets) == 1
                          and isinstance(a.targets[0], ast.Name) and norm(a.value) == v}
                for call in after:
                    n += 1
                    a0 = norm(call.args[0])
                    if a0 in copies:
                        a0 = v
                    rr.inst("%s.%s: child looked up with reduced index %s, called with %s" % (cn, name, v, a0))
                    if a0 != v and v not in names_in(call.args[0]):
                        rr.finding(m, call, "%s.%s" % (cn, name), "CV27: the loop reduces '%s' to the index inside the located child, but the child is asked with '%s' (the "
                                   "container-level index): a multi-bin child that is not the first one reports the name / hits of a position it does not "
                                   "have" % (v, a0), text="child asked with container index")
                for r in rets:
                    if isinstance(r.value, ast.Tuple) and len(r.value.elts) == 2:
                        n += 1
                        if norm(r.value.elts[1]) != v:
                            rr.finding(m, r, "%s.%s" % (cn, name), "CV27: returns (%s) but the index reduced in the loop is '%s'" % (norm(r.value), v), text="returns container index")
    rr.require(n >= 3, "bin lookup loops not recognised (%d)" % n)


# --------------------------------------------------------------------------------------- OPT2
@rule("OPT2", ["C12", "C10", "C11"], "coverpoints and crosses build their option model from the covergroup's options (inheritance)", engine="XS", floor=2)
def opt2(prog, rr):
    n = 0
    for f in prog.funcs:
        if f.module.name != "vsc.coverage" or f.name != "build_cov_model":
            continue
        for c in walk_local(f.node):
            if isinstance(c, ast.Call) and call_name(c) == "create_model" and "options" in (recv_text(c) or ""):
                n += 1
                a = [norm(x) for x in c.args] + [norm(k.value) for k in c.keywords]
                rr.inst("%s: %s.create_model(%s)" % (_q(f), recv_text(c), ", ".join(a)))
                if not any(x.endswith(".options") for x in a):
                    rr.finding(f, c, _q(f), "OPT2: %s builds its option model without the covergroup's options: at_least / weight set on the covergroup are not "
                               "inherited, so a bin counts as covered on its first hit and the item's coverage is too high" % _q(f), text="no parent options")
    rr.require(n >= 2, "option model construction not found in build_cov_model (%d)" % n)


# --------------------------------------------------------------------------------------- CV26
@rule("CV26", ["C13"], "every instance name handed out for a report is remembered, so no two instances share a name", engine="SAI", floor=1)
def cv26(prog, rr):
    from sa.sai import Domain, Interp, FALL
    f = prog.method("CoverageSaveVisitor", "get_cg_instname")
    sets = {recv_text(c) for c in walk_local(f.node) if isinstance(c, ast.Call) and call_name(c) == "add" and (recv_text(c) or "").startswith("self.")}
    rr.require(sets, "CoverageSaveVisitor.get_cg_instname no longer records names")
    nm = sorted(sets)[0]
    # each branch that settles on a name (leaves the search loop) records it first
    loops = [lp for lp in walk_local(f.node) if isinstance(lp, ast.For)]
    k = 0
    for lp in loops:
        for b in [x for x in walk_local(lp) if isinstance(x, (ast.Break, ast.Return))]:
            k += 1
            blk = None
            for o in ast.walk(lp):
                for fld in ("body", "orelse"):
                    v = getattr(o, fld, None)
                    if isinstance(v, list) and any(x is b for x in v):
                        blk = v
            added = blk is not None and any(isinstance(x, ast.Call) and call_name(x) == "add" and recv_text(x) == nm
                                            for st in blk[:blk.index(b)] for x in walk_local(st))
            rr.inst("get_cg_instname: exit at line %d records the name: %s" % (b.lineno, added))
            if not added:
                rr.finding(f, b, "CoverageSaveVisitor.get_cg_instname", "CV26: a name is settled on (%s) without adding it to %s: the next instance with the same "
                           "base name is given that name again, so the report and the XML hold several instances under one name"
                           % (guard_facts(f.node, b), nm), text="name not recorded")
    rr.require(k >= 1, "name search exits not found")


# --------------------------------------------------------------------------------------- ACC1
def _acc1_scan(fnode):
    """-> (accumulators, findings): boolean accumulators over a loop.  An accumulator is a local initialised with a bool constant
    before a for loop and combined inside it.  Flagged: inside the loop it is plainly assigned from an expression over the loop
    variable that does not mention the accumulator, and the loop does not stop right there on failure - the last element decides."""
    accs, bad = [], []
    for lp in [x for x in walk_local(fnode) if isinstance(x, ast.For)]:
        lv = {n.id for n in ast.walk(lp.target) if isinstance(n, ast.Name)}
        inits = {}
        for y in walk_local(fnode):
            if isinstance(y, ast.Assign) and len(y.targets) == 1 and isinstance(y.targets[0], ast.Name) and isinstance(y.value, ast.Constant) \
                    and isinstance(y.value.value, bool) and y.lineno < lp.lineno:
                inits[y.targets[0].id] = y
        for a in walk_local(lp):
            if isinstance(a, ast.AugAssign) and isinstance(a.op, (ast.BitAnd, ast.BitOr)) and isinstance(a.target, ast.Name) and a.target.id in inits:
                accs.append((lp, a.target.id, a))
        for a in [x for x in walk_local(lp) if isinstance(x, ast.Assign) and len(x.targets) == 1 and isinstance(x.targets[0], ast.Name)]:
            X = a.targets[0].id
            if X not in inits or X in lv or X in names_in(a.value) or isinstance(a.value, ast.Constant):
                continue
            t = norm(a.value)
            if not any(v in names_in(a.value) or (v + ".") in t or (v + "[") in t or ("(%s)" % v) in t or ("%s," % v) in t or (", %s" % v) in t for v in lv):
                continue
            used_after = any(isinstance(n, ast.Name) and n.id == X and isinstance(n.ctx, ast.Load) and n.lineno > lp.end_lineno for n in walk_local(fnode))
            if not used_after:
                continue
            # does the loop stop on failure right after the assignment?
            stops = False
            for o in ast.walk(lp):
                for fld in ("body", "orelse"):
                    blk = getattr(o, fld, None)
                    if isinstance(blk, list) and any(x is a for x in blk):
                        for st in blk[blk.index(a) + 1:]:
                            if isinstance(st, ast.If) and X in names_in(st.test) and any(isinstance(b, (ast.Break, ast.Return)) for b in walk_local(st)):
                                stops = True
            accs.append((lp, X, a))
            if not stops:
                bad.append((lp, X, a))
    return accs, bad


_ACC1_POSITIVE = '''
def f(self, e):
    ok = True
    for r in e.rl:
        if isinstance(r, int):
            pass
        else:
            ok = self.check(r)
    return ok
'''


@rule("ACC1", ["C14", "C01"], "a verdict accumulated over the elements of a list depends on all of them, not on the last one", engine="DF", floor=3)
def acc1(prog, rr):
    pos = ast.parse(_ACC1_POSITIVE).body[0]
    rr.require(len(_acc1_scan(pos)[1]) == 1, "ACC1 detector does not fire on its positive example")
    from sa.cg import solve_path
    funcs = set(solve_path(prog)) | {f for f in prog.funcs if f.module.name.startswith("vsc.visitors.") or f.module.name.startswith("vsc.model.")}
    n = 0
    for f in sorted(funcs, key=lambda x: x.qual):
        accs, bad = _acc1_scan(f.node)
        for lp, X, a in accs:
            n += 1
            rr.inst("%s: accumulator '%s' over `for %s in %s`" % (_q(f), X, norm(lp.target), norm(lp.iter)[:40]))
        for lp, X, a in bad:
            rr.finding(f, a, _q(f), "ACC1: inside `for %s in %s` the verdict '%s' is overwritten with %s for each element and the loop goes on: only the last "
                       "element decides.  (In VariableBoundVisitor.visit_expr_in this classifies a range list with a random element as non-random, "
                       "so a bound is installed from the random field's previous value and feasible values are cut off.)"
                       % (norm(lp.target), norm(lp.iter)[:40], X, norm(a.value)[:50]), text="last element decides " + X)
    rr.require(n >= 3, "boolean accumulators over loops not recognised (%d)" % n)


# --------------------------------------------------------------------------------------- LW16
@rule("LW16", ["C15", "C01", "C16"], "statement builders of the facade pop every operand they push before the statement is recorded", engine="SAI", floor=3)
def lw16(prog, rr):
    from sa.sai import Domain, Interp, FALL
    fs = [f for f in prog.funcs if f.module.name == "vsc.constraints" and any(isinstance(c, ast.Call) and call_name(c) == "push_constraint_stmt" for c in walk_local(f.node))
          and any(isinstance(c, ast.Call) and call_name(c) == "to_expr" for c in walk_local(f.node))]
    rr.require(len(fs) >= 3, "facade statement builders (to_expr ... push_constraint_stmt) not found (%d)" % len(fs))
    for f in sorted(fs, key=lambda x: x.qual):
        bad = []

        class D(Domain):
            def initial_user(s):
                return 0

            def on_call(s, st, call, ctx):
                nm = call_name(call)
                if nm == "to_expr" and isinstance(call.func, ast.Name):
                    return [(FALL, st._replace(u=min(st.u + 1, 4)), None)]
                if nm == "pop_expr":
                    return [(FALL, st._replace(u=max(st.u - 1, 0)), None)]
                if nm == "push_constraint_stmt" and st.u > 0:
                    bad.append((call, st.u))
                return [(FALL, st, None)]
        Interp(D(), func=f).run(f.node)
        rr.inst("%s: operands pushed are popped before the statement is recorded: %s" % (_q(f), not bad))
        if bad:
            call, k = bad[0]
            rr.finding(f, call, _q(f), "LW16: %s records its statement while %d operand expression(s) it pushed with to_expr() are still on the expression stack: "
                       "push_constraint_stmt turns every leftover expression into a constraint of its own (a bare field reference becomes `field != 0`), "
                       "so e.g. a dist that lists 0 can never produce 0" % (_q(f), k), text="operand left on the stack")


# --------------------------------------------------------------------------------------- FT20b
@rule("FT20b", ["C14", "C18", "C15"], "a part-select evaluator shifts and masks in the order that fits how its mask is aligned", engine="DF", floor=2)
def ft20b(prog, rr):
    n = 0
    for cn, mn in (("ExprPartselectModel", "val"), ("type_base", "__getitem__"), ("ValueInt", "__getitem__")):
        if not prog.has_cls(cn):
            continue
        f = prog.cls(cn).methods.get(mn)
        if f is None:
            continue
        masks = {}
        for a in walk_local(f.node):
            if isinstance(a, ast.Assign) and len(a.targets) == 1 and isinstance(a.targets[0], ast.Name) and "1 <<" in norm(a.value) and "- 1" in norm(a.value) \
                    and any(isinstance(s, ast.BinOp) and isinstance(s.op, ast.Sub) and not isinstance(s.right, ast.Constant) for s in ast.walk(a.value)):
                v = a.value
                # pre-shifted into place:  ((1 << n) - 1) << lo
                masks[a.targets[0].id] = isinstance(v, ast.BinOp) and isinstance(v.op, ast.LShift) and not (isinstance(v.left, ast.Constant))
        for x in walk_local(f.node):
            if not (isinstance(x, ast.BinOp) and isinstance(x.op, (ast.BitAnd, ast.RShift))):
                continue
            for m, pre in masks.items():
                t = norm(x)
                if isinstance(x.op, ast.BitAnd) and m in (norm(x.left), norm(x.right)) and isinstance(x.left if norm(x.right) == m else x.right, ast.BinOp) \
                        and isinstance((x.left if norm(x.right) == m else x.right).op, ast.RShift):
                    n += 1
                    rr.inst("%s.%s: shift then mask with %s (mask %s)" % (cn, mn, m, "pre-shifted" if pre else "low-aligned"))
                    if pre:
                        rr.finding(f, x, "%s.%s" % (cn, mn), "FT20b: %s is already shifted into place but is applied after the value was shifted down" % m, text="order")
                elif isinstance(x.op, ast.RShift) and isinstance(x.left, ast.BinOp) and isinstance(x.left.op, ast.BitAnd) and m in (norm(x.left.left), norm(x.left.right)):
                    n += 1
                    rr.inst("%s.%s: mask with %s then shift (mask %s)" % (cn, mn, m, "pre-shifted" if pre else "low-aligned"))
                    if not pre:
                        rr.finding(f, x, "%s.%s" % (cn, mn), "FT20b: the low-aligned mask %s is applied BEFORE the value is shifted down (%s): for a select whose low index "
                                   "is above 0 the wrong bits are kept, so the procedural value of field[hi:lo] differs from what the solver sees"
                                   % (m, t), text="mask before shift")
    rr.require(n >= 2, "part-select shift/mask expressions not recognised (%d)" % n)


# --------------------------------------------------------------------------------------- BD10
@rule("BD10", ["C18", "C14", "C03"], "the base domain of a field is its declared type range: [0, 2^w - 1] or [-2^(w-1), 2^(w-1) - 1]", engine="DF", floor=2)
def bd10(prog, rr):
    f = prog.method("VariableBoundScalarModel", "__init__")
    adds = [c for c in walk_local(f.node) if isinstance(c, ast.Call) and call_name(c) == "add_range" and len(c.args) == 2]
    rr.require(len(adds) >= 2, "base domain construction not found in VariableBoundScalarModel.__init__")
    for c in adds:
        g = guard_facts(f.node, c)
        lo, hi = expand_locals(f.node, c.args[0]), expand_locals(f.node, c.args[1])
        signed = any("is_signed" in t and not t.startswith("not ") for t in g)
        rr.inst("base domain (%s): [%s, %s]" % ("signed" if signed else "unsigned", lo, hi))
        hi_n = c.args[1]
        if isinstance(hi_n, ast.Name):
            ds = local_defs(f.node).get(hi_n.id, [])
            hi_n = ds[0] if len(ds) == 1 else hi_n
        minus1 = isinstance(hi_n, ast.BinOp) and isinstance(hi_n.op, ast.Sub) and isinstance(hi_n.right, ast.Constant) and hi_n.right.value == 1
        if not minus1:
            rr.finding(f, c, "VariableBoundScalarModel.__init__", "BD10: the upper end of the %s base domain is %s (no `- 1`): the inclusive range reaches one past the "
                       "largest value of the type, and unconstrained fields are drawn from this range without masking - a signed field can be set to "
                       "+2^(w-1)" % ("signed" if signed else "unsigned", hi), text="upper end of base domain")
        if signed:
            import copy
            lo_n = ast.parse(lo, mode="eval").body
            neg = lo_n.operand if isinstance(lo_n, ast.UnaryOp) and isinstance(lo_n.op, ast.USub) else None
            if neg is not None and isinstance(neg, ast.BinOp) and isinstance(neg.op, ast.Sub) and isinstance(neg.right, ast.Constant) and neg.right.value == 1:
                rr.finding(f, c, "VariableBoundScalarModel.__init__", "BD10: the lower end of the signed base domain is %s = -(2^(w-1) - 1): the most negative value of "
                           "the type is outside the domain, so it is never drawn for an unconstrained field and never targeted by the swizzler" % lo,
                           text="symmetric signed base domain")
        if signed and not lo.replace(" ", "").startswith("-"):
            rr.finding(f, c, "VariableBoundScalarModel.__init__", "BD10: the lower end of the signed base domain is %s" % lo, text="lower end of base domain")


# --------------------------------------------------------------------------------------- RS15
@rule("RS15", ["C20"], "the ordering map of a rand set is built from ALL its fields, random in this call or not", engine="DF", floor=1)
def rs15(prog, rr):
    from rules.r40_randness import _full_field_getters
    full = _full_field_getters(prog)
    b = prog.method("RandInfoBuilder", "build")
    n = 0
    sites = []
    for lp in [x for x in walk_local(b.node) if isinstance(x, ast.For)]:
        if not any(isinstance(a, ast.Assign) and isinstance(a.targets[0], ast.Subscript) and "deps" in norm(a.targets[0].value) for a in walk_local(lp)):
            continue
        it = lp.iter
        inner = it.args[0] if isinstance(it, ast.Call) and call_name(it) == "enumerate" and it.args else it
        if not (isinstance(inner, ast.Call) and isinstance(inner.func, ast.Attribute)):
            continue
        sites.append((lp, inner.func.attr))
    # comprehension form: deps = {f: order[f] for f in rs.<getter>() if ...}
    for a in walk_local(b.node):
        if isinstance(a, ast.Assign) and isinstance(a.value, ast.DictComp) and "deps" in norm(a.targets[0]) and len(a.value.generators) == 1:
            inner = a.value.generators[0].iter
            if isinstance(inner, ast.Call) and isinstance(inner.func, ast.Attribute):
                sites.append((a, inner.func.attr))
    for lp, g in sites:
        n += 1
        rr.inst("ordering dependencies collected over %s()" % g)
        if g not in full:
            rr.finding(b, lp, "RandInfoBuilder.build", "RS15: the dependency map handed to toposort is filled from %s() only: with solve_order(a,b); solve_order(b,c) "
                       "and b not random in this call the entry b-after-a is dropped, a falls out of every ordered group and is never chosen first"
                       % g, text="partial ordering map")
    rr.require(n >= 1, "ordering-map loop not found in RandInfoBuilder.build")
