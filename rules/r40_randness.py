"""RN1-RN3, SH3, SH4, CB1, CB2: used-rand formula, phase order, value ownership, override lifetime,
solver-handle hygiene, callbacks."""
import ast

from sa.core import rule
from sa.ir import sig_body, norm, dotted, call_name, recv_text, walk_local, names_in, calls_in_order, AnalysisError, Func
from sa.pe import specialise, truth_table
from sa.sai import Interp, Domain, FALL, RAISE
from sa.cg import callgraph, solve_path


def _ref_used_rand(env):
    return env["is_rand"] and ((env["declared"] and env["rand_mode"]) or env["level0"])


@rule("RN1", ["C03", "C08", "C17", "C09"], "used-as-random = is_rand and ((declared and rand_mode) or level==0), propagated down; call-site discipline",
      engine="PE", floor=8)
def rn1(prog, rr):
    for cn in ("FieldScalarModel", "FieldCompositeModel"):
        f = prog.method(cn, "set_used_rand")
        ps = f.params
        rr.require(len(ps) >= 3, "%s.set_used_rand signature changed" % cn)
        is_rand, level = ps[1], ps[2]
        asg = [n for n in walk_local(f.node) if isinstance(n, ast.Assign) and any(norm(t) == "self.is_used_rand" for t in n.targets)]
        rr.require(len(asg) == 1, "%s.set_used_rand: expected exactly one assignment of self.is_used_rand, found %d" % (cn, len(asg)))
        atoms = {is_rand: "is_rand", "self.is_declared_rand": "declared", "self.rand_mode": "rand_mode",
                 "%s == 0" % level: "level0", "0 == %s" % level: "level0"}
        try:
            names, table = truth_table(asg[0].value, atoms)
        except ValueError as e:
            rr.finding(f, asg[0], cn + ".set_used_rand", "RN1: used-as-random is not a boolean function of (is_rand, declared-rand, rand_mode, "
                       "level==0): %s" % e)
            continue
        full = ["declared", "is_rand", "level0", "rand_mode"]
        bad = []
        import itertools
        for vals in itertools.product([False, True], repeat=4):
            env = dict(zip(full, vals))
            got = table[tuple(env[n] for n in names)]
            rr.inst("%s truth-table row %s" % (cn, vals))
            if got != _ref_used_rand(env):
                bad.append((env, got))
        if bad:
            env, got = bad[0]
            rr.finding(f, asg[0], cn + ".set_used_rand", "RN1: used-as-random formula differs from is_rand and ((declared and rand_mode) or "
                       "level==0) on %d of 16 valuations, e.g. %s -> %s" % (len(bad), {k: v for k, v in env.items()}, got),
                       text="formula " + norm(asg[0].value))
        rr.sample({"class": cn, "formula": norm(asg[0].value)})
    # propagation in the composite: children not in in_set get (self.is_used_rand, level+1, in_set)
    f = prog.method("FieldCompositeModel", "set_used_rand")
    level = f.params[2]
    prop = [n for n in walk_local(f.node) if isinstance(n, ast.Call) and call_name(n) == "set_used_rand"]
    rr.inst("FieldCompositeModel.set_used_rand propagation sites: %d" % len(prop))
    if not prop:
        rr.finding(f, f.node, "FieldCompositeModel.set_used_rand", "RN1: used-as-random is not propagated to the children", text="no propagation")
    for c in prop:
        a = [norm(x) for x in c.args]
        if len(a) < 2 or a[0] != "self.is_used_rand" or a[1].replace(" ", "") != level + "+1":
            rr.finding(f, c, "FieldCompositeModel.set_used_rand", "RN1: children receive (%s); expected (self.is_used_rand, %s + 1, ...) so that "
                       "randomness flows only through used-random composites" % (", ".join(a), level))
        lp = _enclosing_for(f.node, c)
        if lp is None or norm(lp.iter) != "self.field_l":
            rr.finding(f, c, "FieldCompositeModel.set_used_rand", "RN1: propagation does not iterate all of self.field_l")
        elif lp not in f.node.body or any(isinstance(n, ast.Return) and n.lineno < lp.lineno for n in walk_local(f.node)):
            # the flags of the sub-tree are recomputed on EVERY call: a skipped walk leaves flags of an earlier (possibly failed) call behind
            rr.finding(f, lp, "FieldCompositeModel.set_used_rand", "RN1: the walk over self.field_l is conditional or can be skipped by an earlier "
                       "return: the used-as-random flags below this composite then keep the values of a previous call (e.g. one that "
                       "raised before the flags were cleared)", text="propagation skipped")
    fa = prog.method("FieldArrayModel", "set_used_rand")
    calls = [norm(n) for n in walk_local(fa.node) if isinstance(n, ast.Call) and call_name(n) == "set_used_rand"]
    rr.inst("FieldArrayModel.set_used_rand: %s" % calls)
    p = fa.params
    want_super = "super().set_used_rand(%s, %s, %s)" % (p[1], p[2], p[3])
    want_size = "self.size.set_used_rand(%s, %s + 1, %s)" % (p[1], p[2], p[3])
    if want_super not in calls:
        rr.finding(fa, fa.node, "FieldArrayModel.set_used_rand", "RN1: array does not forward its arguments to the composite rule", text="super call")
    else:
        from sa.ir import guard_facts as _gf
        sc = next(n for n in walk_local(fa.node) if isinstance(n, ast.Call) and norm(n) == want_super)
        g = _gf(fa.node, sc, with_raise=False)
        if g:
            rr.finding(fa, sc, "FieldArrayModel.set_used_rand", "RN1: the list forwards to the composite rule only under %s: below a list that is not random in this "
                       "call the element flags of an earlier call survive (elements get callbacks / are solved although the list is not random)" % g,
                       text="conditional super call")
    if want_size not in calls:
        rr.finding(fa, fa.node, "FieldArrayModel.set_used_rand", "RN1: the size field does not receive (is_rand, level+1)", text="size call")
    # call-site discipline over the whole program
    dr = prog.method("Randomizer", "do_randomize")
    for fn in prog.funcs:
        for n in walk_local(fn.node):
            if isinstance(n, (ast.Assign, ast.AugAssign)):
                tg = n.targets if isinstance(n, ast.Assign) else [n.target]
                for t in tg:
                    if isinstance(t, ast.Attribute) and t.attr == "is_used_rand":
                        ok = fn.name in ("set_used_rand", "__init__") and norm(t.value) == "self"
                        rr.inst("is_used_rand write in %s" % fn.qual)
                        if not ok:
                            rr.finding(fn, n, _q(fn), "RN1: is_used_rand is written outside set_used_rand/__init__")
            if isinstance(n, ast.Call) and call_name(n) == "set_used_rand" and fn.name != "set_used_rand":
                a0 = n.args[0] if n.args else None
                lvl = n.args[1] if len(n.args) > 1 else next((k.value for k in n.keywords if k.arg == "level"), None)
                rr.inst("set_used_rand call in %s: %s" % (fn.qual, norm(n)))
                if isinstance(a0, ast.Constant) and a0.value is False:
                    continue            # locking a field after it has been solved / drawn
                if fn is dr and isinstance(a0, ast.Constant) and a0.value is True and isinstance(lvl, ast.Constant) and lvl.value == 0:
                    continue            # the root call
                if a0 is not None and norm(a0) in ("self.is_used_rand", "self.size.is_used_rand") and isinstance(lvl, ast.Constant) and isinstance(lvl.value, int) and lvl.value >= 1:
                    continue            # propagation from a container to a child it creates: the child is random only if the container is used-random
                                        # AND the child is declared random with rand_mode on (level >= 1 switches the root clause off)
                rr.finding(fn, n, _q(fn), "RN1: %s forces used-as-random with %s outside the root call of do_randomize: the field is treated as "
                           "random regardless of the randomness of the objects enclosing it" % (norm(n), "level 0" if lvl is None or
                                                                                              (isinstance(lvl, ast.Constant) and lvl.value == 0) else norm(lvl)))


def _q(f):
    return ("%s.%s" % (f.cls.name, f.name)) if f.cls is not None else f.name


def _enclosing_for(fnode, node):
    par = {}
    for n in ast.walk(fnode):
        for ch in ast.iter_child_nodes(n):
            par[ch] = n
    n = node
    while n in par:
        n = par[n]
        if isinstance(n, ast.For):
            return n
    return None


# --------------------------------------------------------------------------------------- raisers
def fault_seeds(prog):
    """functions that directly contain a fault point: a user-code call site or `raise SolveFailure`"""
    from rules.r60_state_hygiene import stack_analysis
    an = stack_analysis(prog)
    seeds = set()
    for f in prog.funcs:
        for n in walk_local(f.node):
            if isinstance(n, ast.Call) and an.user_callback(n, f):
                seeds.add(f)
            elif isinstance(n, ast.Raise) and n.exc is not None:
                d = dotted(n.exc)
                if d and d.split(".")[-1] == "SolveFailure":
                    seeds.add(f)
    return seeds


# --------------------------------------------------------------------------------------- RN2 / SH3 / CB2
PHASES = ["used_rand", "pre", "bounds1", "rewrite", "bounds2", "randinfo", "solve", "rollback", "post"]


@rule("RN2", ["C03", "C16", "C17", "C02", "C04", "C01", "C08", "C09", "C14", "C15", "C06", "C07"], "phase order of do_randomize as dominance facts; rollback in finally on every exit; overrides never outlive a call",
      engine="SAI+CG", floor=5)
def rn2(prog, rr):
    dr = prog.method("Randomizer", "do_randomize")
    seeds = fault_seeds(prog)
    cg = callgraph(prog)
    _mr = {}
    roots = dr.params[2] if len(dr.params) > 2 else "field_model_l"
    # classify call sites
    kind = {}
    loop_tok = {}
    for n in walk_local(dr.node):
        if isinstance(n, ast.Call):
            nm, rv = call_name(n), recv_text(n) or ""
            if nm == "set_used_rand" and n.args and isinstance(n.args[0], ast.Constant) and n.args[0].value is True:
                kind[id(n)] = "used_rand"
            elif nm == "pre_randomize":
                kind[id(n)] = "pre"
            elif nm == "post_randomize":
                kind[id(n)] = "post"
            elif nm == "process" and "bounds" in rv:
                kind[id(n)] = "bounds"
            elif nm == "build" and rv in ("ArrayConstraintBuilder", "DistConstraintBuilder"):
                kind[id(n)] = "rewrite"
            elif nm == "build" and rv == "RandInfoBuilder":
                kind[id(n)] = "randinfo"
            elif nm == "randomize":
                kind[id(n)] = "solve"
            elif nm == "rollback":
                kind[id(n)] = "rollback"
    callee = {"used_rand": "set_used_rand", "pre": "pre_randomize", "post": "post_randomize", "bounds": "process", "rewrite": "build",
              "randinfo": "build", "solve": "randomize", "rollback": "rollback"}
    missing = [k for k in ("used_rand", "pre", "post", "bounds", "rewrite", "randinfo", "solve", "rollback") if not any(v == k for v in kind.values())]
    if missing:
        # a phase moved into a helper (still reachable from do_randomize) is a shape this rule cannot follow: analysis error.
        # a phase whose call is reachable from nowhere below do_randomize has been dropped: that is a violation.
        reach = cg.reach_ctx([(dr, None)]) if hasattr(cg, "reach_ctx") else set()
        for k in sorted(set(kind.values())):
            rr.inst("phase %s: %d call site(s)" % (k, sum(1 for v in kind.values() if v == k)))
        for k in missing:
            elsewhere = [g for g in reach if g is not dr and any(isinstance(c, ast.Call) and call_name(c) == callee[k] for c in walk_local(g.node))]
            if k in ("pre", "rollback", "used_rand") and not any(g.cls is not None and g.cls.name == "Randomizer" for g in elsewhere):
                rr.inst("phase %s: no call site" % k)
                rr.finding(dr, dr.node, "Randomizer.do_randomize", "RN2: do_randomize never performs phase '%s' (%s is called neither here nor in a helper "
                           "of the Randomizer)%s" % (k, callee[k], {"rollback": ": the per-call foreach/dist rewrites stay installed in the object's "
                           "constraint tree and later calls solve a stale expansion", "pre": ": pre_randomize callbacks never run",
                           "used_rand": ": used-as-random flags keep the values of an earlier call"}[k]), text="phase %s dropped" % k)
            else:
                rr.require(False, "do_randomize: phase '%s' not found" % k)
        return
    for k in ("pre", "post", "solve", "randinfo"):
        n_sites = sum(1 for v in kind.values() if v == k)
        rr.inst("phase %s: %d call site(s)" % (k, n_sites))
        if n_sites != 1:
            rr.finding(dr, dr.node, "Randomizer.do_randomize", "CB2/RN2: phase '%s' has %d call sites in do_randomize; exactly one is required "
                       "(callbacks must run exactly once per call)" % (k, n_sites), text="phase %s sites=%d" % (k, n_sites))
    # bulk loops over the roots: token is earned when the loop has run over all roots
    for lp in walk_local(dr.node):
        if isinstance(lp, ast.For):
            for st in lp.body:
                for c in walk_local(st):
                    if isinstance(c, ast.Call) and id(c) in kind and kind[id(c)] in ("used_rand", "pre", "post", "rollback", "rewrite") \
                            and isinstance(st, ast.Expr) and norm(lp.iter) == roots \
                            and norm(lp.target) in names_in(c):
                        loop_tok.setdefault(id(lp), set()).add(kind[id(c)])
    need = {"pre": {"used_rand"}, "bounds1": {"pre"}, "rewrite": {"bounds1"}, "bounds2": {"rewrite"},
            "randinfo": {"bounds2", "rewrite"}, "solve": {"randinfo"}, "post": {"solve", "rollback"}}
    reported = set()

    def chk(tok, st, node):
        for r in need.get(tok, ()):
            if r not in st.u and (tok, r) not in reported:
                reported.add((tok, r))
                rr.finding(dr, node, "Randomizer.do_randomize", "RN2: phase '%s' is reached on a path where phase '%s' has not completed for every "
                           "root (order of work: %s)" % (tok, r, " < ".join(PHASES)), text="%s before %s" % (tok, r))

    class D(Domain):
        def initial_user(s):
            return frozenset()

        def skip(s, stmt):
            for n in walk_local(stmt):
                if isinstance(n, (ast.Return, ast.Raise, ast.Break, ast.Continue, ast.Try)):
                    return False
                if isinstance(n, ast.Call) and (id(n) in kind or s.may_raise(n)):
                    return False
            return True

        def may_raise(s, call):
            if id(call) in kind and kind[id(call)] in ("rollback", "used_rand"):
                return False
            if id(call) not in _mr:
                ent = cg.entry_ctx(call, dr)
                _mr[id(call)] = bool(cg.reach_ctx(ent) & seeds) if ent else False
            return _mr[id(call)]

        def on_for(s, st, node, first=True):
            toks = loop_tok.get(id(node))
            if toks:
                for t in toks:
                    if first:
                        chk(t, st, node)
                return [("enter", st), ("exit", st._replace(u=st.u | toks))]
            return [("enter", st), ("exit", st)]

        def on_call(s, st, call, ctx):
            k = kind.get(id(call))
            outs = []
            u = st.u
            if k == "bounds":
                tok = "bounds2" if "rewrite" in u else "bounds1"
                chk(tok, st, call)
                u = u | {tok}
            elif k == "rewrite":
                chk("rewrite", st, call)
            elif k in ("randinfo", "solve"):
                chk(k, st, call)
                u = u | {k}
            elif k in ("pre", "post", "used_rand", "rollback") and _enclosing_for(dr.node, call) is None:
                chk(k, st, call)
                u = u | {k}
            st2 = st._replace(u=u)
            outs.append((FALL, st2, None))
            if s.may_raise(call):
                lab = "SolveFailure" if k == "solve" else "user/solve exception via " + (call_name(call) or "?")
                outs.append((RAISE, st2, (lab, call)))
            return outs
    outs = Interp(D(), func=dr).run(dr.node)
    n_exc = 0
    seen = set()
    for (s, lab, site) in outs.rais:
        n_exc += 1
        if "rewrite" in s.u and "rollback" not in s.u:
            key = (getattr(site, "lineno", 0))
            if key in seen:
                continue
            seen.add(key)
            rr.finding(dr, site, "Randomizer.do_randomize", "SH3: exceptional exit (%s) after the per-call foreach/dist rewrites were installed "
                       "and without rolling them back for every root: the object's constraint tree keeps temporary replacements and later "
                       "calls solve a stale expansion" % lab)
    for s in outs.fall | outs.ret:
        for t in ("solve", "rollback", "post", "pre", "used_rand"):
            if t not in s.u:
                rr.finding(dr, dr.node, "Randomizer.do_randomize", "RN2: a normal exit of do_randomize skips phase '%s'" % t, text="exit without " + t)
    # everything the rewriting builders are applied to is rolled back: the roots AND the call's inline constraints (the only way
    # to the dynamic-constraint blocks they reference, which live on after the call)
    def loop_iters(k):
        out = set()
        for n in walk_local(dr.node):
            if isinstance(n, ast.Call) and kind.get(id(n)) == k:
                lp = _enclosing_for(dr.node, n)
                if lp is not None:
                    out.add(norm(lp.iter))
        return out
    rw, rb = loop_iters("rewrite"), loop_iters("rollback")
    rr.inst("rewrites applied over %s; rollback over %s" % (sorted(rw), sorted(rb)))
    for it in sorted(rw - rb):
        rr.finding(dr, dr.node, "Randomizer.do_randomize", "SH3: ArrayConstraintBuilder/DistConstraintBuilder rewrite the constraints reachable from `%s` "
                   "but nothing rolls those back: an expansion installed in a dynamic-constraint block (reached only through the inline "
                   "constraints that reference it) stays there and later calls solve it over the old list elements" % it, text="no rollback over " + it)
    rr.inst("do_randomize exits: %d normal, %d exceptional path classes" % (len(outs.fall | outs.ret), n_exc))
    rr.require(n_exc > 0, "no exceptional exit modelled for do_randomize (SolveFailure edge lost)")
    rr.sample({"function": "Randomizer.do_randomize", "phases": PHASES})


# --------------------------------------------------------------------------------------- RN3
VALUE_WRITERS = {
    # function -> (reason, required receiver suffix or None)
    "FieldScalarModel.post_randomize": ("solver read-back; guarded by `self.var is not None` (LW6)", "self"),
    "Randomizer.randomize": ("unconstrained draw; iterable filtered by is_used_rand (checked below)", None),
    "FieldArrayModel._set_size": ("array size bookkeeping field", "self.size"),
    "ConstraintForeachModel.build": ("foreach index field: an internal 32-bit field, never a user field", ".index"),
    "ArrayConstraintBuilder.visit_constraint_foreach": ("foreach index field: an internal 32-bit field, never a user field", ".index"),
}


@rule("RN3", ["C03"], "field values are written during a call only at the whitelisted, guarded sites", engine="EFF+CG", floor=5)
def rn3(prog, rr):
    from tables.exceptions import RN3_WRITERS
    funcs = solve_path(prog)
    fsm = prog.cls("FieldScalarModel")
    setters = {f for f in prog.funcs if f.name == "set_val" and f.cls is not None and fsm in prog.mro(f.cls)}
    rr.require(setters, "FieldScalarModel.set_val not found")
    writers = []
    for f in sorted(funcs, key=lambda x: x.qual):
        if f in setters:
            continue
        for n in walk_local(f.node):
            w = None
            if isinstance(n, ast.Call) and call_name(n) == "set_val" and not (isinstance(n.func.value, ast.Name) and n.func.value.id in ("self",) and f.cls is not None and fsm not in prog.mro(f.cls) and False):
                w = n
            elif isinstance(n, (ast.Assign, ast.AugAssign)):
                tg = n.targets if isinstance(n, ast.Assign) else [n.target]
                for t in tg:
                    d = dotted(t)
                    if d and (d.endswith(".val.v") or d.endswith(".val.val")):
                        w = n
            if w is not None:
                writers.append((f, w))
    rr.note("functions reachable from do_randomize: %d" % len(funcs))
    for f, w in writers:
        q = _q(f)
        rr.inst("value write in %s: %s" % (q, norm(w)[:70]))
        if q in RN3_WRITERS:
            continue
        if q in VALUE_WRITERS:
            suf = VALUE_WRITERS[q][1]
            rv = recv_text(w) if isinstance(w, ast.Call) else ""
            if suf is None or (rv or "").endswith(suf):
                continue
        rr.finding(f, w, q, "RN3: field value written on the randomize path outside the whitelisted sites (%s): %s" % (
            ", ".join(sorted(VALUE_WRITERS)), norm(w)[:80]))
    # the unconstrained draw: iterable filtered by is_used_rand
    rnd = prog.method("Randomizer", "randomize")
    for n in walk_local(rnd.node):
        if isinstance(n, ast.Call) and call_name(n) == "set_val":
            lp = _enclosing_for(rnd.node, n)
            ok = False
            if lp is not None:
                # the iterable, with a local holding the filtered list followed to its definition(s)
                srcs = [norm(lp.iter)]
                if isinstance(lp.iter, ast.Name):
                    srcs = [norm(a.value) for a in walk_local(rnd.node)
                            if isinstance(a, ast.Assign) and any(isinstance(t, ast.Name) and t.id == lp.iter.id for t in a.targets)]
                for src in srcs:
                    if "is_used_rand" in src and ("filter" in src or "if" in src):
                        if "not" not in src.split("is_used_rand")[0][-12:]:
                            ok = True
            rr.inst("unconstrained draw at line %d guarded=%s" % (n.lineno, ok))
            if not ok:
                rr.finding(rnd, n, "Randomizer.randomize", "RN3: unconstrained fields are assigned without filtering by is_used_rand: non-random "
                           "fields no constraint mentions would be overwritten")


# --------------------------------------------------------------------------------------- SH4
def handle_attrs(prog):
    """attributes that cache solver nodes: assigned from a value containing X.build(btor...) or btor.<op>(...)"""
    out = {}
    for f in prog.funcs:
        if f.cls is None or "btor" not in f.params:
            continue
        for n in walk_local(f.node):
            if isinstance(n, ast.Assign):
                v = n.value
                has = any(isinstance(c, ast.Call) and ((call_name(c) == "build" and c.args and norm(c.args[0]) == "btor")
                                                       or recv_text(c) == "btor") for c in ast.walk(v))
                if has:
                    for t in n.targets:
                        d = dotted(t)
                        if d and d.startswith("self.") and d.count(".") == 1:
                            out.setdefault((f.cls, d[5:]), []).append(f)
    # build-time memos: attributes that build() (with the self-helpers it calls) both writes and reads - whatever they hold
    # (a solver node, an expanded expression tree, a length) survives into the next call unless it is reset
    for c in prog.classes:
        if ".model." not in c.module.name:
            continue
        m = c.methods.get("build")
        if m is None or "btor" not in m.params:
            continue
        fs = [m]
        i = 0
        while i < len(fs):
            g = fs[i]
            i += 1
            for n in walk_local(g.node):
                if isinstance(n, ast.Call) and isinstance(n.func, ast.Attribute) and isinstance(n.func.value, ast.Name) \
                        and n.func.value.id == "self":
                    h = prog.lookup(c, n.func.attr)
                    if h is not None and h not in fs and h.name != "build":
                        fs.append(h)
        w, r = {}, set()
        for g in fs:
            for n in walk_local(g.node):
                if isinstance(n, ast.Attribute) and isinstance(n.value, ast.Name) and n.value.id == "self":
                    if isinstance(n.ctx, ast.Store):
                        w.setdefault(n.attr, g)
                    else:
                        r.add(n.attr)
        for a in sorted(set(w) & r):
            if (c, a) not in out:
                out[(c, a)] = [w[a]]
    # a setter that every subclass overrides, in a class that is never constructed itself, never runs
    from rules.r20_lowering import _constructed
    dead = []
    for (c, a), fs in out.items():
        subs = prog.subclasses(c, strict=True)
        if subs and not _constructed(prog, c.name) and all(all(f.name in k.methods for k in subs) for f in fs):
            dead.append((c, a))
    for k in dead:
        out.pop(k)
    return out


def _unconditional_resets(prog, cls, attr):
    """functions that unconditionally assign <obj>.attr = None: methods of cls (or a related class) on self, or any
    function resetting it through a reference (e.g. an expression node clearing the cache its array keeps for it)"""
    rel = [c for c in prog.classes if cls in prog.mro(c) or c in prog.mro(cls)]
    out = []
    for f in prog.funcs:
        if f.name == "__init__":
            continue
        for st in f.node.body:
            if isinstance(st, ast.Assign) and isinstance(st.value, ast.Constant) and st.value.value is None:
                for t in st.targets:
                    if isinstance(t, ast.Attribute) and t.attr == attr:
                        own = norm(t.value) == "self" and f.cls in rel
                        via = norm(t.value) != "self"
                        if own or via:
                            out.append(f)
    return out


@rule("SH4", ["C16", "C04", "C03", "C02", "C01"], "solver-handle attributes are reset on both exits of a solve; failure path disposes every field", engine="EFF+CG", floor=4)
def sh4(prog, rr):
    cg = callgraph(prog)
    rnd = prog.method("Randomizer", "randomize")
    dr = prog.method("Randomizer", "do_randomize")
    # regions
    fail_calls, succ_calls = [], []
    fail_if = None
    for n in walk_local(rnd.node):
        if isinstance(n, ast.If) and any(isinstance(x, ast.Raise) and "SolveFailure" in norm(x) for x in walk_local(n)):
            # innermost if whose test involves Sat
            if "Sat()" in norm(n.test):
                fail_if = n
    rr.require(fail_if is not None, "hard not-SAT branch not found in Randomizer.randomize")
    fail_body = fail_if.body if any(isinstance(x, ast.Raise) for b in fail_if.body for x in walk_local(b)) else fail_if.orelse
    def non_diag_calls(stmts):
        """calls not under a diagnostic guard (`...debug...`) and not part of building the exception"""
        out = []

        def rec(n, guarded):
            if isinstance(n, ast.If):
                g = guarded or "debug" in norm(n.test)
                for ch in n.body + n.orelse:
                    rec(ch, g)
                return
            if isinstance(n, ast.Raise):
                return
            if isinstance(n, (ast.FunctionDef, ast.ClassDef)):
                return
            if isinstance(n, ast.Call) and not guarded:
                out.append(n)
            for ch in ast.iter_child_nodes(n):
                rec(ch, guarded)
        for s_ in stmts:
            rec(s_, False)
        return out
    fail_calls = non_diag_calls(fail_body)
    last_swz = max((n.lineno for n in walk_local(rnd.node) if isinstance(n, ast.Call) and call_name(n) == "swizzle"), default=None)
    rr.require(last_swz is not None, "swizzle call not found")
    for n in walk_local(rnd.node):
        if isinstance(n, ast.Call) and n.lineno > last_swz and not any(n is c for c in fail_calls):
            succ_calls.append(n)
    fin_calls, post_calls = [], []
    for n in walk_local(dr.node):
        if isinstance(n, ast.Try):
            for b in n.finalbody:
                for c in walk_local(b):
                    if isinstance(c, ast.Call):
                        fin_calls.append(c)
            after = False
            blk = dr.node.body
            for st in blk[blk.index(n) + 1:] if n in blk else []:
                for c in walk_local(st):
                    if isinstance(c, ast.Call):
                        post_calls.append(c)

    def reach(calls, host):
        ent = []
        for c in calls:
            ent += cg.entry_ctx(c, host)
        return cg.reach_ctx(ent)
    R_fail = reach(fail_calls, rnd) | reach(fin_calls, dr)
    R_succ = reach(succ_calls, rnd) | reach(fin_calls, dr) | reach(post_calls, dr)
    rr.note("failure-path reach: %d functions; success-path reach: %d" % (len(R_fail), len(R_succ)))
    hs = handle_attrs(prog)
    rr.require(len(hs) >= 3, "solver-handle attributes not recognised (%s)" % sorted((c.name, a) for c, a in hs))
    for (cls, attr), setters in sorted(hs.items(), key=lambda kv: (kv[0][0].name, kv[0][1])):
        resets = _unconditional_resets(prog, cls, attr)
        for region, R, what in (("success", R_succ, "after a successful solve"), ("failure", R_fail, "after SolveFailure")):
            ok = [f for f in resets if f in R]
            rr.inst("handle %s.%s %s-path resets: %s" % (cls.name, attr, region, sorted(_q(f) for f in ok)))
            if not ok:
                rr.finding(setters[0], setters[0].node, "%s.%s" % (cls.name, attr),
                           "SH4: %s.%s (set in %s and read back by build()) is not reset %s: the next call reuses what the previous call "
                           "cached - a node of a dead Boolector instance, or an expansion of operands that have changed since"
                           % (cls.name, attr, _q(setters[0]), what), text="handle %s.%s not reset on %s path" % (cls.name, attr, region))
    # failure path disposes every field of every rand set
    rsc = prog.cls("RandSet")
    full = _full_field_getters(prog)
    disp = [c for c in fail_calls if call_name(c) == "dispose"]
    rr.inst("failure branch dispose sites: %d" % len(disp))
    if not disp:
        rr.finding(rnd, fail_if, "Randomizer.randomize", "SH4: the failure path does not dispose solver variables", text="no dispose on failure")
    for d in disp:
        lp = _enclosing_for(rnd.node, d)
        ok = False
        if lp is not None and isinstance(lp.iter, ast.Call) and isinstance(lp.iter.func, ast.Attribute):
            g = lp.iter.func.attr
            ok = g in full
            outer = _enclosing_for(rnd.node, lp)
            if not ok:
                rr.finding(rnd, lp, "Randomizer.randomize", "SH4: on SolveFailure only %s() of each rand set is disposed; non-random fields "
                           "referenced by constraints keep a constant node of the dead solver instance" % g)
            if outer is None or "randsets()" not in norm(outer.iter):
                rr.finding(rnd, lp, "Randomizer.randomize", "SH4: on SolveFailure not every rand set of the call is disposed (outer loop: %s)"
                           % (norm(outer.iter) if outer is not None else "none"))
    # success path: every field of every solved set
    sdisp = [c for c in succ_calls if call_name(c) == "dispose" and isinstance(c.func.value, ast.Name)]
    for d in sdisp:
        lp = _enclosing_for(rnd.node, d)
        if lp is not None and isinstance(lp.iter, ast.Call) and isinstance(lp.iter.func, ast.Attribute):
            g = lp.iter.func.attr
            rr.inst("success dispose loop over %s()" % g)
            if g not in full:
                rr.finding(rnd, lp, "Randomizer.randomize", "SH4: after a successful solve only %s() is disposed" % g)


def _full_field_getters(prog):
    rs = prog.cls("RandSet")
    addf = prog.method("RandSet", "add_field")
    full_attr = None
    for n in walk_local(addf.node):
        if isinstance(n, ast.Call) and call_name(n) == "append":
            guards = []
            par = {}
            for x in ast.walk(addf.node):
                for ch in ast.iter_child_nodes(x):
                    par[ch] = x
            y = n
            while y in par:
                y = par[y]
                if isinstance(y, ast.If):
                    guards.append(norm(y.test))
            if not any("is_used_rand" in g for g in guards):
                full_attr = recv_text(n).replace("self.", "")
    out = set()
    for name, f in rs.methods.items():
        b = sig_body(f.node)
        if len(b) == 1 and isinstance(b[0], ast.Return) and norm(b[0].value) == "self." + str(full_attr):
            out.add(name)
    return out


# --------------------------------------------------------------------------------------- CB1
@rule("CB1", ["C17"], "callbacks fire only on used-random composites with a facade; recursion guarded by the visited list", engine="SAI", floor=6)
def cb1(prog, rr):
    for cn in ("FieldCompositeModel",):
        for phase in ("pre_randomize", "post_randomize"):
            f = prog.method(cn, phase)
            cb = "do_" + phase
            vis = f.params[1]
            for used, has_if, expect in ((True, True, 1), (False, True, 0), (True, False, 0)):
                hits = []

                def ev(node, st, dom, hits=hits):
                    if isinstance(node, ast.Call) and call_name(node) == cb:
                        hits.append(node)
                specialise(f, None, None, None, on_event=ev, assume={"self.is_used_rand": used, "self.rand_if is not None": has_if,
                                                                      "self.rand_if == None": not has_if})
                rr.inst("%s.%s(used_rand=%s, facade=%s): %d callback(s)" % (cn, phase, used, has_if, len(hits)))
                if (len(hits) > 0) != (expect > 0):
                    rr.finding(f, hits[0] if hits else f.node, "%s.%s" % (cn, phase),
                               "CB1: with is_used_rand=%s and rand_if %s the user callback %s %s" % (
                                   used, "set" if has_if else "None", cb, "fires" if hits else "does not fire"),
                               text="%s used=%s facade=%s" % (cb, used, has_if))
            # callback count per invocation: at most one site
            sites = [n for n in walk_local(f.node) if isinstance(n, ast.Call) and call_name(n) == cb]
            if len(sites) != 1:
                rr.finding(f, f.node, "%s.%s" % (cn, phase), "CB1: %d call sites of %s (exactly one expected)" % (len(sites), cb), text="sites %d" % len(sites))
            # wrong-phase callback
            other = "do_post_randomize" if phase == "pre_randomize" else "do_pre_randomize"
            for n in walk_local(f.node):
                if isinstance(n, ast.Call) and call_name(n) == other:
                    rr.finding(f, n, "%s.%s" % (cn, phase), "CB1: %s invokes %s" % (phase, other))
            # recursion: children not in visited, visited push/pop balanced
            rec = [n for n in walk_local(f.node) if isinstance(n, ast.Call) and call_name(n) == phase and isinstance(n.func.value, ast.Name)]
            rr.inst("%s.%s recursion sites: %d" % (cn, phase, len(rec)))
            if not rec:
                rr.finding(f, f.node, "%s.%s" % (cn, phase), "CB1: %s is not propagated to the children" % phase, text="no recursion")
            for r in rec:
                lp = _enclosing_for(f.node, r)
                if lp is None or norm(lp.iter) != "self.field_l":
                    rr.finding(f, r, "%s.%s" % (cn, phase), "CB1: propagation does not cover all of self.field_l")
                g = _guards(f.node, r)
                if not any(("not in " + vis) in x for x in g):
                    rr.finding(f, r, "%s.%s" % (cn, phase), "CB1: recursion into a child is not guarded by `child not in %s` (a shared sub-object "
                               "would be called twice)" % vis)

            class B(Domain):
                def initial_user(s):
                    return 0

                def on_call(s, st, call, ctx):
                    if recv_text(call) == vis and call_name(call) == "append":
                        return [(FALL, st._replace(u=st.u + 1), None)]
                    if recv_text(call) == vis and call_name(call) in ("remove", "pop"):
                        return [(FALL, st._replace(u=st.u - 1), None)]
                    return [(FALL, st, None)]
            outs = Interp(B(), func=f).run(f.node)
            for s in outs.fall | outs.ret:
                if s.u != 0:
                    rr.finding(f, f.node, "%s.%s" % (cn, phase), "CB1: visited list not restored on exit (net %+d)" % s.u, text="visited net %+d" % s.u)
    # array and scalar variants delegate / guard
    fa = prog.cls("FieldArrayModel")
    for phase in ("pre_randomize", "post_randomize"):
        f = fa.methods.get(phase)
        if f is None:
            continue
        dele = [n for n in walk_local(f.node) if isinstance(n, ast.Call) and call_name(n) == phase]
        rr.inst("FieldArrayModel.%s delegations: %d" % (phase, len(dele)))
        if len(dele) != 1:
            rr.finding(f, f.node, "FieldArrayModel." + phase, "CB1: array %s delegates %d times to the composite propagation (exactly once expected)"
                       % (phase, len(dele)), text="delegations %d" % len(dele))
    # facade forwards iff the user method exists
    for cname, c in [(k.name, k) for k in prog.classes if k.name == "randobj_interposer"]:
        for phase in ("pre_randomize", "post_randomize"):
            f = c.methods.get("do_" + phase)
            rr.require(f is not None, "randobj facade method do_%s missing" % phase)
            calls = [n for n in walk_local(f.node) if isinstance(n, ast.Call) and recv_text(n) == "self" and call_name(n) in ("pre_randomize", "post_randomize")]
            rr.inst("facade do_%s forwards to %s" % (phase, [call_name(x) for x in calls]))
            if [call_name(x) for x in calls] != [phase]:
                rr.finding(f, f.node, "randobj.do_" + phase, "CB1: facade do_%s forwards to %s" % (phase, [call_name(x) for x in calls] or "nothing"),
                           text="forward")
            for x in calls:
                g = _guards(f.node, x)
                if not any("hasattr(self, '%s')" % phase in y for y in g):
                    rr.finding(f, x, "randobj.do_" + phase, "CB1: forwarding is not guarded by hasattr(self, '%s')" % phase)


def _guards(fnode, node):
    par = {}
    for n in ast.walk(fnode):
        for ch in ast.iter_child_nodes(n):
            par[ch] = n
    out = []
    n = node
    while n in par:
        p = par[n]
        if isinstance(p, ast.If) and any(n is x for x in p.body):
            out.append(norm(p.test))
        n = p
    from sa.ir import guard_facts
    for f in guard_facts(fnode, node, with_raise=False):
        if f not in out:
            out.append(f)
    return out
