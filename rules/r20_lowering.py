"""LW1-LW6, LW9: operator lowering, operand discipline, soft flag, enum domain, dispatch closure."""
import ast

from sa.core import rule
from sa.ir import sig_body, norm, dotted, call_name, recv_text, walk_local, names_in, calls_in_order, AnalysisError
from sa.pe import specialise, SpecDom
from sa.sai import Interp, Domain, FALL

# ---- reference table (oracle): SystemVerilog-style meaning of the DSL operators on Boolector
#      (op when not both-signed, op when both operands signed); None = same op for both
REF_BUILD = {
    "Eq": ("Eq", "Eq"), "Ne": ("Ne", "Ne"),
    "Gt": ("Ugt", "Sgt"), "Ge": ("Ugte", "Sgte"), "Lt": ("Ult", "Slt"), "Le": ("Ulte", "Slte"),
    "Add": ("Add", "Add"), "Sub": ("Sub", "Sub"), "Mul": ("Mul", "Mul"),
    "And": ("And", "And"), "Or": ("Or", "Or"), "Xor": ("Xor", "Xor"),
    "Sll": ("Sll", "Sll"), "Srl": ("Srl", "Srl"),
    # the documentation does not fix signed division: unsigned-only and sign-dispatched are both accepted
    "Div": [("Udiv", "Udiv"), ("Udiv", "Sdiv")],
    "Mod": [("Urem", "Urem"), ("Urem", "Srem")],
}
# BinExprType.Not is a binary opcode no facade operator can construct without a NameError
# (types.py __invert__ passes an undefined name); it is excluded from the table with that reason.
EXCLUDED = {"Not"}

# python operator each opcode must fold to in the two constant evaluators (siblings of build())
REF_PY = {
    "Eq": ast.Eq, "Ne": ast.NotEq, "Gt": ast.Gt, "Ge": ast.GtE, "Lt": ast.Lt, "Le": ast.LtE,
    "Add": ast.Add, "Sub": ast.Sub, "Mul": ast.Mult, "Div": (ast.Div, ast.FloorDiv), "Mod": ast.Mod,
    "And": ast.BitAnd, "Or": ast.BitOr, "Xor": ast.BitXor, "Sll": ast.LShift, "Srl": ast.RShift,
}


def _solver_param(func):
    ps = func.params
    for p in ps:
        if p == "btor":
            return p
    return ps[1] if len(ps) > 1 else None


def _sign_local(func):
    """local assigned from `self.lhs.is_signed() and self.rhs.is_signed()`"""
    for n in walk_local(func.node):
        if isinstance(n, ast.Assign) and len(n.targets) == 1 and isinstance(n.targets[0], ast.Name) \
                and isinstance(n.value, ast.BoolOp):
            ts = sorted(norm(v) for v in n.value.values)
            if ts == ["self.lhs.is_signed()", "self.rhs.is_signed()"]:
                return n.targets[0].id, n
    return None, None


@rule("LW1", ["C01", "C02"], "every BinExprType member lowers to the reference Boolector operator", engine="PE", floor=16)
def lw1(prog, rr):
    f = prog.method("ExprBinModel", "build")
    members = prog.enum_members("BinExprType")
    rr.require(len(members) >= 16, "BinExprType members not found")
    btor = _solver_param(f)
    sign, sign_def = _sign_local(f)
    rr.require(sign is not None, "ExprBinModel.build: no local assigned from `self.lhs.is_signed() and self.rhs.is_signed()` "
                                 "(the both-signed flag that must select signed operators)")
    rr.inst("both-signed flag: %s" % norm(sign_def.value))
    if not isinstance(sign_def.value.op, ast.And):
        rr.finding(f, sign_def, "ExprBinModel.build", "LW2: the flag that selects signed operators and sign extension is `%s`: an operation is signed only "
                   "when BOTH operands are signed; with `or` an unsigned operand of a mixed comparison is sign-extended and compared as signed"
                   % norm(sign_def.value), text="both-signed flag")
    table = {}
    for m in members:
        if m in EXCLUDED:
            continue
        seen = set()
        roles = {}
        ext_origin = {}
        raised = []

        def ev(node, st, dom, m=m, seen=seen, roles=roles, ext_origin=ext_origin):
            if isinstance(node, ast.Call):
                nm = call_name(node)
                if nm == "extend" and node.args and isinstance(node.args[0], ast.Name):
                    src = dom.defs_of(st, node.args[0].id)
                    kinds = set()
                    for d in src:
                        t = norm(d.value)
                        kinds.add("lhs" if t.startswith("self.lhs.build(") else "rhs" if t.startswith("self.rhs.build(") else "?")
                    ext_origin[id(node)] = (kinds, norm(node.args[2]) if len(node.args) > 2 else None,
                                            norm(node.args[1]) if len(node.args) > 1 else None)
                elif recv_text(node) == btor and nm not in ("Sext", "Uext", "Const"):
                    facts = dom.facts_of(st)
                    sg = facts.get(sign)
                    argroles = []
                    for a in node.args[:2]:
                        r = set()
                        if isinstance(a, ast.Name):
                            for d in dom.defs_of(st, a.id):
                                if isinstance(d.value, ast.Call) and id(d.value) in ext_origin:
                                    r |= ext_origin[id(d.value)][0]
                                    roles.setdefault("sign_args", set()).add(ext_origin[id(d.value)][1])
                                    roles.setdefault("width_args", set()).add(ext_origin[id(d.value)][2])
                                else:
                                    r.add("unextended:" + norm(d.value)[:40])
                        argroles.append(tuple(sorted(r)))
                    seen.add((nm, sg, tuple(argroles), node.lineno))

        tracked = set()
        for n in walk_local(f.node):
            if isinstance(n, ast.Assign):
                for t in n.targets:
                    if isinstance(t, ast.Name):
                        tracked.add(t.id)
        dom, outs = specialise(f, "self.op", "BinExprType", m, tracked=tracked, on_event=ev,
                               assume={"self.is_composite": False})
        # raise exits reached under this opcode (the `else: raise` arm)
        unsupported = [site for (s, lab, site) in outs.rais
                       if site is not None and "Unsupported" in norm(site)]
        table[m] = seen
        rr.inst("opcode %s -> %s" % (m, sorted({(a, b) for a, b, _, _ in seen})))
        if unsupported or not seen:
            rr.finding(f, unsupported[0] if unsupported else f.node, "ExprBinModel.build",
                       "LW1: opcode BinExprType.%s has no lowering (falls to the 'unsupported' arm / no solver op reached)" % m,
                       text="opcode %s" % m)
            continue
        ref = REF_BUILD[m]
        alts = ref if isinstance(ref, list) else [ref]
        got_uns = {a for a, sg, _, _ in seen if sg in (None, False)}
        got_sig = {a for a, sg, _, _ in seen if sg in (None, True)}
        ok = any(got_uns == {u} and got_sig == {s} for u, s in alts)
        if not ok:
            ln = min(l for _, _, _, l in seen)
            node = next((n for n in walk_local(f.node) if isinstance(n, ast.Call) and n.lineno == ln), f.node)
            rr.finding(f, node, "ExprBinModel.build",
                       "LW1: opcode BinExprType.%s lowers to %s when not both-signed and %s when both signed; reference: %s"
                       % (m, sorted(got_uns), sorted(got_sig), " or ".join("%s/%s" % a for a in alts)), text="opcode %s" % m)
        # operand order / extension (LW2)
        for a, sg, argroles, ln in seen:
            if argroles != (("lhs",), ("rhs",)):
                node = next((n for n in walk_local(f.node) if isinstance(n, ast.Call) and n.lineno == ln), f.node)
                rr.finding(f, node, "ExprBinModel.build",
                           "LW2: operands of %s for opcode %s are %s; expected (extended lhs, extended rhs) in that order"
                           % (a, m, argroles), text="opcode %s operands" % m)
        for sa in roles.get("sign_args", set()):
            if sa != sign:
                rr.finding(f, sign_def, "ExprBinModel.build",
                           "LW2: an operand is extended with signedness '%s' instead of the both-signed flag '%s'" % (sa, sign),
                           text="extend signedness %s" % sa)
    rr.sample({"function": "ExprBinModel.build", "table": {k: sorted({(a, b) for a, b, _, _ in v}) for k, v in table.items()}})
    _lw1_siblings(prog, rr, members)


def _py_ops_under(func, subject, member, roles):
    """python operators applied to (lhs, rhs) value locals on the path specialised to `member`"""
    found = set()

    def scan(node):
        for n in ast.walk(node):
            if isinstance(n, ast.BinOp):
                l, r = norm(n.left), norm(n.right)
                if l in roles["lhs"] and r in roles["rhs"]:
                    found.add((type(n.op), "lr"))
                elif l in roles["rhs"] and r in roles["lhs"]:
                    found.add((type(n.op), "rl"))
            elif isinstance(n, ast.Compare) and len(n.ops) == 1:
                l, r = norm(n.left), norm(n.comparators[0])
                if l in roles["lhs"] and r in roles["rhs"]:
                    found.add((type(n.ops[0]), "lr"))
                elif l in roles["rhs"] and r in roles["lhs"]:
                    found.add((type(n.ops[0]), "rl"))

    class D(SpecDom):
        def on_stmt(self, st, stmt):
            if isinstance(stmt, ast.If):
                scan(stmt.test)
            elif isinstance(stmt, (ast.Assign, ast.Return, ast.Expr, ast.AugAssign)):
                scan(stmt)
            return st

    dom = D(subject, member, "BinExprType")
    dom._defs = {}
    Interp(dom, func=func).run(func.node)
    return found


def _lw1_siblings(prog, rr, members):
    """the two constant evaluators of ExprBinModel must fold each opcode with the matching python operator"""
    def roles_val(f):
        # locals assigned from self.lhs.val() / self.rhs.val()
        from sa.ir import find_local
        return {"lhs": set(find_local(f.node, lambda v: norm(v) == "self.lhs.val()")), "rhs": set(find_local(f.node, lambda v: norm(v) == "self.rhs.val()"))}

    def roles_eval(f):
        # `<p>.lhs.accept(self); X = self.val` ... `<p>.rhs.accept(self); Y = self.val`
        p = f.params[1]
        side, out = None, {"lhs": set(), "rhs": set()}
        for st in f.node.body:
            if isinstance(st, ast.Expr) and isinstance(st.value, ast.Call) and norm(st.value) in ("%s.lhs.accept(self)" % p, "%s.rhs.accept(self)" % p):
                side = "lhs" if ".lhs." in norm(st.value) else "rhs"
            elif isinstance(st, ast.Assign) and norm(st.value) == "self.val" and side and isinstance(st.targets[0], ast.Name):
                out[side].add(st.targets[0].id)
        return out
    fv = prog.method("ExprBinModel", "val")
    fe = prog.method("XExprEvaluator", "visit_expr_bin")
    sibs = [(fv, "self.op", roles_val(fv)), (fe, fe.params[1] + ".op", roles_eval(fe))]
    for f, subject, roles in sibs:
        rr.require(roles["lhs"] and roles["rhs"], "%s.%s: operand value locals not recognised" % (f.cls.name, f.name))
    for f, subject, roles in sibs:
        for m in members:
            if m in EXCLUDED:
                continue
            ops = _py_ops_under(f, subject, m, roles)
            rr.inst("%s.%s opcode %s -> %s" % (f.cls.name, f.name, m, sorted(o.__name__ + ":" + d for o, d in ops)))
            want = REF_PY[m]
            want = want if isinstance(want, tuple) else (want,)
            if not ops:
                rr.finding(f, f.node, "%s.%s" % (f.cls.name, f.name),
                           "LW1: constant evaluator has no arm for opcode %s (constant folding would disagree with the solver)" % m,
                           text="opcode %s" % m)
                continue
            bad = [(o, d) for o, d in ops if o not in want or d != "lr"]
            if bad:
                rr.finding(f, f.node, "%s.%s" % (f.cls.name, f.name),
                           "LW1: opcode %s folds with %s; the solver lowering means %s(lhs, rhs)" % (
                               m, sorted(o.__name__ + ":" + d for o, d in bad), "/".join(w.__name__ for w in want)),
                           text="opcode %s" % m)


@rule("LW2", ["C01"], "context width is the max of incoming and both operand widths; extend picks Sext iff signed", engine="PE", floor=4)
def lw2(prog, rr):
    f = prog.method("ExprBinModel", "build")
    # --- ctx_width: every assignment in build() is `ctx_width = W` guarded by `W > ctx_width`, or a max(...)
    ws = set()
    par = {}
    for n in ast.walk(f.node):
        for ch in ast.iter_child_nodes(n):
            par[ch] = n
    wdefs = {}
    for n in walk_local(f.node):
        if isinstance(n, ast.Assign) and len(n.targets) == 1 and isinstance(n.targets[0], ast.Name):
            wdefs.setdefault(n.targets[0].id, []).append(n)
    for n in walk_local(f.node):
        if isinstance(n, ast.Assign) and any(isinstance(t, ast.Name) and t.id == "ctx_width" for t in n.targets):
            v = n.value
            rr.inst("ctx_width assignment line %d" % n.lineno)
            if isinstance(v, ast.Call) and call_name(v) == "max":
                for a in v.args:
                    ws |= _width_sources(a, wdefs)
                if "ctx_width" not in {norm(a) for a in v.args}:
                    rr.finding(f, n, "ExprBinModel.build", "LW2: max(...) for the context width drops the incoming ctx_width")
                continue
            p = par.get(n)
            ok = False
            if isinstance(p, ast.If) and n in p.body and isinstance(p.test, ast.Compare) and len(p.test.ops) == 1:
                l, op, r = norm(p.test.left), p.test.ops[0], norm(p.test.comparators[0])
                if (isinstance(op, (ast.Gt, ast.GtE)) and l == norm(v) and r == "ctx_width") or \
                        (isinstance(op, (ast.Lt, ast.LtE)) and r == norm(v) and l == "ctx_width"):
                    ok = True
            if not ok:
                rr.finding(f, n, "ExprBinModel.build", "LW2: context width assigned '%s' without the guard '%s > ctx_width' "
                           "(context width must be the maximum of the incoming width and both operand widths)" % (norm(v), norm(v)))
            ws |= _width_sources(v, wdefs)
    for side in ("self.lhs.width()", "self.rhs.width()"):
        if side not in ws:
            rr.finding(f, f.node, "ExprBinModel.build", "LW2: context width does not take %s into account" % side,
                       text="ctx_width sources " + side)
    # --- extend(): Sext iff signed, by ctx_width - e1.width
    ext = prog.method("ExprBinModel", "extend")
    p = ext.params
    rr.require(len(p) >= 4, "ExprBinModel.extend signature changed")
    e1, cw, sg, bt = p[0], p[1], p[2], p[3]
    for val, want in ((True, "Sext"), (False, "Uext")):
        seen = set()

        def ev(node, st, dom, seen=seen):
            if isinstance(node, ast.Call) and recv_text(node) == bt:
                seen.add((call_name(node), norm(node.args[0]) if node.args else "", norm(node.args[1]) if len(node.args) > 1 else ""))
        specialise(ext, None, None, None, on_event=ev, assume={sg: val, "%s > %s.width" % (cw, e1): True,
                                                              "%s.width < %s" % (e1, cw): True})
        rr.inst("extend(signed=%s) -> %s" % (val, sorted(seen)))
        ops = {a for a, _, _ in seen}
        if ops != {want}:
            rr.finding(ext, ext.node, "ExprBinModel.extend", "LW2: with signed=%s a narrower operand is extended with %s; expected %s"
                       % (val, sorted(ops) or "nothing", want), text="extend signed=%s" % val)
        for a, x, amt in seen:
            if x != e1 or amt.replace(" ", "") != ("%s-%s.width" % (cw, e1)):
                rr.finding(ext, ext.node, "ExprBinModel.extend", "LW2: %s(%s, %s): expected (%s, %s - %s.width)" % (a, x, amt, e1, cw, e1),
                           text="extend amount %s" % amt)
    # is_signed() of the binary node itself
    isf = prog.method("ExprBinModel", "is_signed")
    rets = [n for n in walk_local(isf.node) if isinstance(n, ast.Return)]
    rr.inst("ExprBinModel.is_signed: %d returns" % len(rets))
    for r in rets:
        v = r.value
        ok = isinstance(v, ast.BoolOp) and isinstance(v.op, ast.And) and \
            sorted(norm(x) for x in v.values) == ["self.lhs.is_signed()", "self.rhs.is_signed()"]
        if not ok:
            rr.finding(isf, r, "ExprBinModel.is_signed", "LW2: a binary expression is signed iff both operands are; found '%s'" % norm(v))


def _width_sources(v, wdefs):
    out = set()
    t = norm(v)
    if isinstance(v, ast.Name) and v.id in wdefs:
        for d in wdefs[v.id]:
            out.add(norm(d.value))
    else:
        out.add(t)
    return out


# --------------------------------------------------------------------------------------- LW3
EXPR_API = ("build", "width", "is_signed", "accept")


def _only_raises(func):
    body = sig_body(func.node)
    return len(body) == 1 and isinstance(body[0], ast.Raise)


def facade_expr_classes(prog):
    """ExprModel subclasses the user-facing facade (types.py, constraints.py, coverage.py, methods.py) can construct"""
    out = {}
    base = prog.cls("ExprModel")
    subs = {c.name: c for c in prog.subclasses(base, strict=True)}
    for mn in ("vsc.types", "vsc.constraints", "vsc.coverage", "vsc.methods", "vsc.rand_obj", "vsc.attrs"):
        m = prog.modules.get(mn)
        if m is None:
            continue
        for n in ast.walk(m.tree):
            if isinstance(n, ast.Call):
                # operand position = wrapped by expr(...) and thereby pushed on the expression stack
                d = dotted(n.func)
                if d and d.split(".")[-1] == "expr" and n.args and isinstance(n.args[0], ast.Call):
                    d2 = dotted(n.args[0].func)
                    if d2 and d2.split(".")[-1] in subs:
                        out.setdefault(d2.split(".")[-1], []).append((m, n))
    return subs, out


@rule("LW3", ["C02", "C06"], "every facade-constructible expression class answers build/width/is_signed/accept", engine="IR", floor=10)
def lw3(prog, rr):
    subs, used = facade_expr_classes(prog)
    base = prog.cls("ExprModel")
    for name in sorted(used):
        c = subs[name]
        m, site = used[name][0]
        for api in EXPR_API:
            f = prog.lookup(c, api)
            rr.inst("%s.%s" % (name, api))
            if f is None or f.cls is base or _only_raises(f):
                rr.finding(c, c.node, name, "LW3: %s.%s() resolves to %s, which only raises; the facade constructs %s at %s:%d, so a "
                           "satisfiable program using it as an operand fails with an internal exception" % (
                               name, api, "ExprModel." + api if f is not None else "nothing", name, m.relpath, site.lineno),
                           text="%s.%s" % (name, api))


# --------------------------------------------------------------------------------------- LW4
@rule("LW4", ["C05"], "soft flag forwarded verbatim by container build(); soft statements contribute nothing to the hard formula", engine="DF", floor=6)
def lw4(prog, rr):
    cm = prog.cls("ConstraintModel")
    for c in prog.subclasses(cm):
        f = c.methods.get("build")
        if f is None:
            continue
        ps = f.params
        if "soft" not in ps:
            continue
        # every nested build(...) call on a child constraint must pass `soft` through unchanged
        child_calls = []
        for n in walk_local(f.node):
            if isinstance(n, ast.Call) and call_name(n) == "build" and len(n.args) + len(n.keywords) >= 2:
                child_calls.append(n)
        for n in child_calls:
            a = n.args[1] if len(n.args) > 1 else next((k.value for k in n.keywords if k.arg == "soft"), None)
            rr.inst("%s.build -> %s" % (c.name, norm(n)))
            if a is None or norm(a) != "soft":
                rr.finding(f, n, c.name + ".build", "LW4: child constraint built with soft=%s instead of forwarding the `soft` parameter"
                           % (norm(a) if a is not None else "<default>"))
        # `soft` must not be rebound
        for n in walk_local(f.node):
            if isinstance(n, (ast.Assign, ast.AugAssign)):
                tg = n.targets if isinstance(n, ast.Assign) else [n.target]
                if any(isinstance(t, ast.Name) and t.id == "soft" for t in tg):
                    rr.finding(f, n, c.name + ".build", "LW4: the `soft` parameter is rebound")
    # ConstraintSoftModel.build: node only when soft
    sf = prog.method("ConstraintSoftModel", "build")
    for val in (True, False):
        rets = set()

        def ev(node, st, dom, rets=rets):
            if isinstance(node, ast.Return):
                rets.add("None" if node.value is None or (isinstance(node.value, ast.Constant) and node.value.value is None)
                         else norm(node.value))
        dom, outs = specialise(sf, None, None, None, on_event=ev, assume={"soft": val})
        if outs.fall:
            rets.add("None")
        rr.inst("ConstraintSoftModel.build(soft=%s) returns %s" % (val, sorted(rets)))
        if val and (rets == {"None"} or not rets):
            rr.finding(sf, sf.node, "ConstraintSoftModel.build", "LW4: soft statement yields no node even when built as soft (the soft constraint is lost)",
                       text="soft=True")
        if val and any(r != "None" and "self.expr.build(" not in r for r in rets):
            rr.finding(sf, sf.node, "ConstraintSoftModel.build", "LW4: soft node is not the build of the soft expression: %s" % sorted(rets), text="soft=True expr")
        if not val and rets != {"None"}:
            rr.finding(sf, sf.node, "ConstraintSoftModel.build", "LW4: soft statement contributes %s to the hard formula (soft=False must yield None)" % sorted(rets - {"None"}),
                       text="soft=False")
    # Randomizer.randomize: hard list built with constant False, soft list with constant True
    rnd = prog.method("Randomizer", "randomize")
    found = {"hard": 0, "soft": 0}
    for n in walk_local(rnd.node):
        if isinstance(n, ast.Call) and call_name(n) == "extend" and n.args:
            inner = {call_name(c): c for c in ast.walk(n.args[0]) if isinstance(c, ast.Call)}
            kind = "soft" if "soft_constraints" in inner else "hard" if "constraints" in inner else None
            if kind is None:
                continue
            b = [c for c in ast.walk(n.args[0]) if isinstance(c, ast.Call) and call_name(c) == "build"]
            for bc in b:
                found[kind] += 1
                a = bc.args[1] if len(bc.args) > 1 else next((k.value for k in bc.keywords if k.arg == "soft"), None)
                want = (kind == "soft")
                rr.inst("Randomizer.randomize %s list: %s" % (kind, norm(bc)))
                if not (isinstance(a, ast.Constant) and a.value is want):
                    rr.finding(rnd, bc, "Randomizer.randomize", "LW4: the %s constraint list is built with soft=%s; must be the constant %s"
                               % (kind, norm(a) if a is not None else "<default False>", want))
    rr.require(found["hard"] and found["soft"], "hard/soft build calls in Randomizer.randomize not found")
    # ConstraintScopeModel.build must skip None children when conjoining (soft children in hard mode)
    sc = prog.method("ConstraintScopeModel", "build")
    rr.inst("ConstraintScopeModel.build conjunction")


# --------------------------------------------------------------------------------------- LW5
@rule("LW5", ["C01", "C03", "C02", "C18"], "enum fields: Assert of an Or-reduction of Eq(var, Const(e)) over all enumerators under is_used_rand", engine="SAI", floor=1)
def lw5(prog, rr):
    f = prog.method("EnumFieldModel", "build")
    btor = _solver_param(f)
    asserts = [n for n in walk_local(f.node) if isinstance(n, ast.Call) and call_name(n) == "Assert" and recv_text(n) == btor]
    rr.inst("EnumFieldModel.build: %d Assert sites" % len(asserts))
    if not asserts:
        rr.finding(f, f.node, "EnumFieldModel.build", "LW5: the enumerator domain is never asserted; a random enum field can take "
                   "values that are not declared enumerators", text="no Assert")
        return
    par = {}
    for n in ast.walk(f.node):
        for ch in ast.iter_child_nodes(n):
            par[ch] = n
    for a in asserts:
        # control dependence: only `if self.is_used_rand` may guard it
        n = a
        guards = []
        while n in par:
            p = par[n]
            if isinstance(p, ast.If):
                guards.append((norm(p.test), n in p.body or any(n is x or _contains(x, n) for x in p.body)))
            if isinstance(p, (ast.For, ast.While)):
                guards.append(("loop", True))
            n = p
        bad = [g for g in guards if g[0] not in ("self.is_used_rand",) or not g[1]]
        if bad:
            rr.finding(f, a, "EnumFieldModel.build", "LW5: the domain Assert is additionally guarded by %s" % [g[0] for g in bad])
        # the asserted node: accumulated over `for e in self.enums` with Or of Eq(self.var, Const(e, ..))
        arg = a.args[0] if a.args else None
        acc = norm(arg) if arg is not None else None
        loops = [n for n in walk_local(f.node) if isinstance(n, ast.For)]
        ok_loop = False
        for lp in loops:
            it = norm(lp.iter)
            assigns = [n for n in walk_local(lp) if isinstance(n, ast.Assign) and any(norm(t) == acc for t in n.targets)]
            if not assigns:
                continue
            if it != "self.enums":
                rr.finding(f, lp, "EnumFieldModel.build", "LW5: the enumerator loop iterates '%s', not all of self.enums" % it)
            ops = set()
            eqs = 0
            from sa.ir import local_defs as _ld
            ldefs = _ld(lp)
            for asg in assigns:
                # the accumulated value, with terms hoisted into a local of the loop body (`is_e = btor.Eq(..)`) followed
                exprs = [asg.value] + [d for nm in names_in(asg.value) if nm != acc and "." not in nm for d in ldefs.get(nm, [])]
                for c in [x for e in exprs for x in ast.walk(e)]:
                    if isinstance(c, ast.Call) and recv_text(c) == btor:
                        ops.add(call_name(c))
                        if call_name(c) == "Eq":
                            eqs += 1
                            args = [norm(x) for x in c.args]
                            if "self.var" not in args or not any("Const(%s" % norm(lp.target) in x for x in args):
                                rr.finding(f, c, "EnumFieldModel.build", "LW5: domain term is %s; expected Eq(self.var, Const(<enumerator>, width))" % norm(c))
            if "Or" not in ops or "Eq" not in ops or ops - {"Or", "Eq", "Const"}:
                rr.finding(f, lp, "EnumFieldModel.build", "LW5: enumerator terms combined with %s; expected an Or of Eq terms" % sorted(ops - {"Const"}))
            ok_loop = True
        if not ok_loop:
            rr.finding(f, a, "EnumFieldModel.build", "LW5: asserted node '%s' is not accumulated in a loop over self.enums" % acc)


def _contains(tree, node):
    return any(n is node for n in ast.walk(tree))


# --------------------------------------------------------------------------------------- LW6 / RN4
@rule("LW6", ["C01", "C03"], "read-back: value from var.assignment, guarded by var, two's-complement under is_signed&width", engine="DF", floor=2)
def lw6(prog, rr):
    f = prog.method("FieldScalarModel", "post_randomize")
    sets = [n for n in walk_local(f.node) if isinstance(n, ast.Call) and call_name(n) == "set_val" and recv_text(n) == "self"]
    rr.inst("FieldScalarModel.post_randomize: %d set_val sites" % len(sets))
    rr.require(sets, "FieldScalarModel.post_randomize no longer writes the value back through self.set_val")
    par = {}
    for n in ast.walk(f.node):
        for ch in ast.iter_child_nodes(n):
            par[ch] = n
    for s in sets:
        guards = []
        n = s
        while n in par:
            p = par[n]
            if isinstance(p, ast.If) and any(_contains(x, s) for x in p.body):
                guards.append(norm(p.test))
            n = p
        if "self.var is not None" not in guards:
            rr.finding(f, s, "FieldScalarModel.post_randomize", "LW6/RN3: write-back not guarded by `self.var is not None` "
                       "(a field without a solver variable would be overwritten)")
        arg = s.args[0] if s.args else None
        if not isinstance(arg, ast.Name):
            rr.finding(f, s, "FieldScalarModel.post_randomize", "LW6: written value is not a local derived from the solver assignment")
            continue
        defs = [n for n in walk_local(f.node) if isinstance(n, ast.Assign) and any(isinstance(t, ast.Name) and t.id == arg.id for t in n.targets)]
        srcs = [norm(d.value) for d in defs]
        if not any("self.var.assignment" in x for x in srcs):
            rr.finding(f, s, "FieldScalarModel.post_randomize", "LW6: the value written back does not come from self.var.assignment (defs: %s)" % srcs)
        # sign conversion: some redefinition under a test reading both is_signed and width
        conv = False
        for d in defs:
            p = par.get(d)
            if isinstance(p, ast.If) and d in p.body:
                t = names_in(p.test)
                if "self.is_signed" in t and "self.width" in t and arg.id in names_in(d.value):
                    conv = True
        rr.inst("read-back sign conversion present=%s" % conv)
        if not conv:
            rr.finding(f, s, "FieldScalarModel.post_randomize", "LW6: no two's-complement conversion guarded by self.is_signed and the "
                       "sign bit (self.width) before the write-back", text="sign conversion")
    # RN4: build(): Var only under is_used_rand, else Const of the current value; cached only while var is None
    b = prog.method("FieldScalarModel", "build")
    btor = _solver_param(b)
    for val, want in ((True, "Var"), (False, "Const")):
        seen = set()

        def ev(node, st, dom, seen=seen):
            if isinstance(node, ast.Call) and recv_text(node) == btor and call_name(node) in ("Var", "Const"):
                seen.add((call_name(node), norm(node)))
        specialise(b, None, None, None, on_event=ev, assume={"self.is_used_rand": val, "self.var is None": True})
        rr.inst("FieldScalarModel.build(is_used_rand=%s) -> %s" % (val, sorted(x for x, _ in seen)))
        if {x for x, _ in seen} != {want}:
            rr.finding(b, b.node, "FieldScalarModel.build", "RN4: with is_used_rand=%s the field enters the solver as %s; expected %s"
                       % (val, sorted(x for x, _ in seen) or "nothing", want), text="is_used_rand=%s" % val)
        if not val:
            for x, t in seen:
                if x == "Const" and "self.val" not in t:
                    rr.finding(b, b.node, "FieldScalarModel.build", "RN4: constant for a non-random field is '%s', not its current value" % t,
                               text="Const value")
    seen = set()

    def ev2(node, st, dom, seen=seen):
        if isinstance(node, ast.Call) and recv_text(node) == btor:
            seen.add(call_name(node))
    specialise(b, None, None, None, on_event=ev2, assume={"self.var is None": False})
    rr.inst("FieldScalarModel.build(var cached) -> %s" % sorted(seen))
    if seen:
        rr.finding(b, b.node, "FieldScalarModel.build", "RN4: a cached solver node is rebuilt (%s) although self.var is set" % sorted(seen), text="cached")


# --------------------------------------------------------------------------------------- LW9
@rule("LW9", ["C01", "C02"], "dispatch closure: every accept() reaches an existing ModelVisitor handler; overrides override something", engine="IR", floor=45)
def lw9(prog, rr):
    mv = prog.cls("ModelVisitor")
    handlers = set(mv.methods)
    known = _known_dead(prog)
    for c in prog.classes:
        f = c.methods.get("accept")
        if f is None or len(f.params) < 2:
            continue
        vparam = f.params[1]
        for n in walk_local(f.node):
            if isinstance(n, ast.Call) and isinstance(n.func, ast.Attribute) and isinstance(n.func.value, ast.Name) \
                    and n.func.value.id == vparam and n.func.attr.startswith("visit_"):
                rr.inst("%s.accept -> %s" % (c.name, n.func.attr))
                if n.func.attr not in handlers and (c.name + ".accept") in known:
                    rr.note("exception %s.accept: %s" % (c.name, known[c.name + ".accept"][:90]))
                    _check_still_dead(prog, rr, c, f)
                elif n.func.attr not in handlers:
                    rr.finding(f, n, c.name + ".accept", "LW9: accept() dispatches to %s, which ModelVisitor does not define "
                               "(AttributeError when any visitor reaches a %s)" % (n.func.attr, c.name))
    for c in prog.subclasses(mv, strict=True):
        for name, f in c.methods.items():
            if name.startswith("visit_") and name not in handlers:
                others = [k for k in prog.mro(c)[1:] if name in k.methods]
                rr.inst("%s.%s override check" % (c.name, name))
                if not others and ("%s.%s" % (c.name, name)) in known:
                    rr.note("exception %s.%s: %s" % (c.name, name, known["%s.%s" % (c.name, name)][:90]))
                    if _constructed(prog, c.name):
                        rr.finding(f, f.node, "%s.%s" % (c.name, name), "LW9: %s overrides nothing in ModelVisitor and %s is now "
                                   "instantiated (the exception's reason no longer holds)" % (name, c.name), text="def " + name)
                elif not others:
                    rr.finding(f, f.node, "%s.%s" % (c.name, name), "LW9: %s overrides nothing in ModelVisitor (dead handler: a misspelt "
                               "override silently falls back to the default traversal)" % name, text="def " + name)


def _known_dead(prog):
    from tables.exceptions import LW9_DEAD
    return LW9_DEAD


def _constructed(prog, clsname):
    """constructed (or its static factories called) anywhere outside its own class body"""
    own = prog.cls(clsname)
    statics = {n for n, f in own.methods.items() if f.is_static}
    for m in prog.modules.values():
        for n in ast.walk(m.tree):
            if isinstance(n, ast.ClassDef) and n is own.node:
                continue
        for top in ast.iter_child_nodes(m.tree):
            if top is own.node:
                continue
            for n in ast.walk(top):
                if isinstance(n, ast.Call):
                    d = dotted(n.func)
                    if d and (d.split(".")[-1] == clsname or (len(d.split(".")) >= 2 and d.split(".")[-2] == clsname
                                                            and d.split(".")[-1] in statics)):
                        return True
    return False


def _check_still_dead(prog, rr, c, f):
    """the reasons in tables/exceptions.py are themselves re-checked"""
    if c.name == "FieldBoolModel" and _constructed(prog, c.name):
        rr.finding(f, f.node, c.name + ".accept", "LW9: FieldBoolModel is now constructed but its accept() dispatches to a missing handler")
    if c.name == "ExprRefModel":
        for m in prog.modules.values():
            if m.name == "vsc.coverage":
                continue
            for n in ast.walk(m.tree):
                if isinstance(n, ast.Call) and (dotted(n.func) or "").split(".")[-1] == "ExprRefModel":
                    rr.finding(m, n, "ExprRefModel", "LW9: ExprRefModel is now constructed outside coverage.py but its accept() "
                               "dispatches to a missing handler")
    if c.name == "CoverpointBinSingleValModel":
        sv = prog.cls("CoverageSaveVisitor")
        if "visit_coverpoint" not in sv.methods:
            rr.finding(sv, sv.node, "CoverageSaveVisitor", "LW9: CoverageSaveVisitor no longer overrides visit_coverpoint, so the default "
                       "traversal dispatches bins through accept(); CoverpointBinSingleValModel.accept has no handler")
