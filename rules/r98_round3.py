"""Rules added after the third seeded round (changes made of cooperating edits, fault histories, second instances):
SR1 (save/restore order), SC1 (soft classification is by kind), FT14 (no per-instance state on class-shared constraint wrappers),
FT15 (no run-time class-level caches read through inheritance; constraint elaboration enumerates the instance),
FT16 (user callbacks run outside expression mode), NM4 (build() keeps no expansion memo), IX1 (name->index tables index the list
they are appended to), CV17 (child bins get cumulative index bases)."""
import ast

from sa.core import rule
from sa.ir import sig_body, norm, dotted, call_name, recv_text, walk_local, names_in, calls_in_order, AnalysisError, local_defs
from sa.sai import FALL


def _q(f):
    return ("%s.%s" % (f.cls.name, f.name)) if f.cls is not None else f.name


def _parents(fnode):
    par = {}
    for n in ast.walk(fnode):
        for ch in ast.iter_child_nodes(n):
            par[ch] = n
    return par


# --------------------------------------------------------------------------------------- SR1
def _save_restore_pairs(fnode):
    """(local, attribute text, save stmt, [restore stmts], [other stores])"""
    saves = {}
    stmts = [s for s in walk_local(fnode) if isinstance(s, (ast.Assign, ast.AugAssign))]
    for s in stmts:
        if isinstance(s, ast.Assign) and len(s.targets) == 1 and isinstance(s.targets[0], ast.Name) and isinstance(s.value, ast.Attribute):
            saves.setdefault((s.targets[0].id, norm(s.value)), s)
    out = []
    for (v, a), s in saves.items():
        rest, other = [], []
        for x in stmts:
            tg = x.targets if isinstance(x, ast.Assign) else [x.target]
            if any(norm(t) == a for t in tg):
                if isinstance(x, ast.Assign) and isinstance(x.value, ast.Name) and x.value.id == v:
                    rest.append(x)
                else:
                    other.append(x)
        # the local must be used for nothing else than the restore, otherwise it is an ordinary read
        if rest and other:
            out.append((v, a, s, rest, other))
    return out


@rule("SR1", ["C02", "C01", "C08"], "save/restore of visitor state: the old value is read before the attribute is overwritten and put back after the nested walk",
      engine="DF", floor=1)
def sr1(prog, rr):
    for f in prog.funcs:
        for v, a, s, rest, other in _save_restore_pairs(f.node):
            rr.inst("%s: %s saved in %s" % (_q(f), a, v))
            early = [o for o in other if (o.lineno, o.col_offset) < (s.lineno, s.col_offset)]
            if early:
                rr.finding(f, s, _q(f), "SR1: %s is overwritten (line %d) before its old value is saved in %s: the 'restore' at the end writes the "
                           "new value back, so the caller's state is lost after the nested walk (for RandInfoBuilder: constraints of the "
                           "enclosing object that follow a non-random sub-object are dropped from every rand set)" % (a, early[0].lineno, v),
                           text="save after write " + a)
            late = [o for o in other if (o.lineno, o.col_offset) > max((r.lineno, r.col_offset) for r in rest)]
            if late:
                rr.finding(f, late[0], _q(f), "SR1: %s is written again after it was restored from %s" % (a, v), text="write after restore " + a)


# --------------------------------------------------------------------------------------- SC1
@rule("SC1", ["C01", "C05", "C02", "C15"], "a constraint is filed as soft only if it is a soft constraint or the guard wrapper built around one", engine="XS", floor=3)
def sc1(prog, rr):
    f = prog.method("RandSet", "add_constraint")
    tests = [n.test for n in walk_local(f.node) if isinstance(n, ast.If)]
    kinds, attrs = [], []
    for t in tests:
        for n in ast.walk(t):
            if isinstance(n, ast.Call) and call_name(n) == "isinstance" and len(n.args) == 2:
                kinds += [norm(x) for x in (n.args[1].elts if isinstance(n.args[1], ast.Tuple) else [n.args[1]])]
            if isinstance(n, ast.Call) and call_name(n) == "hasattr" and len(n.args) == 2 and isinstance(n.args[1], ast.Constant):
                attrs.append(n.args[1].value)
    rr.require(kinds or attrs, "soft/hard classifier not recognised in RandSet.add_constraint")
    rr.inst("classifier: isinstance %s, hasattr %s" % (kinds, attrs))
    soft_classes = set()
    for k in kinds:
        c = prog.cls(k.split(".")[-1])
        soft_classes |= {c} | set(prog.subclasses(c))
    base = prog.cls("ConstraintModel")
    for a in attrs:
        # (1) no other constraint class carries the marker attribute
        for c in [base] + list(prog.subclasses(base)):
            if c in soft_classes:
                continue
            for m in c.methods.values():
                for n in walk_local(m.node):
                    tg = n.targets if isinstance(n, ast.Assign) else [n.target] if isinstance(n, (ast.AugAssign, ast.AnnAssign)) else []
                    if any(norm(t) == "self." + a for t in tg):
                        rr.finding(m, n, c.name, "SC1: every %s carries the attribute '%s', which RandSet.add_constraint uses to recognise soft "
                                   "constraints: hard statements of this kind are filed as (lowest-priority) soft constraints and are dropped "
                                   "whenever they conflict" % (c.name, a), text="%s.%s" % (c.name, a))
            if any(isinstance(st, ast.Assign) and any(norm(t) == a for t in st.targets) for st in c.node.body):
                rr.finding(c, c.node, c.name, "SC1: class attribute '%s' marks every %s as soft" % (a, c.name), text="%s.%s class-level" % (c.name, a))
        # (2) the marker is attached from outside only to the parameter of visit_constraint_soft or to the wrapper built around it
        for g in prog.funcs:
            for n in walk_local(g.node):
                tg = n.targets if isinstance(n, ast.Assign) else [n.target] if isinstance(n, ast.AugAssign) else []
                for t in tg:
                    if not (isinstance(t, ast.Attribute) and t.attr == a and isinstance(t.value, ast.Name) and t.value.id != "self"):
                        continue
                    recv = t.value.id
                    ok = False
                    why = ""
                    if g.name == "visit_constraint_soft" and len(g.params) >= 2 and recv == g.params[1]:
                        ok = True
                    elif g.name == "visit_constraint_soft" and len(g.params) >= 2:
                        # local bound to a constructor whose statement list holds the soft constraint itself
                        for d in local_defs(g.node).get(recv, []):
                            if isinstance(d, ast.Call) and any(isinstance(x, ast.List) and any(norm(e) == g.params[1] for e in x.elts) for x in d.args):
                                ok = True
                        why = " (not the wrapper built around %s)" % g.params[1]
                    rr.inst("marker %s attached in %s to %s: ok=%s" % (a, _q(g), recv, ok))
                    if not ok:
                        rr.finding(g, n, _q(g), "SC1: '%s' is attached to %s%s; RandSet.add_constraint then treats that statement as soft" % (a, recv, why))
        # (3) constructors of non-soft constraint classes are never handed the marker by keyword
        for g in prog.funcs:
            for n in walk_local(g.node):
                if isinstance(n, ast.Call) and any(k.arg == a for k in n.keywords):
                    c = prog.cls(call_name(n)) if prog.has_cls(call_name(n) or "") else None
                    if c is not None and c not in soft_classes and base in prog.mro(c):
                        rr.finding(g, n, _q(g), "SC1: %s constructed with %s=..." % (c.name, a))


# --------------------------------------------------------------------------------------- FT14
def _wrapper_classes(prog):
    out = []
    for n in ("constraint_t", "dynamic_constraint_t"):
        out.append(prog.cls(n))
    return out


def _wrapper_locals(fnode, wnames):
    """locals tested with isinstance(x, <wrapper class(es)>) or bound to a wrapper constructor in this function"""
    out = set()
    for n in walk_local(fnode):
        if isinstance(n, ast.Call) and call_name(n) == "isinstance" and len(n.args) == 2 and isinstance(n.args[0], ast.Name):
            ks = n.args[1].elts if isinstance(n.args[1], ast.Tuple) else [n.args[1]]
            if ks and all(norm(k).split(".")[-1] in wnames for k in ks):
                out.add(n.args[0].id)
        if isinstance(n, ast.Assign) and len(n.targets) == 1 and isinstance(n.targets[0], ast.Name) and isinstance(n.value, ast.Call) \
                and call_name(n.value) in wnames:
            out.add(n.targets[0].id)
    return out


@rule("FT14", ["C06", "C07", "C08", "C02"], "constraint wrappers are shared by every instance of a class: no per-instance state is cached on them", engine="XS", floor=8)
def ft14(prog, rr):
    ws = _wrapper_classes(prog)
    wnames = {w.name for w in ws}
    # per-instance attribute of the wrappers that exists today: `model` (last instance built wins; see known finding FT6D), written by set_model only
    for w in ws:
        for m in w.methods.values():
            params = set(m.params[1:])
            for n in walk_local(m.node):
                tg = n.targets if isinstance(n, ast.Assign) else [n.target] if isinstance(n, ast.AugAssign) else []
                for t in tg:
                    if not (isinstance(t, ast.Attribute) and isinstance(t.value, ast.Name) and t.value.id == "self"):
                        continue
                    val = n.value
                    # per-instance values: the block of one instance (self.model, the argument of set_model) and anything built from it
                    per_inst = "self.model" in names_in(val) or (m.name == "set_model" and bool(params & set(names_in(val))))
                    ok = (not per_inst) or (t.attr == "model" and m.name == "set_model")
                    rr.inst("%s.%s: self.%s = %s (per-instance=%s)" % (w.name, m.name, t.attr, norm(val)[:40], per_inst))
                    if not ok:
                        rr.finding(m, n, "%s.%s" % (w.name, m.name), "FT14: %s.%s stores %s, which is derived from one instance's constraint block, on the "
                                   "wrapper shared by all instances of the user's class: later references made through another instance resolve "
                                   "to the block cached for the first one" % (w.name, t.attr, norm(val)[:60]), text="self.%s per-instance" % t.attr)
    # code that runs per instance (facade functions handling a looked-up attribute) must not store anything but constants on a wrapper
    n_local = 0
    for g in prog.funcs:
        if g.cls is not None and g.cls in ws:
            continue
        wl = _wrapper_locals(g.node, wnames)
        if not wl:
            continue
        ctor_bound = {n.targets[0].id for n in walk_local(g.node) if isinstance(n, ast.Assign) and len(n.targets) == 1 and isinstance(n.targets[0], ast.Name)
                      and isinstance(n.value, ast.Call) and call_name(n.value) in wnames}
        n_local += len(wl)
        for n in walk_local(g.node):
            tg = n.targets if isinstance(n, ast.Assign) else [n.target] if isinstance(n, ast.AugAssign) else []
            for t in tg:
                if isinstance(t, ast.Attribute) and isinstance(t.value, ast.Name) and t.value.id in wl:
                    fresh = t.value.id in ctor_bound       # decoration time: the wrapper was just created, nothing per-instance exists yet
                    const = isinstance(n.value, ast.Constant)
                    rr.inst("%s: %s.%s = %s" % (_q(g), t.value.id, t.attr, norm(n.value)[:40]))
                    if not (fresh or const):
                        rr.finding(g, n, _q(g), "FT14: %s writes %s.%s = %s on a class-shared constraint wrapper from per-instance code (the only "
                                   "sanctioned path is set_model()): the value of the first/last instance is then seen by every other instance"
                                   % (_q(g), t.value.id, t.attr, norm(n.value)[:50]), text="%s.%s store" % (t.value.id, t.attr))
    rr.require(n_local >= 4, "wrapper-typed locals in the facade not recognised (%d)" % n_local)


# --------------------------------------------------------------------------------------- FT15
def _class_of_self_exprs(fnode):
    """names bound to type(self) / self.__class__ plus the expressions themselves (normalised text)"""
    names = {"type(self)", "self.__class__"}
    for n in walk_local(fnode):
        if isinstance(n, ast.Assign) and len(n.targets) == 1 and isinstance(n.targets[0], ast.Name) and norm(n.value) in ("type(self)", "self.__class__"):
            names.add(n.targets[0].id)
    return names


def _class_cache_sites(fnode):
    """(write nodes, read nodes) of attributes of the object's class made from instance code"""
    cn = _class_of_self_exprs(fnode)
    writes, reads = [], []
    for n in walk_local(fnode):
        if isinstance(n, (ast.Assign, ast.AugAssign)):
            tg = n.targets if isinstance(n, ast.Assign) else [n.target]
            for t in tg:
                if isinstance(t, ast.Attribute) and norm(t.value) in cn:
                    writes.append((t.attr, n))
        if isinstance(n, ast.Call) and call_name(n) == "setattr" and n.args and norm(n.args[0]) in cn and len(n.args) >= 2 \
                and isinstance(n.args[1], ast.Constant):
            writes.append((n.args[1].value, n))
        if isinstance(n, ast.Call) and call_name(n) in ("getattr", "hasattr") and len(n.args) >= 2 and isinstance(n.args[1], ast.Constant) \
                and (norm(n.args[0]) in cn or norm(n.args[0]) == "self"):
            reads.append((n.args[1].value, n))
        if isinstance(n, ast.Attribute) and isinstance(n.ctx, ast.Load) and norm(n.value) in cn:
            reads.append((n.attr, n))
    return writes, reads


_FT15_POSITIVE = '''
def build(self):
    cls = type(self)
    names = getattr(cls, "_memo", None)
    if names is None:
        names = [f for f in dir(cls)]
        cls._memo = names
    return names
'''


@rule("FT15", ["C07", "C06", "C08", "C17"], "constraint blocks are elaborated per instance from the instance's own attribute list; no run-time memo on the class read through inheritance",
      engine="XS", floor=3)
def ft15(prog, rr):
    # self-check of the detector on a positive example (the expected count on the tree is zero)
    pos = ast.parse(_FT15_POSITIVE).body[0]
    w, r = _class_cache_sites(pos)
    rr.require({a for a, _ in w} & {a for a, _ in r} == {"_memo"}, "FT15 detector does not fire on its positive example")
    n_fn = 0
    for g in prog.funcs:
        if not g.module.name.startswith("vsc.") or ".model." in g.module.name or ".visitors." in g.module.name:
            continue
        if not g.params or g.params[0] != "self":
            continue
        n_fn += 1
        w, r = _class_cache_sites(g.node)
        both = {a for a, _ in w} & {a for a, _ in r}
        for a in sorted(both):
            node = [n for x, n in w if x == a][0]
            rr.finding(g, node, _q(g), "FT15: %s memoises '%s' on the object's class at run time and reads it back through ordinary attribute lookup: "
                       "a subclass instance built after a base-class instance inherits the base's memo (for build_field_model: constraint blocks "
                       "declared only in the subclass are never elaborated, so they are neither enforced nor switchable)" % (_q(g), a),
                       text="class memo " + a)
    rr.inst("facade methods scanned for class-level memos: %d" % n_fn)
    # the elaboration loops iterate the instance's attribute list
    n_loops = 0
    for g in prog.funcs:
        if g.name != "build_field_model":
            continue
        wl = _wrapper_locals(g.node, {"constraint_t", "dynamic_constraint_t"})
        for lp in [n for n in walk_local(g.node) if isinstance(n, ast.For)]:
            tests = [n for n in ast.walk(lp) if isinstance(n, ast.Call) and call_name(n) == "isinstance" and len(n.args) == 2
                     and isinstance(n.args[0], ast.Name) and n.args[0].id in wl]
            if not tests:
                continue
            n_loops += 1
            src = norm(lp.iter)
            rr.inst("%s: constraint elaboration loop over %s" % (_q(g), src))
            if src not in ("dir(self)", "dir(type(self))", "dir(self.__class__)"):
                rr.finding(g, lp, _q(g), "FT15: the constraint elaboration loop iterates %s instead of the instance's attribute list dir(self): "
                           "which blocks an instance gets must be decided from its own class" % src, text="elaboration loop source")
    rr.require(n_loops >= 2, "constraint elaboration loops not found in build_field_model (%d)" % n_loops)


# --------------------------------------------------------------------------------------- FT16
@rule("FT16", ["C07", "C17", "C16", "C18"], "the solve (and the pre/post_randomize callbacks it runs) starts with expression and raw mode left", engine="SAI+CG", floor=4)
def ft16(prog, rr):
    from rules.r60_state_hygiene import stack_analysis
    an = stack_analysis(prog)
    modes = [i for i, c in enumerate(an.counters) if c[1] in ("_expr_mode", "_raw_mode")]
    rr.require(len(modes) == 2, "mode stacks not found among %s" % (an.counters,))
    sites = []
    for g in prog.funcs:
        if ".model." in g.module.name or ".visitors." in g.module.name:
            continue
        for n in walk_local(g.node):
            if isinstance(n, ast.Call) and call_name(n) == "do_randomize":
                sites.append((g, n))
    rr.require(len(sites) >= 4, "facade call sites of Randomizer.do_randomize not found (%d)" % len(sites))
    want = {id(n) for _, n in sites}
    old = an.observe_call
    an.observe_call = lambda call, func: id(call) in want
    try:
        for g, n in sites:
            an.observed.pop((g, n), None)
            an.exits(g)
            seen = an.observed.get((g, n), set())
            exp = tuple(0 for _ in modes)
            if g.name == "__exit__" and g.cls is not None:
                en = prog.lookup(g.cls, "__enter__")
                if en is not None:
                    ups = {v for k, v, _, _ in an.exits(en) if k == FALL}
                    if len(ups) == 1:
                        up = next(iter(ups))
                        exp = tuple(-up[i] for i in modes)
            got = sorted({tuple(v[i] for i in modes) for v in seen})
            rr.inst("%s: mode depth (expr, raw) relative to entry at do_randomize: %s expected %s" % (_q(g), got, exp))
            if not seen:
                rr.finding(g, n, _q(g), "FT16: call of do_randomize not reached by the analysis", text="unreached do_randomize")
            for v in got:
                if v != exp:
                    rr.finding(g, n, _q(g), "FT16: Randomizer.do_randomize is entered with the mode stacks at %s relative to entry (expected %s): "
                               "pre_randomize/post_randomize then run in expression mode, where attribute reads return field objects instead of "
                               "values and obj.<constraint> yields the class-level wrapper instead of the instance's block"
                               % (v, exp), text="do_randomize in expression mode")
    finally:
        an.observe_call = old


# --------------------------------------------------------------------------------------- IX1
@rule("IX1", ["C06", "C08"], "every name->index table entry is the length of the very list the item is appended to next", engine="DF", floor=2)
def ix1(prog, rr):
    n = 0
    for cn in ("FieldCompositeModel", "FieldArrayModel", "CovergroupModel", "CoverpointModel"):
        c = prog.cls(cn)
        for m in c.methods.values():
            body = sig_body(m.node)
            for i, st in enumerate(body):
                if not (isinstance(st, ast.Assign) and len(st.targets) == 1):
                    continue
                t = st.targets[0]
                lens = [x for x in ast.walk(st.value) if isinstance(x, ast.Call) and call_name(x) == "len" and x.args]
                if len(lens) != 1:
                    continue
                exact = norm(st.value) == norm(lens[0])
                lst = norm(lens[0].args[0])
                if not lst.startswith("self."):
                    continue
                # the append that follows in the same block
                app = [x for x in body[i + 1:] if isinstance(x, ast.Expr) and isinstance(x.value, ast.Call) and call_name(x.value) == "append"]
                if not app:
                    before = [x for x in body[:i] if isinstance(x, ast.Expr) and isinstance(x.value, ast.Call) and call_name(x.value) == "append"
                              and recv_text(x.value) == lst]
                    if before:
                        n += 1
                        rr.inst("%s.%s: %s = len(%s) after the append" % (cn, m.name, norm(t), lst))
                        rr.finding(m, st, "%s.%s" % (cn, m.name), "IX1: %s is taken as len(%s) after the item was appended: it is one past the item's position"
                                   % (norm(t), lst), text="index after append")
                    continue
                n += 1
                first = app[0].value
                rr.inst("%s.%s: %s = len(%s) then %s.append" % (cn, m.name, norm(t), lst, recv_text(first)))
                if not exact and recv_text(first) == lst:
                    rr.finding(m, st, "%s.%s" % (cn, m.name), "IX1: %s = %s is not the position the item gets in %s (its length before the append)"
                               % (norm(t), norm(st.value), lst), text="index not the length")
                elif recv_text(first) != lst:
                    rr.finding(m, st, "%s.%s" % (cn, m.name), "IX1: the index recorded in %s is the length of %s but the item is appended to %s: "
                               "look-ups through the table then address a different element (or run past the end)"
                               % (norm(t), lst, recv_text(first)), text="index of other list")
    rr.require(n >= 2, "index-table sites not recognised (%d)" % n)


# --------------------------------------------------------------------------------------- CV17
@rule("CV17", ["C10", "C11", "C13", "C19"], "a bin container hands each child the base plus the number of bins of the children before it", engine="DF", floor=2)
def cv17(prog, rr):
    n = 0
    base = prog.cls("CoverpointBinModelBase")
    for c in [base] + list(prog.subclasses(base)) + [prog.cls("CoverpointModel")]:
        m = c.methods.get("finalize")
        if m is None:
            continue
        for lp in [x for x in walk_local(m.node) if isinstance(x, ast.For)]:
            calls = [x for x in ast.walk(lp) if isinstance(x, ast.Call) and call_name(x) == "finalize" and x.args]
            for call in calls:
                n += 1
                arg = call.args[0]
                # accumulator: a name/attribute updated in the loop with the child's return value (+=) or with get_n_bins()
                accs = set()
                for x in ast.walk(lp):
                    if isinstance(x, ast.AugAssign) and isinstance(x.op, ast.Add):
                        accs.add(norm(x.target))
                used = {a for a in accs if a in names_in(arg) or a in norm(arg)}
                loopvars = set(names_in(lp.target))
                rr.inst("%s.finalize: child base %s (accumulators %s)" % (c.name, norm(arg), sorted(accs)))
                if not used:
                    rr.finding(m, call, c.name + ".finalize", "CV17: the base index handed to the child (%s) does not depend on the running bin count "
                               "%s: a child that holds several bins overlaps the next child's indices, so hits are reported for the wrong bin"
                               % (norm(arg), sorted(accs) or ""), text="child base not cumulative")
                elif len(m.params) >= 2 and not ({m.params[1], "self." + m.params[1]} & set(names_in(arg))):
                    rr.finding(m, call, c.name + ".finalize", "CV17: the child's base index (%s) leaves out the container's own base %s: the children are "
                               "numbered from 0, so a container that is not the first entry of its coverpoint reports its hits on the bins of the "
                               "entries before it" % (norm(arg), m.params[1]), text="child base without container base")
                elif loopvars & set(names_in(arg)) - {recv_text(call)}:
                    rr.finding(m, call, c.name + ".finalize", "CV17: the child's base index (%s) is computed from the loop position" % norm(arg),
                               text="child base from position")
    rr.require(n >= 2, "bin containers' finalize loops not recognised (%d)" % n)


# --------------------------------------------------------------------------------------- CV18
@rule("CV18", ["C11", "C10"], "a callable reference (iff=lambda ...) hands the callable's result to the truth test unchanged", engine="DF", floor=1)
def cv18(prog, rr):
    f = prog.method("ExprRefModel", "val")
    rets = [n for n in walk_local(f.node) if isinstance(n, ast.Return) and n.value is not None]
    rr.require(rets, "ExprRefModel.val has no return")
    defs = local_defs(f.node)
    aug = {n.target.id for n in walk_local(f.node) if isinstance(n, ast.AugAssign) and isinstance(n.target, ast.Name)}
    for r in rets:
        v = r.value
        srcs = [v] if not isinstance(v, ast.Name) else defs.get(v.id, [])
        ok = bool(srcs) and all(norm(s) == "self.ref()" for s in srcs) and not (isinstance(v, ast.Name) and v.id in aug)
        rr.inst("ExprRefModel.val returns %s (transparent=%s)" % (norm(v), ok))
        if not ok:
            rr.finding(f, r, "ExprRefModel.val", "CV18: the value of a callable reference is altered between the user's callable and its consumer "
                       "(returns %s): an iff callable returning a truthy value other than 1 (flags & 2, a count) can evaluate to false and gate the "
                       "coverpoint or cross off although its condition holds" % norm(v), text="ref value altered")


# --------------------------------------------------------------------------------------- LOOP1
def _direct_breaks(loop):
    """the break statements that end the first iteration on EVERY path through the body (if any path continues, none)"""
    ps = _paths(loop.body)
    if ps and all(p and isinstance(p[-1], ast.Break) for p, _ in ps):
        return [ps[0][0][-1]]
    return []


def _loop1(prog, rr, funcs, what):
    n = 0
    for f in funcs:
        for lp in [x for x in walk_local(f.node) if isinstance(x, (ast.For, ast.While))]:
            if not any(isinstance(x, ast.Break) for x in ast.walk(lp)):
                continue
            n += 1
            for b in _direct_breaks(lp):
                rr.finding(f, b, _q(f), "LOOP1: the search loop over %s ends its first iteration with an unconditional break: only the first "
                           "candidate is ever examined%s" % (norm(lp.iter) if isinstance(lp, ast.For) else norm(lp.test), what), text="unconditional break")
    rr.inst("search loops (with a break) examined: %d" % n)
    return n


@rule("LOOP1c", ["C12", "C10", "C13"], "search loops in the coverage registry and models examine every candidate (no unconditional break)", engine="DF", floor=1)
def loop1c(prog, rr):
    fs = [f for f in prog.funcs if f.module.name.endswith("coverage_registry") or ".model.cover" in f.module.name or f.module.name == "vsc.coverage"]
    n = _loop1(prog, rr, fs, " (register_cg: a new instance is compared with the first registered shape only, so further instances of a later shape "
                             "each get a type model of their own and no type holds the sum of their hits)")
    rr.require(n >= 1, "no search loop found in the coverage registry/models")


@rule("LOOP1s", ["C01", "C02"], "search loops on the solve path examine every candidate (no unconditional break)", engine="DF", floor=1)
def loop1s(prog, rr):
    from sa.cg import solve_path
    n = _loop1(prog, rr, sorted(solve_path(prog), key=lambda f: f.qual), "")
    rr.require(n >= 1, "no search loop found on the solve path")


# --------------------------------------------------------------------------------------- RS10
@rule("RS10", ["C15", "C03", "C14"], "a rand set's list of fields to randomise holds used-random fields only", engine="DF", floor=1)
def rs10(prog, rr):
    c = prog.cls("RandSet")
    g = c.methods.get("rand_fields")
    rr.require(g is not None, "RandSet.rand_fields not found")
    body = sig_body(g.node)
    rr.require(len(body) == 1 and isinstance(body[0], ast.Return) and isinstance(body[0].value, ast.Attribute), "RandSet.rand_fields is not a plain getter")
    lst = norm(body[0].value)
    n = 0
    from rules.r97_round2b import _guards
    for m in c.methods.values():
        for call in walk_local(m.node):
            if isinstance(call, ast.Call) and call_name(call) in ("append", "extend", "insert") and recv_text(call) == lst and call.args:
                n += 1
                arg = norm(call.args[-1])
                gs = [t for t, pos in _guards(m.node, call) if pos]
                ok = any(t.replace(" ", "") == arg + ".is_used_rand" for t in gs)
                rr.inst("RandSet.%s adds %s to %s under %s" % (m.name, arg, lst, gs))
                if not ok:
                    rr.finding(m, call, "RandSet." + m.name, "RS10: %s is added to %s (what rand_fields() returns) without the guard %s.is_used_rand: "
                               "non-random fields then take up the swizzler's few slots, so a field with a dist constraint is left at the solver's "
                               "choice in many calls and the weights are no longer followed" % (arg, lst, arg), text="rand list unguarded")
    rr.require(n >= 1, "no writer of %s found" % lst)


# --------------------------------------------------------------------------------------- RN8
@rule("RN8", ["C17", "C03", "C08"], "declared-random (persistent) is never derived from used-as-random (a per-call flag)", engine="DF", floor=3)
def rn8(prog, rr):
    n = 0
    for f in prog.funcs:
        for st in walk_local(f.node):
            if isinstance(st, ast.Assign):
                for t in st.targets:
                    if isinstance(t, ast.Attribute) and t.attr.endswith("is_declared_rand"):
                        n += 1
                        bad = [x for x in names_in(st.value) if x.split(".")[-1] == "is_used_rand"]
                        # through one level of locals
                        for nm in [x for x in names_in(st.value) if "." not in x]:
                            for d in local_defs(f.node).get(nm, []):
                                bad += [x for x in names_in(d) if x.split(".")[-1] == "is_used_rand"]
                        rr.inst("%s: %s = %s" % (_q(f), norm(t), norm(st.value)[:50]))
                        if bad:
                            rr.finding(f, st, _q(f), "RN8: %s is set from %s - the flag of the call that happened to run last - instead of from the "
                                       "declaration: an element appended after its list was last solved as a non-random part of a larger object is "
                                       "never randomised again and gets neither pre_randomize nor post_randomize" % (norm(t), bad[0]),
                                       text="declared from used")
    rr.require(n >= 3, "writers of is_declared_rand not recognised (%d)" % n)


# --------------------------------------------------------------------------------------- FT17
def _idempotent_builder(f):
    """build_field_model that constructs a model only when none exists (or defers to get_model())"""
    makes = [n for n in walk_local(f.node) if isinstance(n, ast.Assign) and any(norm(t).endswith("_int_field_info.model") for t in n.targets)
             and isinstance(n.value, ast.Call)]
    if not makes:
        return True
    from rules.r97_round2b import _guards
    for mk in makes:
        gs = [t.replace(" ", "") for t, pos in _guards(f.node, mk) if pos]
        if not any(g.endswith("_int_field_info.modelisNone") for g in gs):
            return False
    return True


@rule("FT17", ["C18"], "a field's model is built once: build_field_model is called only for fields that have no model, unless every implementation keeps an existing one",
      engine="XS", floor=4)
def ft17(prog, rr):
    from tables.exceptions import FT17_FRESH
    from rules.r97_round2b import _guards
    impls = [f for f in prog.funcs if f.name == "build_field_model" and f.params and f.params[0] == "self"]
    rr.require(len(impls) >= 4, "build_field_model implementations not found (%d)" % len(impls))
    non_idem = [f for f in impls if not _idempotent_builder(f)]
    for f in impls:
        rr.inst("%s keeps an existing model: %s" % (_q(f), f not in non_idem))
    for g in prog.funcs:
        for call in walk_local(g.node):
            if not (isinstance(call, ast.Call) and call_name(call) == "build_field_model" and isinstance(call.func, ast.Attribute)):
                continue
            recv = recv_text(call)
            if recv == "self" or recv.startswith("super()"):
                continue
            gs = [t.replace(" ", "") for t, pos in _guards(g.node, call) if pos]
            guarded = any(t == recv + "._int_field_info.modelisNone" for t in gs)
            key = _q(g)
            rr.inst("%s calls %s.build_field_model: guarded=%s" % (_q(g), recv, guarded))
            if guarded or key in FT17_FRESH:
                continue
            if non_idem:
                rr.finding(g, call, _q(g), "FT17: %s.build_field_model() is called without checking that the field has no model yet, and %s replaces an "
                           "existing model with a fresh one: a value written to that field before its owner was elaborated (self.e = E.B in __init__) "
                           "is silently lost" % (recv, ", ".join(_q(x) for x in non_idem)), text="unguarded build_field_model")


# --------------------------------------------------------------------------------------- EN1
@rule("EN1", ["C18"], "the enumerator table cache is keyed by the enum class itself", engine="DF", floor=1)
def en1(prog, rr):
    f = prog.method("EnumInfo", "get")
    e = f.params[0]
    n = 0
    defs = local_defs(f.node)

    def key_ok(k):
        if isinstance(k, ast.Name) and k.id != e:
            ds = defs.get(k.id, [])
            return bool(ds) and all(key_ok(d) for d in ds)
        t = norm(k)
        return t == e or t == "id(%s)" % e

    # the map, or a local alias of it
    maps = {n for n, ds in defs.items() if ds and all("_info_map" in norm(d) and isinstance(d, ast.Attribute) for d in ds)}

    def is_map(e):
        t = norm(e)
        return "_info_map" in t or t in maps or (t.endswith(".keys()") and t[:-7] in maps)

    for x in walk_local(f.node):
        ks = []
        if isinstance(x, ast.Subscript) and is_map(x.value):
            ks.append(x.slice)
        if isinstance(x, ast.Call) and call_name(x) in ("get", "setdefault", "pop") and is_map(x.func.value) and x.args:
            ks.append(x.args[0])
        if isinstance(x, ast.Compare) and any(is_map(c) for c in x.comparators) and isinstance(x.ops[0], (ast.In, ast.NotIn)):
            ks.append(x.left)
        for k in ks:
            n += 1
            rr.inst("EnumInfo.get key %s" % norm(k))
            if not key_ok(k):
                rr.finding(f, x, "EnumInfo.get", "EN1: the enumerator table is looked up by %s instead of by the enum class: two distinct enum classes "
                           "with the same name (a factory called twice, a class defined in a function) share one table, so reads return enumerators "
                           "of the other type and writes of enumerators the first type lacks fail" % norm(k), text="enum cache key")
    rr.require(n >= 2, "EnumInfo._info_map accesses not recognised (%d)" % n)


# --------------------------------------------------------------------------------------- MERGE1
def _paths(stmts):
    """paths through a statement list (if/else only; loops/try are atomic). Each path: (list of leaf stmts, terminated?)"""
    paths = [([], False)]
    for st in stmts:
        new = []
        for p, done in paths:
            if done:
                new.append((p, True))
                continue
            if isinstance(st, ast.If):
                for sub, d in _paths(st.body):
                    new.append((p + sub, d))
                for sub, d in _paths(st.orelse):
                    new.append((p + sub, d))
            elif isinstance(st, (ast.Continue, ast.Break, ast.Return, ast.Raise)):
                new.append((p + [st], True))
            else:
                new.append((p + [st], False))
        paths = new[:256]
    return paths


@rule("MERGE1", ["C19", "C14", "C10"], "in-place merge loops re-examine the merged element: no index advance in an iteration that removed the neighbour", engine="PATH", floor=2)
def merge1(prog, rr):
    n = 0
    for f in prog.funcs:
        for lp in [x for x in walk_local(f.node) if isinstance(x, ast.While)]:
            incs = [x for x in ast.walk(lp) if isinstance(x, ast.AugAssign) and isinstance(x.op, ast.Add) and isinstance(x.target, ast.Name)]
            idx = {x.target.id for x in incs}
            pops = [x for x in ast.walk(lp) if isinstance(x, ast.Call) and call_name(x) == "pop" and x.args and set(names_in(x.args[0])) & idx]
            dels = [x for x in ast.walk(lp) if isinstance(x, ast.Delete) and any(isinstance(t, ast.Subscript) and set(names_in(t.slice)) & idx for t in x.targets)]
            if not (pops or dels):
                continue
            n += 1
            rr.inst("%s: merge loop over index %s" % (_q(f), sorted(idx)))
            for p, _ in _paths(lp.body):
                rem = [i for i, st in enumerate(p) if any(x in pops for x in ast.walk(st)) or st in dels]
                if not rem:
                    continue
                adv = [st for st in p[rem[0]:] if isinstance(st, ast.AugAssign) and st in incs]
                if adv:
                    rr.finding(f, adv[0], _q(f), "MERGE1: the index is advanced in the same iteration that merged and removed the next element: the "
                               "merged entry is never compared with the element that moved into that position, so overlapping ranges survive as "
                               "separate entries (a wildcard array then has more bins than matching values and a sample hits two bins)",
                               text="advance after remove")
                    break
    rr.require(n >= 2, "in-place merge loops not recognised (%d)" % n)


# --------------------------------------------------------------------------------------- NM5
@rule("NM5", ["C20", "C09", "C04"], "per-call visitors leave nothing on the constraint/field objects they visit (except what is reset every call)", engine="EFF", floor=3)
def nm5(prog, rr):
    from tables.exceptions import NM5_OK
    mv = prog.cls("ModelVisitor")
    dr = prog.method("Randomizer", "do_randomize")
    per_call = {call_name(c) for c in walk_local(dr.node) if isinstance(c, ast.Call)}
    stores = []
    for c in prog.subclasses(mv):
        for m in c.methods.values():
            if not m.name.startswith("visit_"):
                continue
            ps = set(m.params[1:])
            for n in walk_local(m.node):
                tg = n.targets if isinstance(n, ast.Assign) else [n.target] if isinstance(n, ast.AugAssign) else []
                for t in tg:
                    if isinstance(t, ast.Attribute):
                        root = t
                        while isinstance(root, (ast.Attribute, ast.Subscript)):
                            root = root.value
                        if isinstance(root, ast.Name) and root.id in ps:
                            stores.append((c, m, n, t))
    # resets: a visitor instantiated by do_randomize that stores a constant into the same attribute in the same visit method
    resets = {(m.name, t.attr) for c, m, n, t in stores if isinstance(n, ast.Assign) and isinstance(n.value, ast.Constant) and c.name in per_call}
    computed = {(m.name, t.attr) for c, m, n, t in stores if not (isinstance(n, ast.Assign) and isinstance(n.value, ast.Constant))}
    for c, m, n, t in stores:
        key = "%s.%s|%s" % (c.name, m.name, t.attr)
        # a constant store is a reset only where it clears what another visitor computes, from a visitor do_randomize runs on every call
        is_reset = isinstance(n, ast.Assign) and isinstance(n.value, ast.Constant) and c.name in per_call and (m.name, t.attr) in computed
        ok = is_reset or (m.name, t.attr) in resets or key in NM5_OK
        rr.inst("%s.%s stores %s (%s)" % (c.name, m.name, norm(t), "reset" if is_reset else "has per-call reset" if (m.name, t.attr) in resets else NM5_OK.get(key, "?")))
        if not ok:
            rr.finding(m, n, "%s.%s" % (c.name, m.name), "NM5: %s.%s stores %s on the visited object, which persists between randomize calls, and nothing "
                       "resets it per call: what one call computed (e.g. the expansion of a solve_order directive over the list elements that "
                       "existed then) is reused by later calls after the object has changed" % (c.name, m.name, norm(t)), text="store on visited " + t.attr)
    rr.require(len(stores) >= 3, "visitor stores on visited objects not recognised (%d)" % len(stores))


# --------------------------------------------------------------------------------------- RS11
@rule("RS11", ["C20"], "solve_order expansion visits both sides of every directive unconditionally", engine="DF", floor=2)
def rs11(prog, rr):
    from rules.r97_round2b import _guards
    f = prog.method("ExpandSolveOrderVisitor", "expand")
    acc = [n for n in walk_local(f.node) if isinstance(n, ast.Call) and call_name(n) == "accept"]

    def sides(c):
        """1 for `x.accept`, 2 for `(a if self.lhs else b).accept` (directly or through a local bound once to that choice)"""
        rv = c.func.value
        if isinstance(rv, ast.Name):
            ds = [a.value for a in walk_local(f.node) if isinstance(a, ast.Assign) and len(a.targets) == 1 and norm(a.targets[0]) == rv.id]
            rv = ds[0] if len(ds) == 1 else rv
        return 2 if isinstance(rv, ast.IfExp) and "self.lhs" in norm(rv.test) else 1
    rr.require(sum(sides(c) for c in acc) >= 2, "accept calls not found in ExpandSolveOrderVisitor.expand")
    for c in acc:
        gs = [t for t, pos in _guards(f.node, c)]
        extra = [t for t in gs if t.replace(" ", "") not in ("self.lhs", "notself.lhs")]
        rr.inst("expand: %s under %s" % (norm(c), gs))
        if sides(c) == 2:
            rr.inst("expand: the same call walks the other side when self.lhs is false")
        if extra:
            rr.finding(f, c, "ExpandSolveOrderVisitor.expand", "RS11: the walk of one side of a solve_order directive is skipped under %s: the "
                       "dependency is then never recorded and a chain a<b<c loses its transitivity when the middle field is not random in "
                       "this call" % extra, text="conditional expand")


# --------------------------------------------------------------------------------------- FT18
@rule("FT18", ["C18"], "part-select write keeps the bits outside the mask and replaces those inside; read and write use the same mask", engine="DF", floor=2)
def ft18(prog, rr):
    tb = prog.cls("type_base")
    st_, gt_ = tb.methods.get("__setitem__"), tb.methods.get("__getitem__")
    rr.require(st_ is not None and gt_ is not None, "type_base.__getitem__/__setitem__ not found")
    merges = [n for n in walk_local(st_.node) if isinstance(n, ast.Assign) and isinstance(n.value, ast.BinOp) and isinstance(n.value.op, ast.BitOr)]
    rr.require(merges, "no (old & ~mask) | (new & mask) merge found in type_base.__setitem__")
    cur = {n.targets[0].id for n in walk_local(st_.node) if isinstance(n, ast.Assign) and len(n.targets) == 1 and isinstance(n.targets[0], ast.Name)
           and "get_val()" in norm(n.value)}
    for m in merges:
        l, r = m.value.left, m.value.right
        rr.inst("part-select merge %s" % norm(m.value))
        keep = l if isinstance(l, ast.BinOp) and isinstance(l.op, ast.BitAnd) else None
        if keep is None:
            rr.finding(st_, m, "type_base.__setitem__", "FT18: the current value is not masked before the new bits are OR-ed in (%s)" % norm(m.value), text="merge no keep-mask")
            continue
        inv = [x for x in (keep.left, keep.right) if isinstance(x, ast.UnaryOp) and isinstance(x.op, ast.Invert)]
        other = [x for x in (keep.left, keep.right) if not (isinstance(x, ast.UnaryOp) and isinstance(x.op, ast.Invert))]
        if not inv:
            rr.finding(st_, m, "type_base.__setitem__", "FT18: the part-select write keeps `%s` - the bits INSIDE the mask - instead of the bits outside it "
                       "(old & ~mask): every bit that was not selected is cleared" % norm(keep), text="merge keeps inside")
            continue
        M = norm(inv[0].operand)
        if not (other and isinstance(other[0], ast.Name) and other[0].id in cur):
            rr.finding(st_, m, "type_base.__setitem__", "FT18: the kept part (%s) is not the field's current value" % norm(keep), text="merge keep operand")
        ins = [x for x in ast.walk(r) if isinstance(x, ast.BinOp) and isinstance(x.op, ast.BitAnd) and M in (norm(x.left), norm(x.right))]
        if not ins:
            rr.finding(st_, m, "type_base.__setitem__", "FT18: the new bits (%s) are not limited to the mask %s: a value wider than the selection "
                       "overwrites neighbouring bits" % (norm(r), M), text="merge new unmasked")
    # sibling agreement: the slice mask of the write equals the slice mask of the read
    def slice_mask(f):
        out = []
        for n in walk_local(f.node):
            if isinstance(n, ast.Assign) and len(n.targets) == 1 and isinstance(n.targets[0], ast.Name) and "start" in norm(n.value) and "<<" in norm(n.value):
                out.append(norm(n.value).replace(f.params[1], "RNG"))
        return out
    ms, mg = slice_mask(st_), slice_mask(gt_)
    rr.inst("slice masks: read %s write %s" % (mg, ms))
    if ms and mg and set(ms) != set(mg):
        rr.finding(st_, st_.node, "type_base.__setitem__", "FT18: the write selects bits with %s but the read with %s: writing f[hi:lo] and reading it back "
                   "do not address the same bits" % (ms, mg), text="read/write masks differ")
