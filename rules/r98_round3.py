"""Rules added after the third seeded round (changes made of cooperating edits, fault histories, second instances):
SR1 (save/restore order), SC1 (soft classification is by kind), FT14 (no per-instance state on class-shared constraint wrappers),
FT15 (no run-time class-level caches read through inheritance; constraint elaboration enumerates the instance),
FT16 (user callbacks run outside expression mode), NM4 (build() keeps no expansion memo), IX1 (name->index tables index the list
they are appended to), CV17 (child bins get cumulative index bases)."""
import ast

from sa.core import rule
from sa.ir import sig_body, norm, dotted, call_name, recv_text, walk_local, names_in, calls_in_order, AnalysisError, local_defs
from sa.sai import FALL


def _q(f):
    return ("%s.%s" % (f.cls.name, f.name)) if f.cls is not None else f.name


def _parents(fnode):
    par = {}
    for n in ast.walk(fnode):
        for ch in ast.iter_child_nodes(n):
            par[ch] = n
    return par


# --------------------------------------------------------------------------------------- SR1
def _save_restore_pairs(fnode):
    """(local, attribute text, save stmt, [restore stmts], [other stores])"""
    saves = {}
    stmts = [s for s in walk_local(fnode) if isinstance(s, (ast.Assign, ast.AugAssign))]
    for s in stmts:
        if isinstance(s, ast.Assign) and len(s.targets) == 1 and isinstance(s.targets[0], ast.Name) and isinstance(s.value, ast.Attribute):
            saves.setdefault((s.targets[0].id, norm(s.value)), s)
    out = []
    for (v, a), s in saves.items():
        rest, other = [], []
        for x in stmts:
            tg = x.targets if isinstance(x, ast.Assign) else [x.target]
            if any(norm(t) == a for t in tg):
                if isinstance(x, ast.Assign) and isinstance(x.value, ast.Name) and x.value.id == v:
                    rest.append(x)
                else:
                    other.append(x)
        # the local must be used for nothing else than the restore, otherwise it is an ordinary read
        if rest and other:
            out.append((v, a, s, rest, other))
    return out


@rule("SR1", ["C02", "C01", "C08"], "save/restore of visitor state: the old value is read before the attribute is overwritten and put back after the nested walk",
      engine="DF", floor=1)
def sr1(prog, rr):
    for f in prog.funcs:
        for v, a, s, rest, other in _save_restore_pairs(f.node):
            rr.inst("%s: %s saved in %s" % (_q(f), a, v))
            early = [o for o in other if (o.lineno, o.col_offset) < (s.lineno, s.col_offset)]
            if early:
                rr.finding(f, s, _q(f), "SR1: %s is overwritten (line %d) before its old value is saved in %s: the 'restore' at the end writes the "
                           "new value back, so the caller's state is lost after the nested walk (for RandInfoBuilder: constraints of the "
                           "enclosing object that follow a non-random sub-object are dropped from every rand set)" % (a, early[0].lineno, v),
                           text="save after write " + a)
            late = [o for o in other if (o.lineno, o.col_offset) > max((r.lineno, r.col_offset) for r in rest)]
            if late:
                rr.finding(f, late[0], _q(f), "SR1: %s is written again after it was restored from %s" % (a, v), text="write after restore " + a)


# --------------------------------------------------------------------------------------- SC1
@rule("SC1", ["C01", "C05", "C02"], "a constraint is filed as soft only if it is a soft constraint or the guard wrapper built around one", engine="XS", floor=3)
def sc1(prog, rr):
    f = prog.method("RandSet", "add_constraint")
    tests = [n.test for n in walk_local(f.node) if isinstance(n, ast.If)]
    kinds, attrs = [], []
    for t in tests:
        for n in ast.walk(t):
            if isinstance(n, ast.Call) and call_name(n) == "isinstance" and len(n.args) == 2:
                kinds += [norm(x) for x in (n.args[1].elts if isinstance(n.args[1], ast.Tuple) else [n.args[1]])]
            if isinstance(n, ast.Call) and call_name(n) == "hasattr" and len(n.args) == 2 and isinstance(n.args[1], ast.Constant):
                attrs.append(n.args[1].value)
    rr.require(kinds or attrs, "soft/hard classifier not recognised in RandSet.add_constraint")
    rr.inst("classifier: isinstance %s, hasattr %s" % (kinds, attrs))
    soft_classes = set()
    for k in kinds:
        c = prog.cls(k.split(".")[-1])
        soft_classes |= {c} | set(prog.subclasses(c))
    base = prog.cls("ConstraintModel")
    for a in attrs:
        # (1) no other constraint class carries the marker attribute
        for c in [base] + list(prog.subclasses(base)):
            if c in soft_classes:
                continue
            for m in c.methods.values():
                for n in walk_local(m.node):
                    tg = n.targets if isinstance(n, ast.Assign) else [n.target] if isinstance(n, (ast.AugAssign, ast.AnnAssign)) else []
                    if any(norm(t) == "self." + a for t in tg):
                        rr.finding(m, n, c.name, "SC1: every %s carries the attribute '%s', which RandSet.add_constraint uses to recognise soft "
                                   "constraints: hard statements of this kind are filed as (lowest-priority) soft constraints and are dropped "
                                   "whenever they conflict" % (c.name, a), text="%s.%s" % (c.name, a))
            if any(isinstance(st, ast.Assign) and any(norm(t) == a for t in st.targets) for st in c.node.body):
                rr.finding(c, c.node, c.name, "SC1: class attribute '%s' marks every %s as soft" % (a, c.name), text="%s.%s class-level" % (c.name, a))
        # (2) the marker is attached from outside only to the parameter of visit_constraint_soft or to the wrapper built around it
        for g in prog.funcs:
            for n in walk_local(g.node):
                tg = n.targets if isinstance(n, ast.Assign) else [n.target] if isinstance(n, ast.AugAssign) else []
                for t in tg:
                    if not (isinstance(t, ast.Attribute) and t.attr == a and isinstance(t.value, ast.Name) and t.value.id != "self"):
                        continue
                    recv = t.value.id
                    ok = False
                    why = ""
                    if g.name == "visit_constraint_soft" and len(g.params) >= 2 and recv == g.params[1]:
                        ok = True
                    elif g.name == "visit_constraint_soft" and len(g.params) >= 2:
                        # local bound to a constructor whose statement list holds the soft constraint itself
                        for d in local_defs(g.node).get(recv, []):
                            if isinstance(d, ast.Call) and any(isinstance(x, ast.List) and any(norm(e) == g.params[1] for e in x.elts) for x in d.args):
                                ok = True
                        why = " (not the wrapper built around %s)" % g.params[1]
                    rr.inst("marker %s attached in %s to %s: ok=%s" % (a, _q(g), recv, ok))
                    if not ok:
                        rr.finding(g, n, _q(g), "SC1: '%s' is attached to %s%s; RandSet.add_constraint then treats that statement as soft" % (a, recv, why))
        # (3) constructors of non-soft constraint classes are never handed the marker by keyword
        for g in prog.funcs:
            for n in walk_local(g.node):
                if isinstance(n, ast.Call) and any(k.arg == a for k in n.keywords):
                    c = prog.cls(call_name(n)) if prog.has_cls(call_name(n) or "") else None
                    if c is not None and c not in soft_classes and base in prog.mro(c):
                        rr.finding(g, n, _q(g), "SC1: %s constructed with %s=..." % (c.name, a))


# --------------------------------------------------------------------------------------- FT14
def _wrapper_classes(prog):
    out = []
    for n in ("constraint_t", "dynamic_constraint_t"):
        out.append(prog.cls(n))
    return out


def _wrapper_locals(fnode, wnames):
    """locals tested with isinstance(x, <wrapper class(es)>) or bound to a wrapper constructor in this function"""
    out = set()
    for n in walk_local(fnode):
        if isinstance(n, ast.Call) and call_name(n) == "isinstance" and len(n.args) == 2 and isinstance(n.args[0], ast.Name):
            ks = n.args[1].elts if isinstance(n.args[1], ast.Tuple) else [n.args[1]]
            if ks and all(norm(k).split(".")[-1] in wnames for k in ks):
                out.add(n.args[0].id)
        if isinstance(n, ast.Assign) and len(n.targets) == 1 and isinstance(n.targets[0], ast.Name) and isinstance(n.value, ast.Call) \
                and call_name(n.value) in wnames:
            out.add(n.targets[0].id)
    return out


@rule("FT14", ["C06", "C07", "C08", "C02"], "constraint wrappers are shared by every instance of a class: no per-instance state is cached on them", engine="XS", floor=8)
def ft14(prog, rr):
    ws = _wrapper_classes(prog)
    wnames = {w.name for w in ws}
    # per-instance attribute of the wrappers that exists today: `model` (last instance built wins; see known finding FT6D), written by set_model only
    for w in ws:
        for m in w.methods.values():
            params = set(m.params[1:])
            for n in walk_local(m.node):
                tg = n.targets if isinstance(n, ast.Assign) else [n.target] if isinstance(n, ast.AugAssign) else []
                for t in tg:
                    if not (isinstance(t, ast.Attribute) and isinstance(t.value, ast.Name) and t.value.id == "self"):
                        continue
                    val = n.value
                    # per-instance values: the block of one instance (self.model, the argument of set_model) and anything built from it
                    per_inst = "self.model" in names_in(val) or (m.name == "set_model" and bool(params & set(names_in(val))))
                    ok = (not per_inst) or (t.attr == "model" and m.name == "set_model")
                    rr.inst("%s.%s: self.%s = %s (per-instance=%s)" % (w.name, m.name, t.attr, norm(val)[:40], per_inst))
                    if not ok:
                        rr.finding(m, n, "%s.%s" % (w.name, m.name), "FT14: %s.%s stores %s, which is derived from one instance's constraint block, on the "
                                   "wrapper shared by all instances of the user's class: later references made through another instance resolve "
                                   "to the block cached for the first one" % (w.name, t.attr, norm(val)[:60]), text="self.%s per-instance" % t.attr)
    # code that runs per instance (facade functions handling a looked-up attribute) must not store anything but constants on a wrapper
    n_local = 0
    for g in prog.funcs:
        if g.cls is not None and g.cls in ws:
            continue
        wl = _wrapper_locals(g.node, wnames)
        if not wl:
            continue
        ctor_bound = {n.targets[0].id for n in walk_local(g.node) if isinstance(n, ast.Assign) and len(n.targets) == 1 and isinstance(n.targets[0], ast.Name)
                      and isinstance(n.value, ast.Call) and call_name(n.value) in wnames}
        n_local += len(wl)
        for n in walk_local(g.node):
            tg = n.targets if isinstance(n, ast.Assign) else [n.target] if isinstance(n, ast.AugAssign) else []
            for t in tg:
                if isinstance(t, ast.Attribute) and isinstance(t.value, ast.Name) and t.value.id in wl:
                    fresh = t.value.id in ctor_bound       # decoration time: the wrapper was just created, nothing per-instance exists yet
                    const = isinstance(n.value, ast.Constant)
                    rr.inst("%s: %s.%s = %s" % (_q(g), t.value.id, t.attr, norm(n.value)[:40]))
                    if not (fresh or const):
                        rr.finding(g, n, _q(g), "FT14: %s writes %s.%s = %s on a class-shared constraint wrapper from per-instance code (the only "
                                   "sanctioned path is set_model()): the value of the first/last instance is then seen by every other instance"
                                   % (_q(g), t.value.id, t.attr, norm(n.value)[:50]), text="%s.%s store" % (t.value.id, t.attr))
    rr.require(n_local >= 4, "wrapper-typed locals in the facade not recognised (%d)" % n_local)


# --------------------------------------------------------------------------------------- FT15
def _class_of_self_exprs(fnode):
    """names bound to type(self) / self.__class__ plus the expressions themselves (normalised text)"""
    names = {"type(self)", "self.__class__"}
    for n in walk_local(fnode):
        if isinstance(n, ast.Assign) and len(n.targets) == 1 and isinstance(n.targets[0], ast.Name) and norm(n.value) in ("type(self)", "self.__class__"):
            names.add(n.targets[0].id)
    return names


def _class_cache_sites(fnode):
    """(write nodes, read nodes) of attributes of the object's class made from instance code"""
    cn = _class_of_self_exprs(fnode)
    writes, reads = [], []
    for n in walk_local(fnode):
        if isinstance(n, (ast.Assign, ast.AugAssign)):
            tg = n.targets if isinstance(n, ast.Assign) else [n.target]
            for t in tg:
                if isinstance(t, ast.Attribute) and norm(t.value) in cn:
                    writes.append((t.attr, n))
        if isinstance(n, ast.Call) and call_name(n) == "setattr" and n.args and norm(n.args[0]) in cn and len(n.args) >= 2 \
                and isinstance(n.args[1], ast.Constant):
            writes.append((n.args[1].value, n))
        if isinstance(n, ast.Call) and call_name(n) in ("getattr", "hasattr") and len(n.args) >= 2 and isinstance(n.args[1], ast.Constant) \
                and (norm(n.args[0]) in cn or norm(n.args[0]) == "self"):
            reads.append((n.args[1].value, n))
        if isinstance(n, ast.Attribute) and isinstance(n.ctx, ast.Load) and norm(n.value) in cn:
            reads.append((n.attr, n))
    return writes, reads


_FT15_POSITIVE = '''
def build(self):
    cls = type(self)
    names = getattr(cls, "_memo", None)
    if names is None:
        names = [f for f in dir(cls)]
        cls._memo = names
    return names
'''


@rule("FT15", ["C07", "C06", "C08"], "constraint blocks are elaborated per instance from the instance's own attribute list; no run-time memo on the class read through inheritance",
      engine="XS", floor=3)
def ft15(prog, rr):
    # self-check of the detector on a positive example (the expected count on the tree is zero)
    pos = ast.parse(_FT15_POSITIVE).body[0]
    w, r = _class_cache_sites(pos)
    rr.require({a for a, _ in w} & {a for a, _ in r} == {"_memo"}, "FT15 detector does not fire on its positive example")
    n_fn = 0
    for g in prog.funcs:
        if not g.module.name.startswith("vsc.") or ".model." in g.module.name or ".visitors." in g.module.name:
            continue
        if not g.params or g.params[0] != "self":
            continue
        n_fn += 1
        w, r = _class_cache_sites(g.node)
        both = {a for a, _ in w} & {a for a, _ in r}
        for a in sorted(both):
            node = [n for x, n in w if x == a][0]
            rr.finding(g, node, _q(g), "FT15: %s memoises '%s' on the object's class at run time and reads it back through ordinary attribute lookup: "
                       "a subclass instance built after a base-class instance inherits the base's memo (for build_field_model: constraint blocks "
                       "declared only in the subclass are never elaborated, so they are neither enforced nor switchable)" % (_q(g), a),
                       text="class memo " + a)
    rr.inst("facade methods scanned for class-level memos: %d" % n_fn)
    # the elaboration loops iterate the instance's attribute list
    n_loops = 0
    for g in prog.funcs:
        if g.name != "build_field_model":
            continue
        wl = _wrapper_locals(g.node, {"constraint_t", "dynamic_constraint_t"})
        for lp in [n for n in walk_local(g.node) if isinstance(n, ast.For)]:
            tests = [n for n in ast.walk(lp) if isinstance(n, ast.Call) and call_name(n) == "isinstance" and len(n.args) == 2
                     and isinstance(n.args[0], ast.Name) and n.args[0].id in wl]
            if not tests:
                continue
            n_loops += 1
            src = norm(lp.iter)
            rr.inst("%s: constraint elaboration loop over %s" % (_q(g), src))
            if src not in ("dir(self)", "dir(type(self))", "dir(self.__class__)"):
                rr.finding(g, lp, _q(g), "FT15: the constraint elaboration loop iterates %s instead of the instance's attribute list dir(self): "
                           "which blocks an instance gets must be decided from its own class" % src, text="elaboration loop source")
    rr.require(n_loops >= 2, "constraint elaboration loops not found in build_field_model (%d)" % n_loops)


# --------------------------------------------------------------------------------------- FT16
@rule("FT16", ["C07", "C17", "C16", "C18"], "the solve (and the pre/post_randomize callbacks it runs) starts with expression and raw mode left", engine="SAI+CG", floor=4)
def ft16(prog, rr):
    from rules.r60_state_hygiene import stack_analysis
    an = stack_analysis(prog)
    modes = [i for i, c in enumerate(an.counters) if c[1] in ("_expr_mode", "_raw_mode")]
    rr.require(len(modes) == 2, "mode stacks not found among %s" % (an.counters,))
    sites = []
    for g in prog.funcs:
        if ".model." in g.module.name or ".visitors." in g.module.name:
            continue
        for n in walk_local(g.node):
            if isinstance(n, ast.Call) and call_name(n) == "do_randomize":
                sites.append((g, n))
    rr.require(len(sites) >= 4, "facade call sites of Randomizer.do_randomize not found (%d)" % len(sites))
    want = {id(n) for _, n in sites}
    old = an.observe_call
    an.observe_call = lambda call, func: id(call) in want
    try:
        for g, n in sites:
            an.observed.pop((g, n), None)
            an.exits(g)
            seen = an.observed.get((g, n), set())
            exp = tuple(0 for _ in modes)
            if g.name == "__exit__" and g.cls is not None:
                en = prog.lookup(g.cls, "__enter__")
                if en is not None:
                    ups = {v for k, v, _, _ in an.exits(en) if k == FALL}
                    if len(ups) == 1:
                        up = next(iter(ups))
                        exp = tuple(-up[i] for i in modes)
            got = sorted({tuple(v[i] for i in modes) for v in seen})
            rr.inst("%s: mode depth (expr, raw) relative to entry at do_randomize: %s expected %s" % (_q(g), got, exp))
            if not seen:
                rr.finding(g, n, _q(g), "FT16: call of do_randomize not reached by the analysis", text="unreached do_randomize")
            for v in got:
                if v != exp:
                    rr.finding(g, n, _q(g), "FT16: Randomizer.do_randomize is entered with the mode stacks at %s relative to entry (expected %s): "
                               "pre_randomize/post_randomize then run in expression mode, where attribute reads return field objects instead of "
                               "values and obj.<constraint> yields the class-level wrapper instead of the instance's block"
                               % (v, exp), text="do_randomize in expression mode")
    finally:
        an.observe_call = old


# --------------------------------------------------------------------------------------- IX1
@rule("IX1", ["C06", "C08"], "every name->index table entry is the length of the very list the item is appended to next", engine="DF", floor=2)
def ix1(prog, rr):
    n = 0
    for cn in ("FieldCompositeModel", "FieldArrayModel", "CovergroupModel", "CoverpointModel"):
        c = prog.cls(cn)
        for m in c.methods.values():
            body = sig_body(m.node)
            for i, st in enumerate(body):
                if not (isinstance(st, ast.Assign) and len(st.targets) == 1):
                    continue
                t = st.targets[0]
                lens = [x for x in ast.walk(st.value) if isinstance(x, ast.Call) and call_name(x) == "len" and x.args]
                if len(lens) != 1 or norm(st.value) != norm(lens[0]):
                    continue
                lst = norm(lens[0].args[0])
                if not lst.startswith("self."):
                    continue
                # the append that follows in the same block
                app = [x for x in body[i + 1:] if isinstance(x, ast.Expr) and isinstance(x.value, ast.Call) and call_name(x.value) == "append"]
                if not app:
                    continue
                n += 1
                first = app[0].value
                rr.inst("%s.%s: %s = len(%s) then %s.append" % (cn, m.name, norm(t), lst, recv_text(first)))
                if recv_text(first) != lst:
                    rr.finding(m, st, "%s.%s" % (cn, m.name), "IX1: the index recorded in %s is the length of %s but the item is appended to %s: "
                               "look-ups through the table then address a different element (or run past the end)"
                               % (norm(t), lst, recv_text(first)), text="index of other list")
    rr.require(n >= 2, "index-table sites not recognised (%d)" % n)


# --------------------------------------------------------------------------------------- CV17
@rule("CV17", ["C10", "C11", "C13"], "a bin container hands each child the base plus the number of bins of the children before it", engine="DF", floor=2)
def cv17(prog, rr):
    n = 0
    base = prog.cls("CoverpointBinModelBase")
    for c in [base] + list(prog.subclasses(base)) + [prog.cls("CoverpointModel")]:
        m = c.methods.get("finalize")
        if m is None:
            continue
        for lp in [x for x in walk_local(m.node) if isinstance(x, ast.For)]:
            calls = [x for x in ast.walk(lp) if isinstance(x, ast.Call) and call_name(x) == "finalize" and x.args]
            for call in calls:
                n += 1
                arg = call.args[0]
                # accumulator: a name/attribute updated in the loop with the child's return value (+=) or with get_n_bins()
                accs = set()
                for x in ast.walk(lp):
                    if isinstance(x, ast.AugAssign) and isinstance(x.op, ast.Add):
                        accs.add(norm(x.target))
                used = {a for a in accs if a in names_in(arg) or a in norm(arg)}
                loopvars = set(names_in(lp.target))
                rr.inst("%s.finalize: child base %s (accumulators %s)" % (c.name, norm(arg), sorted(accs)))
                if not used:
                    rr.finding(m, call, c.name + ".finalize", "CV17: the base index handed to the child (%s) does not depend on the running bin count "
                               "%s: a child that holds several bins overlaps the next child's indices, so hits are reported for the wrong bin"
                               % (norm(arg), sorted(accs) or ""), text="child base not cumulative")
                elif loopvars & set(names_in(arg)) - {recv_text(call)}:
                    rr.finding(m, call, c.name + ".finalize", "CV17: the child's base index (%s) is computed from the loop position" % norm(arg),
                               text="child base from position")
    rr.require(n >= 2, "bin containers' finalize loops not recognised (%d)" % n)
