"""SP1-SP5: typestate of the Boolector handle in Randomizer.randomize and the swizzler.

Oracle = Boolector's incremental semantics: assumptions are discharged by the next Sat;
Assert is permanent; a model may be read only after a SAT answer with nothing added since.
"""
import ast
from collections import namedtuple

from sa.core import rule
from sa.ir import sig_body, norm, call_name, recv_text, names_in, calls_in_order, AnalysisError, walk_local, dotted
from sa.sai import Domain, Interp, St, FALL, RAISE

U = namedtuple("U", "pending satset last verified model asserted hard_unsat acc sorted_soft flags")

SOLVER_EVENTS = {"Assume", "Assert", "Sat"}


def _parents(fnode):
    par = {}
    for n in ast.walk(fnode):
        for ch in ast.iter_child_nodes(n):
            par[ch] = n
    return par


class SPDom(Domain):
    """Abstract solver state.  ids of assumed/asserted nodes:
       ('all', L)  every element of list L (bulk loop without a Sat inside)
       ('elem', L) the current element of L (loop that calls Sat per element)
       ('var', n)  the node held in local n
    """

    def __init__(self, func, rr, summaries=None, hard=None, soft=None, entry=None, role="randomize", prog=None):
        self.func = func
        self.rr = rr
        self.par = _parents(func.node)
        self.summaries = summaries or {}
        self.hard = hard
        self.soft = soft
        self.entry = entry
        self.role = role
        self.readbacks = 0
        self.sat_sites = set()
        self.assert_sites = set()
        self.assume_sites = set()
        self.swizzle_sites = set()
        self.failure_sites = set()
        self.reported = set()
        self._rel = {}
        self.elem_loops_seen = set()
        self.prog = prog

    # ---------------------------------------------------------- relevance
    INTERESTING = SOLVER_EVENTS | {"Boolector", "post_randomize", "build", "sort", "extend", "append", "insert",
                                   "pop", "remove", "clear", "reverse"}

    def skip(self, stmt):
        r = self._rel.get(stmt)
        if r is None:
            r = False
            for n in walk_local(stmt):
                if isinstance(n, (ast.Return, ast.Raise, ast.Break, ast.Continue)):
                    r = True
                    break
                if isinstance(n, ast.Call) and (call_name(n) in self.INTERESTING or call_name(n) in self.summaries):
                    r = True
                    break
            self._rel[stmt] = r
        return not r

    def pure_call(self, call):
        if super().pure_call(call):
            return True
        # zero-argument getter methods (every definition in the program is `return self.<attr>`)
        if isinstance(call.func, ast.Attribute) and not call.args and not call.keywords and self.prog is not None:
            defs = [f for f in self.prog.funcs_named(call.func.attr) if f.cls is not None]
            return bool(defs) and all(_is_getter(f) for f in defs)
        return False

    # ------------------------------------------------------------ helpers
    def initial_user(self):
        if self.entry is not None:
            return self.entry
        return U(frozenset(), frozenset(), "none", True, False, frozenset(), False, frozenset(), False, frozenset())

    def report(self, node, rid_msg):
        k = (getattr(node, "lineno", 0), rid_msg)
        if k in self.reported:
            return
        self.reported.add(k)
        self.rr.finding(self.func, node, "%s.%s" % (self.func.cls.name if self.func.cls else "", self.func.name), rid_msg)

    def enclosing_loops(self, node):
        out = []
        n = node
        while n in self.par:
            n = self.par[n]
            if isinstance(n, (ast.For, ast.While)):
                out.append(n)
        return out

    def loop_has_sat(self, loop):
        return any(isinstance(c, ast.Call) and call_name(c) == "Sat" for c in walk_local(loop))

    def ident(self, call):
        """identity of the node passed to Assume/Assert"""
        if not call.args:
            return ("?", norm(call))
        arg = call.args[0]
        nm = names_in(arg)
        for lp in self.enclosing_loops(call):
            if isinstance(lp, ast.For) and isinstance(lp.target, ast.Name) and lp.target.id in nm:
                it = norm(lp.iter)
                return ("elem" if self.loop_has_sat(lp) else "all", it)
        if isinstance(arg, ast.Name):
            return ("var", arg.id)
        return ("expr", norm(arg))

    # ------------------------------------------------------------- events
    def on_for(self, st, node, first=True):
        # SP5: the soft fallback loop walks the priority-sorted soft list itself, in order
        if self.soft and self.role == "randomize" and self.loop_has_sat(node) and self.soft in names_in(node.iter):
            self.elem_loops_seen.add(node.lineno)
            txt = "for %s in %s" % (norm(node.target), norm(node.iter))
            if norm(node.iter) != self.soft:
                self.rr.finding(self.func, node, "Randomizer.randomize", "SP5: soft fallback iterates '%s', not the "
                                "priority-sorted list '%s' in order" % (norm(node.iter), self.soft), text=txt)
            elif not st.u.sorted_soft:
                self.rr.finding(self.func, node, "Randomizer.randomize", "SP5: soft fallback loop reached on a path where "
                                "'%s' is not sorted by descending priority after its last modification" % self.soft, text=txt)
        # emptiness of a call-free iterable is a fact shared by every loop over it
        it = node.iter
        if any(not (self.pure_call(c) or (isinstance(c.func, ast.Name) and c.func.id in ("range", "reversed", "enumerate", "sorted", "list", "tuple")))
               for c in calls_in_order(it)):
            return [("enter", st), ("exit", st)]
        key = (("nonempty " + norm(it)), tuple(sorted(names_in(it))), ())
        for k, v in st.facts:
            if k == key:
                if v:
                    # non-empty: the first evaluation enters; later ones may leave
                    return [("enter", st)] if first else [("enter", st), ("exit", st)]
                return [("exit", st)]
        # first encounter: decide emptiness
        if not first:
            return [("enter", st), ("exit", st)]
        ne = st._replace(facts=st.facts | {(key, True)})
        em = st._replace(facts=st.facts | {(key, False)})
        return [("enter", ne), ("exit", em)]

    def _on_sat_call(self, st, call, tested):
        u = st.u
        self.sat_sites.add(call.lineno)
        only_sat = (not u.pending) and u.verified
        outs = []
        sat_u = u._replace(pending=frozenset(), satset=u.pending, last="sat", verified=True, model=True)
        only_hard = (u.pending <= {("all", self.hard)}) and (u.asserted <= {("build", "*")})
        unsat_u = u._replace(pending=frozenset(), satset=u.pending, last="unsat", model=False,
                             hard_unsat=u.hard_unsat or (self.role == "randomize" and only_hard))
        if tested:
            outs.append((True, st._replace(u=sat_u)))
            if not only_sat:
                outs.append((False, st._replace(u=unsat_u)))
            return outs
        if only_sat:
            return [(True, st._replace(u=sat_u))]
        # untested result: the answer is unknown afterwards
        return [(None, st._replace(u=u._replace(pending=frozenset(), satset=frozenset(), last="unk", model=False)))]

    def on_test_atom(self, st, atom):
        # X.Sat() == X.SAT / != X.SAT
        if (isinstance(atom, ast.Compare) and len(atom.ops) == 1 and isinstance(atom.left, ast.Call)
                and call_name(atom.left) == "Sat" and isinstance(atom.comparators[0], ast.Attribute)
                and atom.comparators[0].attr == "SAT" and isinstance(atom.ops[0], (ast.Eq, ast.NotEq))):
            eq = isinstance(atom.ops[0], ast.Eq)
            return [((t == eq), s) for t, s in self._on_sat_call(st, atom.left, True)]
        # call to a summarised function used directly as a test
        if isinstance(atom, ast.Call) and call_name(atom) in self.summaries:
            res = []
            for kind, s2, info in self.on_call(st, atom, None, want_ret=True):
                if kind == RAISE:
                    res.append((RAISE, s2, info))
                else:
                    rv = info
                    if rv is None:
                        res += [(True, s2), (False, s2)]
                    else:
                        res.append((rv, s2))
            return res
        return None

    def decide(self, st, test, ctx):
        if isinstance(test, ast.Name):
            for n, v in st.u.acc:
                if n == test.id:
                    return [(v, st)]
        # res = btor.Sat() ... if res == btor.SAT
        if (isinstance(test, ast.Compare) and len(test.ops) == 1 and isinstance(test.left, ast.Name)
                and isinstance(test.comparators[0], ast.Attribute) and test.comparators[0].attr == "SAT"
                and isinstance(test.ops[0], (ast.Eq, ast.NotEq))):
            for n, v in st.u.acc:
                if n == "sat:" + test.left.id:
                    return [((v == isinstance(test.ops[0], ast.Eq)), st)]
        return super().decide(st, test, ctx)

    def on_call(self, st, call, ctx, want_ret=False):
        u = st.u
        name = call_name(call)
        if name == "Boolector" and self.role == "randomize":
            # a fresh solver: empty formula
            return [(FALL, st._replace(u=U(frozenset(), frozenset(), "none", True, False, frozenset(), False,
                                          u.acc, u.sorted_soft, u.flags)), None)]
        if name in SOLVER_EVENTS or name in self.summaries or name in ("post_randomize",):
            if u.hard_unsat and self.role == "randomize":
                self.report(call, "SP1: solver/read-back activity (%s) on a path where the hard constraints were found not SAT "
                                  "(must raise SolveFailure)" % name)
        if name == "Assume":
            self.assume_sites.add(call.lineno)
            i = self.ident(call)
            return [(FALL, st._replace(u=u._replace(pending=u.pending | {i}, model=False)), None)]
        if name == "Assert":
            self.assert_sites.add(call.lineno)
            i = self.ident(call)
            ok = u.last == "sat" and i in u.satset
            if not ok:
                why = ("the last Sat() answer on this path is '%s'" % u.last) if u.last != "sat" else \
                      ("%s was not among the assumptions %s of the SAT answer" % (i, sorted(u.satset)))
                self.report(call, "SP2: Assert(%s) not licensed: %s" % (norm(call.args[0]) if call.args else "?", why))
            return [(FALL, st._replace(u=u._replace(asserted=u.asserted | {i}, model=False,
                                                     verified=u.verified and ok)), None)]
        if name == "Sat":
            return [(FALL, s, None) for _, s in self._on_sat_call(st, call, False)]
        if name == "build" and self.role != "diag":
            # field / expression build may Assert (enum domain) and creates nodes
            return [(FALL, st._replace(u=u._replace(verified=False if not u.pending else u.verified,
                                                     asserted=u.asserted | {("build", "*")})), None)] \
                if self._build_may_assert(call) else [(FALL, st, None)]
        if name in self.summaries:
            self.swizzle_sites.add(call.lineno)
            summ = self.summaries[name]
            if self.role == "randomize" and self.hard and ("all", self.hard) not in u.asserted:
                ne_key = "nonempty " + self.hard
                known_empty = any(k[0] == ne_key and v is False for k, v in st.facts)
                if not known_empty:
                    self.report(call, "SP1: %s() reached on a path where the hard constraints (%s) were not asserted "
                                      "after their SAT check; randomising bits could then override them" % (name, self.hard))
            if u.pending or not u.verified:
                self.report(call, "SP3: %s() entered with %s" % (name, "pending assumptions %s" % sorted(u.pending)
                                                                  if u.pending else "a formula not known to be satisfiable"))
            outs = []
            for (rv, ex) in summ:
                if not ex.touched:
                    nu = u
                else:
                    nu = u._replace(pending=frozenset(), model=ex.model, verified=ex.verified, last=ex.last,
                                    satset=frozenset())
                outs.append((FALL, st._replace(u=nu), rv))
            if not want_ret:
                outs = [(k, s, None) for k, s, _ in outs]
            return outs
        if name == "post_randomize" and self.role == "randomize":
            self.readbacks += 1
            if not u.model or u.pending:
                self.report(call, "SP3: model read-back (post_randomize) in a state where %s" % (
                    "assumptions %s are pending" % sorted(u.pending) if u.pending else
                    "the last solver call is not a Sat() known to be SAT"))
            return [(FALL, st, None)]
        if name in ("sort", "extend", "append", "reverse", "insert", "pop", "remove", "clear") and self.soft \
                and recv_text(call) == self.soft:
            if name == "sort":
                ok = _is_priority_desc_sort(call)
                return [(FALL, st._replace(u=u._replace(sorted_soft=ok)), None)]
            st2 = st._replace(u=u._replace(sorted_soft=False))
            # mutation of the list invalidates emptiness facts about it
            return [(FALL, self.invalidate(st2, [self.soft]), None)]
        if name in ("extend", "append", "insert", "pop", "remove", "clear") and recv_text(call):
            return [(FALL, self.invalidate(st, [recv_text(call)]), None)]
        return [(FALL, st, None)]

    def _build_may_assert(self, call):
        return True

    def on_assign(self, st, stmt):
        u = st.u
        # boolean accumulators: x = False / x = True / x |= <summarised call>
        if isinstance(stmt, ast.Assign) and len(stmt.targets) == 1 and isinstance(stmt.targets[0], ast.Name):
            n = stmt.targets[0].id
            acc = frozenset((a, b) for a, b in u.acc if a != n)
            if isinstance(stmt.value, ast.Constant) and isinstance(stmt.value.value, bool):
                acc = acc | {(n, stmt.value.value)}
            # a re-bound local that named an assumed node goes stale
            pend = frozenset((("stale", i[1]) if i == ("var", n) else i) for i in u.pending)
            sats = frozenset((("stale", i[1]) if i == ("var", n) else i) for i in u.satset)
            return st._replace(u=u._replace(acc=acc, pending=pend, satset=sats))
        return st

    def stmt_augor(self, st, stmt, ctx):
        return None


def _is_getter(f):
    body = sig_body(f.node)
    return (len(body) == 1 and isinstance(body[0], ast.Return) and isinstance(body[0].value, ast.Attribute)
            and isinstance(body[0].value.value, ast.Name) and body[0].value.value.id == "self")


class Exit(namedtuple("Exit", "model verified last touched")):
    pass


def _is_priority_desc_sort(call):
    kw = {k.arg: k.value for k in call.keywords}
    rev = kw.get("reverse")
    key = kw.get("key")
    if not (isinstance(rev, ast.Constant) and rev.value is True):
        return False
    if not isinstance(key, ast.Lambda):
        return False
    body = key.body
    return isinstance(body, ast.Attribute) and body.attr == "priority"


class SPInterp(Interp):
    """adds: `acc |= summarised_call(...)` accumulators (return-value sensitivity)"""

    def stmt(self, st, s, ctx):
        dom = self.dom
        if (isinstance(st, ast.Assign) and len(st.targets) == 1 and isinstance(st.targets[0], ast.Name)
                and isinstance(st.value, ast.Call) and call_name(st.value) == "Sat"):
            from sa.sai import Outs
            outs = Outs()
            n = "sat:" + st.targets[0].id
            for truth, x in dom._on_sat_call(s, st.value, True):
                acc = frozenset((a, b) for a, b in x.u.acc if a != n) | {(n, truth)}
                outs.add(FALL, x._replace(u=x.u._replace(acc=acc)))
            return outs
        # ok = (btor.Sat() == btor.SAT)
        if (isinstance(st, ast.Assign) and len(st.targets) == 1 and isinstance(st.targets[0], ast.Name)
                and isinstance(st.value, ast.Compare) and len(st.value.ops) == 1
                and isinstance(st.value.ops[0], (ast.Eq, ast.NotEq))
                and isinstance(st.value.left, ast.Call) and call_name(st.value.left) == "Sat"
                and isinstance(st.value.comparators[0], ast.Attribute) and st.value.comparators[0].attr == "SAT"):
            from sa.sai import Outs
            outs = Outs()
            n = st.targets[0].id
            eq = isinstance(st.value.ops[0], ast.Eq)
            for truth, x in dom._on_sat_call(s, st.value.left, True):
                acc = frozenset((a, b) for a, b in x.u.acc if a != n) | {(n, truth == eq)}
                outs.add(FALL, x._replace(u=x.u._replace(acc=acc)))
            return outs
        if (isinstance(st, ast.AugAssign) and isinstance(st.op, ast.BitOr) and isinstance(st.target, ast.Name)
                and isinstance(st.value, ast.Call) and call_name(st.value) in dom.summaries):
            from sa.sai import Outs
            outs = Outs()
            # evaluate argument calls first
            pre = [s]
            for c in calls_in_order(st.value)[:-1]:
                nxt = []
                for x in pre:
                    for kind, x2, info in dom.on_call(x, c, ctx):
                        if kind == RAISE:
                            outs.add(RAISE, x2, info)
                        else:
                            nxt.append(x2)
                pre = nxt
            for x in pre:
                for kind, x2, rv in dom.on_call(x, st.value, ctx, want_ret=True):
                    if kind == RAISE:
                        outs.add(RAISE, x2, rv)
                        continue
                    n = st.target.id
                    old = dict(x2.u.acc).get(n)
                    if old is True or rv is True:
                        new = True
                    elif old is False and rv is False:
                        new = False
                    else:
                        new = None
                    acc = frozenset((a, b) for a, b in x2.u.acc if a != n)
                    if new is not None:
                        acc |= {(n, new)}
                    outs.add(FALL, x2._replace(u=x2.u._replace(acc=acc)))
            return outs
        return super().stmt(st, s, ctx)


def _ret_truth(stmt):
    if stmt.value is None:
        return False
    if isinstance(stmt.value, ast.Constant):
        return bool(stmt.value.value)
    return None


class SummDom(SPDom):
    """domain for a swizzler function: records (return truth, exit state) pairs"""

    def __init__(self, *a, **k):
        super().__init__(*a, **k)
        self.exits = set()

    def on_return(self, st, stmt):
        self.exits.add((_ret_truth(stmt), st.u))
        return st


def summarise(func, rr, summaries, role, prog=None):
    entry = U(frozenset(), frozenset(), "none", True, False, frozenset(), False, frozenset(), False, frozenset())
    dom = SummDom(func, rr, summaries=summaries, entry=entry, role=role, prog=prog)
    outs = SPInterp(dom, func=func).run(func.node)
    for s in outs.fall:
        dom.exits.add((False, s.u))
    summ = set()
    n_sat = len(dom.sat_sites)
    for rv, u in dom.exits:
        touched = (u != entry._replace(acc=u.acc, flags=u.flags))
        if touched or u.model:
            # the function ran solver calls: its normal exits must leave a valid model
            if not (u.model and u.verified and not u.pending):
                dom.report(func.node, "SP3: a normal exit of %s leaves the solver %s; callers read the model back next" % (
                    func.name, "with pending assumptions" if u.pending else
                    ("with an unverified formula" if not u.verified else "without a SAT answer after the last Assume/Assert")))
        summ.add((rv, Exit(u.model, u.verified, u.last, touched)))
    raises = {(lab) for (_, lab, _) in outs.rais}
    return summ, dom, raises


def _find_lists(func):
    """names of the hard and soft node lists in Randomizer.randomize, from the code itself:
    X.extend(<...constraints()...>) / Y.extend(<...soft_constraints()...>)"""
    hard = soft = None
    hard_flag = soft_flag = None
    for n in walk_local(func.node):
        if isinstance(n, ast.Call) and call_name(n) == "extend" and n.args:
            inner = {call_name(c) for c in ast.walk(n.args[0]) if isinstance(c, ast.Call)}
            if "soft_constraints" in inner:
                soft = recv_text(n)
            elif "constraints" in inner:
                hard = recv_text(n)
    return hard, soft


@rule("SP", ["C01", "C02", "C05", "C14", "C15", "C16", "C20"],
      "solver protocol typestate: Assume/Sat/Assert/read-back in randomize + swizzler", engine="SAI", floor=12)
def sp(prog, rr):
    rnd = prog.method("Randomizer", "randomize")
    swz_cls = _swizzler_class(prog, rr)
    sw = prog.method(swz_cls, "swizzle")
    sfl = prog.method(swz_cls, "swizzle_field_l")

    hard, soft = _find_lists(rnd)
    rr.require(hard and soft, "cannot identify the hard / soft node lists in Randomizer.randomize "
                              "(expected X.extend(... rs.constraints() ...) and Y.extend(... rs.soft_constraints() ...))")
    # ---- swizzle_field_l: element protocol + final Sat
    s1, d1, raises1 = summarise(sfl, rr, {}, "swizzle", prog)
    rr.inst("summary swizzle_field_l: %d exit classes, %d Sat sites, %d Assume, %d Assert" % (
        len(s1), len(d1.sat_sites), len(d1.assume_sites), len(d1.assert_sites)))
    rr.require(d1.assert_sites and d1.assume_sites and d1.sat_sites, "swizzle_field_l has no Assume/Sat/Assert protocol")
    if "SolveFailure" in raises1:
        rr.finding(sfl, sfl.node, "%s.swizzle_field_l" % swz_cls, "SP4: swizzle section can raise SolveFailure (randomising bits must never be fatal)")
    # ---- swizzle
    s2, d2, raises2 = summarise(sw, rr, {"swizzle_field_l": s1}, "swizzle", prog)
    rr.inst("summary swizzle: %d exit classes" % len(s2))
    if "SolveFailure" in raises2:
        rr.finding(sw, sw.node, "%s.swizzle" % swz_cls, "SP4: swizzle section can raise SolveFailure")
    # ---- randomize
    dom = SPDom(rnd, rr, summaries={"swizzle": s2}, hard=hard, soft=soft, role="randomize", prog=prog)
    outs = SPInterp(dom, func=rnd).run(rnd.node)
    for s in dom.__dict__.get("sat_sites", ()):
        pass
    rr.inst("Randomizer.randomize: hard list '%s', soft list '%s'" % (hard, soft))
    for ln in sorted(dom.sat_sites):
        rr.inst("Sat site line %d" % ln)
    for ln in sorted(dom.assert_sites):
        rr.inst("Assert site line %d" % ln)
    for ln in sorted(dom.assume_sites):
        rr.inst("Assume site line %d" % ln)
    for ln in sorted(dom.swizzle_sites):
        rr.inst("swizzle call line %d" % ln)
    rr.require(dom.readbacks > 0, "no model read-back (post_randomize) reached in Randomizer.randomize")
    rr.require(dom.swizzle_sites, "no swizzle call reached in Randomizer.randomize")
    # exits
    n_fail = 0
    for (s, lab, site) in outs.rais:
        if lab == "SolveFailure":
            n_fail += 1
            if not s.u.hard_unsat:
                dom.report(site, "SP4: SolveFailure raised on a path where the hard constraints were not found UNSAT "
                                 "(last answer '%s', asserted %s)" % (s.u.last, sorted(s.u.asserted)))
    for s in outs.fall | outs.ret:
        if s.u.hard_unsat:
            dom.report(rnd.node, "SP1: Randomizer.randomize returns normally on a path where the hard constraints were not SAT")
    rr.require(n_fail > 0, "no SolveFailure exit found in Randomizer.randomize")
    rr.inst("SolveFailure exits: %d path classes; normal exits: %d" % (n_fail, len(outs.fall | outs.ret)))
    rr.sample({"function": "Randomizer.randomize", "hard": hard, "soft": soft,
               "sat_sites": sorted(dom.sat_sites), "assert_sites": sorted(dom.assert_sites)})
    rr.require(dom.elem_loops_seen, "soft fallback loop (element protocol over %s) not found" % soft)


def _swizzler_class(prog, rr):
    """the swizzler the Randomizer actually instantiates (self.swizzler = X(...))"""
    init = prog.method("Randomizer", "__init__")
    for n in walk_local(init.node):
        if isinstance(n, ast.Assign) and any(dotted(t) == "self.swizzler" for t in n.targets) \
                and isinstance(n.value, ast.Call):
            d = dotted(n.value.func)
            if d:
                return d.split(".")[-1]
    raise AnalysisError("Randomizer.__init__ no longer assigns self.swizzler from a constructor")


