"""SH1: balance of the process-wide construction stacks on every exit, including exceptional
exits at user-code call sites (C16, C06)."""
import ast

from sa.core import rule
from sa.ir import call_name, dotted, walk_local, norm, AnalysisError, Func, Class, Module, names_in
from sa.balance import BalanceAnalysis, vadd
from sa.sai import FALL, RAISE, Domain, Interp

STACK_MODULES = ("vsc.impl.ctor", "vsc.impl.expr_mode")
NOT_A_SCOPE_STACK = {"expr_l"}      # expression scratch list: cleared wholesale, see SH2
GENERIC = {"append", "pop", "clear", "add", "remove", "extend", "insert", "keys", "items", "values", "get", "copy",
           "sort", "format", "join", "startswith", "endswith", "index", "count", "update", "split", "strip", "print",
           "len", "str", "int", "isinstance", "hasattr", "getattr", "setattr", "range", "enumerate", "list", "dict",
           "set", "tuple", "super", "type", "callable", "max", "min", "abs", "bool", "map", "filter", "sorted", "dir"}


class StackAnalysis(BalanceAnalysis):
    def __init__(self, prog):
        self.prog = prog
        self.stacks = {}      # (module, name) -> index
        self.prims = {}       # Func -> vector
        counters = []
        for mn in STACK_MODULES:
            m = prog.module(mn)
            for name, val in m.globals.items():
                if isinstance(val, ast.List) and not val.elts and name not in NOT_A_SCOPE_STACK:
                    counters.append((mn, name))
        if len(counters) < 5:
            raise AnalysisError("expected the five global stacks in vsc.impl.ctor / vsc.impl.expr_mode, found %s" % counters)
        super().__init__(prog, counters)
        for mn in STACK_MODULES:
            m = prog.module(mn)
            for f in m.functions.values():
                eff = []
                for n in walk_local(f.node):
                    if isinstance(n, ast.Call) and isinstance(n.func, ast.Attribute) and isinstance(n.func.value, ast.Name):
                        key = (mn, n.func.value.id)
                        if key in counters:
                            if n.func.attr == "append":
                                eff.append(self.unit(key, 1))
                            elif n.func.attr == "pop":
                                eff.append(self.unit(key, -1))
                if len(eff) == 1:
                    self.prims[f] = eff[0]
        self._resolve_cache = {}
        self._nonnull = {}
        self._callers_built = False
        self.relevant = None

    # ---------------------------------------------------------------- primitives
    def primitive(self, call, func):
        d = dotted(call.func)
        if d is None:
            return None
        if "." not in d or not d.startswith("self."):
            r = self.prog.resolve_dotted(func.module, d)
            if isinstance(r, Func) and r in self.prims:
                return self.prims[r]
        # direct manipulation of a stack object: X.append / X.pop
        if isinstance(call.func, ast.Attribute) and call.func.attr in ("append", "pop"):
            rd = dotted(call.func.value)
            if rd:
                r = self.prog.resolve_dotted(func.module, rd)
                if isinstance(r, tuple) and r[0] == "global" and (r[1].name, r[2]) in self.counters \
                        and func.module.name not in STACK_MODULES:
                    return self.unit((r[1].name, r[2]), 1 if call.func.attr == "append" else -1)
        return None

    # ------------------------------------------------------------ user callbacks
    def user_callback(self, call, func):
        f = call.func
        if isinstance(f, ast.Attribute):
            # constraint body:  fo.c(self)  /  self.c(*self.args, **self.kwargs)
            if f.attr == "c" and call.args:
                return "constraint-body"
            if isinstance(f.value, ast.Call) and isinstance(f.value.func, ast.Name) and f.value.func.id == "super" \
                    and func.cls is not None and func.cls.outer is not None:
                if self.prog.lookup(func.cls, f.attr, after=func.cls) is None:
                    return "user-" + f.attr
            if isinstance(f.value, ast.Name) and f.value.id == "self" and f.attr in ("pre_randomize", "post_randomize") \
                    and (func.cls is None or self.prog.lookup(func.cls, f.attr) is None or func.name.startswith("do_")):
                return f.attr
        return None

    # ------------------------------------------------------------------ resolve
    def _prebuilt_by_factory(self, call, func):
        """`self.get_model()` inside __enter__/__exit__ of a class whose factory method (the only documented way to obtain
        the context manager: `with obj.randomize_with(...)`) already called self.get_model() unconditionally: the model exists,
        so this call takes the no-build path and cannot run constraint bodies."""
        if func.name not in ("__enter__", "__exit__") or func.cls is None:
            return False
        if not (isinstance(call.func, ast.Attribute) and call.func.attr == "get_model" and isinstance(call.func.value, ast.Name)
                and call.func.value.id == "self"):
            return False
        fac = func.cls.methods.get("randomize_with")
        if fac is None:
            return False
        rets_self = any(isinstance(n, ast.Return) and norm(n.value) == "self" for n in walk_local(fac.node))
        builds = any(isinstance(st, ast.Expr) and isinstance(st.value, ast.Call) and norm(st.value) == "self.get_model()" for st in fac.node.body)
        return rets_self and builds

    def resolve(self, call, func):
        if self._prebuilt_by_factory(call, func):
            return []
        key = (id(call), func.qual)
        if key in self._resolve_cache:
            return self._resolve_cache[key]
        res = self._resolve(call, func)
        if self.relevant is not None:
            res = [f for f in res if f in self.relevant]
        self._resolve_cache[key] = res
        return res

    def _resolve(self, call, func):
        prog = self.prog
        f = call.func
        out = []
        if isinstance(f, ast.Name):
            if f.id in GENERIC:
                return []
            r = prog.resolve_name(func.module, f.id)
            # local (nested) function or class of an enclosing function
            if r is None:
                o = func
                while o is not None and r is None:
                    for g in prog.funcs:
                        if g.outer is o and g.name == f.id and g.cls is None:
                            r = g
                    for c in prog.classes:
                        if c.outer is o and c.name == f.id:
                            r = c
                    o = o.outer
            if isinstance(r, Func):
                out = [r]
            elif isinstance(r, Class):
                for m in ("__init__",):
                    g = prog.lookup(r, m)
                    if g is not None:
                        out.append(g)
            return out
        if isinstance(f, ast.Attribute):
            name = f.attr
            if name in GENERIC:
                return []
            v = f.value
            if isinstance(v, ast.Name) and v.id == "self" and func.cls is not None:
                cands = []
                for c in prog.subclasses(func.cls):
                    g = prog.lookup(c, name)
                    if g is not None and g not in cands:
                        cands.append(g)
                if cands:
                    return cands
            if isinstance(v, ast.Call) and isinstance(v.func, ast.Name) and v.func.id == "super" and func.cls is not None:
                g = prog.lookup(func.cls, name, after=func.cls)
                return [g] if g is not None else []
            d = dotted(f)
            if d:
                r = prog.resolve_dotted(func.module, d)
                if isinstance(r, Func):
                    return [r]
                if isinstance(r, Class):
                    g = prog.lookup(r, "__init__")
                    return [g] if g else []
            # unknown receiver: every method of that name
            return [g for g in prog.funcs_named(name) if g.cls is not None or g.outer is not None]
        return []

    def resolve_with(self, item, func):
        prog = self.prog
        e = item.context_expr
        if isinstance(e, ast.Call):
            d = dotted(e.func)
            if d:
                r = prog.resolve_dotted(func.module, d)
                if isinstance(r, Class):
                    return [r]
                if isinstance(r, Func):
                    # factory returning a local class instance
                    return [c for c in prog.classes if c.outer is r and "__enter__" in c.methods]
            return []
        if isinstance(e, ast.Name):
            # X = self._get_int()  ->  class constructed inside that getter
            for n in walk_local(func.node):
                if isinstance(n, ast.Assign) and any(isinstance(t, ast.Name) and t.id == e.id for t in n.targets) \
                        and isinstance(n.value, ast.Call):
                    out = []
                    for g in self._resolve(n.value, func):
                        for c in walk_local(g.node):
                            if isinstance(c, ast.Call):
                                dd = dotted(c.func)
                                r = prog.resolve_dotted(g.module, dd) if dd else None
                                if isinstance(r, Class) and "__enter__" in r.methods:
                                    out.append(r)
                    return out
        return []

    # -------------------------------------------------------------- relevance
    def build_relevant(self):
        prog = self.prog
        callees = {}
        seeds = set(self.prims)
        for f in prog.funcs:
            cs = set()
            for n in walk_local(f.node):
                if isinstance(n, ast.Call):
                    if self.primitive(n, f) is not None or self.user_callback(n, f):
                        seeds.add(f)
                    for g in self._resolve(n, f):
                        cs.add(g)
                elif isinstance(n, ast.With):
                    for it in n.items:
                        for c in self.resolve_with(it, f):
                            for m in ("__enter__", "__exit__"):
                                g = prog.lookup(c, m)
                                if g is not None:
                                    cs.add(g)
                elif isinstance(n, ast.Raise) and n.exc is not None:
                    d = dotted(n.exc)
                    if d and d.split(".")[-1] == "SolveFailure":
                        seeds.add(f)
            callees[f] = cs
        rel = set(seeds)
        changed = True
        while changed:
            changed = False
            for f, cs in callees.items():
                if f not in rel and cs & rel:
                    rel.add(f)
                    changed = True
        self.relevant = rel
        self._resolve_cache.clear()
        return rel

    def relevant_func(self, f):
        return self.relevant is None or f in self.relevant

    # ------------------------------------------------------------ invariants
    def nonnull_attrs(self, cls):
        """attributes that are non-None on every normal exit of __init__ and never set to None elsewhere"""
        if cls in self._nonnull:
            return self._nonnull[cls]
        res = set()
        init = cls.methods.get("__init__")
        if init is not None:
            class D(Domain):
                def initial_user(s):
                    return frozenset()

                def on_assign(s, st, stmt):
                    if isinstance(stmt, ast.Assign):
                        u = dict(st.u)
                        for t in stmt.targets:
                            d = dotted(t)
                            if d and d.startswith("self."):
                                u[d[5:]] = not (isinstance(stmt.value, ast.Constant) and stmt.value.value is None)
                        return st._replace(u=frozenset(u.items()))
                    return st
            outs = Interp(D(), func=init).run(init.node)
            exits = [dict(s.u) for s in outs.fall | outs.ret]
            if exits:
                for a in set.intersection(*[set(e) for e in exits]):
                    if all(e[a] for e in exits):
                        res.add(a)
            for name, m in cls.methods.items():
                if name == "__init__":
                    continue
                for n in walk_local(m.node):
                    if isinstance(n, ast.Assign) and isinstance(n.value, ast.Constant) and n.value.value is None:
                        for t in n.targets:
                            d = dotted(t)
                            if d and d.startswith("self.") and d[5:] in res:
                                res.discard(d[5:])
        self._nonnull[cls] = res
        return res

    def decide_hook(self, func, st, test):
        # `self.X is not None` under the class invariant established by __init__
        if func.cls is not None and func.name != "__init__" and isinstance(test, ast.Compare) and len(test.ops) == 1:
            d = dotted(test.left)
            c = test.comparators[0]
            if d and d.startswith("self.") and isinstance(c, ast.Constant) and c.value is None:
                if d[5:] in self.nonnull_attrs(func.cls):
                    if isinstance(test.ops[0], (ast.IsNot, ast.NotEq)):
                        return True
                    if isinstance(test.ops[0], (ast.Is, ast.Eq)):
                        return False
        return None


def _fmt(an, vec):
    return ", ".join("%s%+d" % (c[1], v) for c, v in zip(an.counters, vec) if v) or "0"


def _qual(f):
    return ("%s.%s" % (f.cls.name, f.name)) if f.cls is not None else f.name


_CACHE = {}


def stack_analysis(prog):
    if prog.digest not in _CACHE:
        an = StackAnalysis(prog)
        an.build_relevant()
        _CACHE[prog.digest] = an
    return _CACHE[prog.digest]


@rule("SH1", ["C16", "C06", "C18", "C07"], "global construction stacks balanced on every exit incl. user-code faults", engine="SAI+CG", floor=30)
def sh1(prog, rr):
    an = stack_analysis(prog)
    rel = an.relevant
    rr.note("stacks: %s" % [c[1] for c in an.counters])
    rr.note("primitives: %s" % sorted(f.name for f in an.prims))
    rr.require(len(an.prims) >= 9, "push/pop primitives of the stacks not recognised (%d found)" % len(an.prims))
    done_pairs = set()
    for f in sorted(rel, key=lambda x: x.qual):
        if f in an.prims or f.module.name in STACK_MODULES and f.cls is None:
            continue
        exits = an.exits(f)
        cname = _qual(f)
        if f.name in ("__enter__", "__exit__") and f.cls is not None:
            c = f.cls
            if c in done_pairs:
                continue
            done_pairs.add(c)
            en, ex = prog.lookup(c, "__enter__"), prog.lookup(c, "__exit__")
            if en is None or ex is None:
                continue
            e_en, e_ex = an.exits(en), an.exits(ex)
            rr.inst("context manager %s: enter %s / exit %s" % (c.name, sorted({_fmt(an, v) for k, v, _, _ in e_en if k == FALL}),
                                                               sorted({_fmt(an, v) for _, v, _, _ in e_ex})))
            ups = {v for k, v, _, _ in e_en if k == FALL}
            if len(ups) != 1:
                rr.finding(en, en.node, c.name + ".__enter__", "SH1: __enter__ leaves the stacks at different depths on "
                           "different normal exits: %s" % sorted(_fmt(an, v) for v in ups), text="def __enter__")
                continue
            up = next(iter(ups))
            g = {}
            for k, v, lab, site in e_en:
                if k == RAISE and v != an.zero:
                    g.setdefault((v, site), set()).add(str(lab))
            for (v, site), labs in sorted(g.items(), key=lambda kv: (getattr(kv[0][1], "lineno", 0), repr(kv[0][0]))):
                rr.finding(en, site or en.node, c.name + ".__enter__", "SH1: __enter__ can raise (%s) after pushing (%s); "
                           "__exit__ is not run in that case" % (", ".join(sorted(labs)), _fmt(an, v)),
                           text=(norm(site)[:120] if site is not None else "def __enter__") + " :: " + _fmt(an, v))
            want = tuple(-x for x in up)
            for k, v, lab, site in e_ex:
                if v != want:
                    rr.finding(ex, site or ex.node, c.name + ".__exit__", "SH1: __exit__ (%s exit%s) has net effect %s but "
                               "__enter__ pushed %s" % ("exceptional" if k == RAISE else "normal",
                                                        " via " + str(lab) if lab else "", _fmt(an, v), _fmt(an, up)))
            continue
        rr.inst("function %s: %d exits" % (f.qual, len(exits)))
        groups = {}
        for k, v, lab, site in exits:
            if v != an.zero:
                groups.setdefault((k, v, site), set()).add(str(lab) if lab else "")
        for (k, v, site), labs in sorted(groups.items(), key=lambda kv: (getattr(kv[0][2], "lineno", 0), repr(kv[0][1]))):
            where = site if site is not None else f.node
            labs = sorted(l for l in labs if l)
            rr.finding(f, where, cname, "SH1: %s exit%s leaves the global stacks unbalanced: %s" % (
                "exceptional" if k == RAISE else "normal", (" (exception kinds: %s)" % ", ".join(labs)) if labs else "", _fmt(an, v)),
                text=(norm(where)[:120] if site is not None else "def " + f.name) + " :: " + _fmt(an, v))
    for (q, ln), lab in sorted(an.fault_sites.items()):
        rr.sample({"fault_point": lab, "function": q, "line": ln})
    rr.note("fault points (user-code call sites with exceptional edges): %d" % len(an.fault_sites))
    rr.require(len(an.fault_sites) >= 6, "user-code fault points not recognised (%d)" % len(an.fault_sites))
