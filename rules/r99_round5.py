"""Rules added after the fifth seeded round (less central sites: helpers, sibling classes, error branches):
VP1 (a resetting visitor reaches what the setting visitor reaches), FT19 (class-level constraint_mode always records the flag),
ST6 (RandState always seeded; the lazily created default state is kept), RS12 (the full field list of a rand set is unconditional)."""
import ast

from sa.core import rule
from sa.ir import sig_body, norm, dotted, call_name, recv_text, walk_local, names_in, local_defs, expand_locals
from sa.ir import guard_facts as _guard_facts_all


def guard_facts(fnode, node):
    """conditions under which node runs; an argument check that raises does not make what follows conditional"""
    return _guard_facts_all(fnode, node, with_raise=False)


def _q(f):
    return ("%s.%s" % (f.cls.name, f.name)) if f.cls is not None else f.name


def _calls_super(f):
    return any(isinstance(n, ast.Call) and isinstance(n.func, ast.Attribute) and n.func.attr == f.name
               and isinstance(n.func.value, ast.Call) and isinstance(n.func.value.func, ast.Name) and n.func.value.func.id == "super"
               for n in walk_local(f.node)) or \
        any(isinstance(n, ast.Call) and isinstance(n.func, ast.Attribute) and n.func.attr == f.name and isinstance(n.func.value, ast.Name)
            and n.func.value.id[:1].isupper() for n in walk_local(f.node))


# --------------------------------------------------------------------------------------- VP1
@rule("VP1", ["C06", "C05", "C09", "C16"], "the per-call soft-priority reset reaches every soft constraint the priority assignment reaches", engine="XS", floor=2)
def vp1(prog, rr):
    setter, resetter = prog.cls("RandInfoBuilder"), prog.cls("ClearSoftPriorityVisitor")
    base = prog.cls("ModelVisitor")
    for name, f in sorted(resetter.methods.items()):
        if not name.startswith("visit_"):
            continue
        cuts = not _calls_super(f)
        rr.inst("ClearSoftPriorityVisitor.%s continues below the node: %s" % (name, not cuts))
        if not cuts or name == "visit_constraint_soft":
            continue
        # the reset stops here: fine only if the visitor that assigns priorities stops at the same node kind too, or if the base
        # traversal has nothing below this node kind
        s = setter.methods.get(name)
        base_m = base.methods.get(name)
        leaf = base_m is not None and not any(isinstance(n, ast.Call) and call_name(n) in ("accept",) or (isinstance(n, ast.Call) and call_name(n).startswith("visit_"))
                                              for n in walk_local(base_m.node))
        if leaf or (s is not None and not _calls_super(s)):
            continue
        rr.finding(f, f.node, "ClearSoftPriorityVisitor." + name, "VP1: the reset of soft priorities stops at %s while RandInfoBuilder, which adds to a "
                   "soft constraint's priority on every call, walks through it (an expression statement can be a reference to a dynamic "
                   "constraint block): soft constraints below keep the priority accumulated by earlier calls and outrank softs written later"
                   % name.replace("visit_", ""), text="reset cut at " + name)
    rr.inst("RandInfoBuilder.visit_constraint_soft adds to the priority: %s" % any(isinstance(n, ast.AugAssign) and norm(n.target).endswith(".priority")
                                                                                  for n in walk_local(setter.methods["visit_constraint_soft"].node)))


# --------------------------------------------------------------------------------------- FT19
@rule("FT19", ["C07"], "the class-level constraint_mode always records the new flag (it seeds every instance built later)", engine="DF", floor=1)
def ft19(prog, rr):
    f = prog.method("constraint_t", "constraint_mode")
    p = f.params[1]
    stores = [n for n in walk_local(f.node) if isinstance(n, ast.Assign) and any(norm(t) == "self.enabled" for t in n.targets)]
    rr.inst("constraint_t.constraint_mode stores of self.enabled: %d" % len(stores))
    if not stores:
        rr.finding(f, f.node, "constraint_t.constraint_mode", "FT19: the class-level flag is not written", text="no store")
    for s in stores:
        g = guard_facts(f.node, s)
        early = [n for n in walk_local(f.node) if isinstance(n, ast.Return) and n.lineno < s.lineno]
        if norm(s.value) != p:
            rr.finding(f, s, "constraint_t.constraint_mode", "FT19: the class-level flag is set to '%s', not to the requested mode" % norm(s.value))
        if g or early:
            rr.finding(f, s, "constraint_t.constraint_mode", "FT19: the class-level flag is only recorded when %s: a request that matches the state of the "
                       "block the wrapper happens to be bound to (the last instance built) is dropped, so instances created later start with "
                       "the old setting" % (g or "no earlier return is taken"), text="conditional store")


# --------------------------------------------------------------------------------------- ST6
@rule("ST6", ["C09"], "a RandState is always seeded from its argument; the default state created on first use is kept", engine="DF", floor=3)
def st6(prog, rr):
    init = prog.method("RandState", "__init__")
    seeds = [n for n in walk_local(init.node) if isinstance(n, ast.Call) and call_name(n) == "seed"]
    rr.inst("RandState.__init__ seed calls: %d" % len(seeds))
    if not seeds:
        rr.finding(init, init.node, "RandState.__init__", "ST6: the generator is never seeded: it starts from OS entropy", text="no seed")
    for s in seeds:
        g = guard_facts(init.node, s)
        if g:
            rr.finding(init, s, "RandState.__init__", "ST6: the generator is seeded only when %s: for the other seed values (0, '') it starts from OS entropy "
                       "and the same seed gives different values in every process" % g, text="conditional seed")
        if not s.args or not (set(names_in(s.args[0])) & set(init.params[1:])):
            rr.finding(init, s, "RandState.__init__", "ST6: the generator is seeded with '%s', not with the constructor's argument" % (norm(s.args[0]) if s.args else ""))
    for a in init.node.args.defaults:
        rr.finding(init, init.node, "RandState.__init__", "ST6: the seed has a default (%s): a RandState() without a seed is possible" % norm(a), text="seed default")
    # lazily created default state of an object is stored
    g = prog.method("RandObjInt", "get_randstate")
    mk = [n for n in walk_local(g.node) if isinstance(n, ast.Call) and call_name(n) in ("mk", "RandState", "mkFromSeed")]
    rr.inst("RandObjInt.get_randstate creates a state at %d site(s)" % len(mk))
    stored_names = set()
    for n in walk_local(g.node):
        if isinstance(n, ast.Assign) and any(norm(t) == "self.randstate" for t in n.targets):
            stored_names |= {norm(n.value)} | set(names_in(n.value))
    for c in mk:
        par_assign = [n for n in walk_local(g.node) if isinstance(n, ast.Assign) and any(x is c for x in ast.walk(n.value))]
        ok = any(any(norm(t) == "self.randstate" for t in n.targets) for n in par_assign) or \
            any(isinstance(t, ast.Name) and t.id in stored_names for n in par_assign for t in n.targets)
        if not ok:
            rr.finding(g, c, "RandObjInt.get_randstate", "ST6: the default random state created on first use is not kept in self.randstate: every call "
                       "draws a new state from Python's global random module, so an object's values depend on unrelated use of that module "
                       "and a snapshot taken with get_randstate() does not replay", text="default state not stored")
    rets = [n for n in walk_local(g.node) if isinstance(n, ast.Return) and n.value is not None]
    rr.inst("RandObjInt.get_randstate returns: %s" % [norm(r.value) for r in rets])


# --------------------------------------------------------------------------------------- RS12
@rule("RS12", ["C02", "C16", "C03"], "the complete field list of a rand set (what dispose/build walk) receives every field", engine="DF", floor=1)
def rs12(prog, rr):
    c = prog.cls("RandSet")
    getters = {}
    for name in ("all_fields", "fields"):
        m = c.methods.get(name)
        if m is None:
            continue
        b = sig_body(m.node)
        if len(b) == 1 and isinstance(b[0], ast.Return) and isinstance(b[0].value, ast.Attribute):
            getters[name] = norm(b[0].value)
    rr.require(getters, "RandSet.all_fields / fields not found")
    addf = c.methods.get("add_field")
    rr.require(addf is not None, "RandSet.add_field not found")
    for gname, lst in sorted(getters.items()):
        apps = [n for n in walk_local(addf.node) if isinstance(n, ast.Call) and call_name(n) in ("append", "add") and recv_text(n) == lst]
        rr.inst("RandSet.add_field fills %s (%s()): %d site(s)" % (lst, gname, len(apps)))
        if not apps:
            rr.finding(addf, addf.node, "RandSet.add_field", "RS12: %s() is never filled by add_field" % gname, text="no fill " + gname)
        for a in apps:
            g = [t for t in guard_facts(addf.node, a) if "is_used_rand" in t or "rand" in t.split(" not in ")[0] and " not in " not in t]
            if g:
                rr.finding(addf, a, "RandSet.add_field", "RS12: a field enters %s() only when %s: non-random fields referenced by the set's constraints "
                           "are built as solver constants but are then neither disposed nor rebuilt - after a SolveFailure every later "
                           "randomize() of the object fails with a node of the dead solver instance" % (gname, g), text="conditional full list")


# --------------------------------------------------------------------------------------- CV19
@rule("CV19", ["C10"], "the exclusion list (ignore + illegal values) is compacted after its last addition and before it trims any bin", engine="DF", floor=1)
def cv19(prog, rr):
    fs = [f for f in prog.funcs if f.name == "build_cov_model" and f.module.name == "vsc.coverage"
          and any(isinstance(n, ast.Call) and call_name(n) in ("add_range", "add_value") and "exclude" in (recv_text(n) or "") for n in walk_local(f.node))]
    rr.require(fs, "coverpoint.build_cov_model (exclusion list construction) not found")
    for f in fs:
        ev = []
        for n in walk_local(f.node):
            if isinstance(n, ast.Call):
                rv = recv_text(n) or ""
                if call_name(n) in ("add_range", "add_value", "append", "extend") and "exclude" in rv:
                    ev.append((n.lineno, n.col_offset, "add", n))
                elif call_name(n) == "compact" and "exclude" in rv:
                    ev.append((n.lineno, n.col_offset, "compact", n))
                elif any("exclude" in norm(a) and isinstance(a, ast.Name) for a in n.args) and call_name(n) in ("intersect", "build_cov_model"):
                    ev.append((n.lineno, n.col_offset, "use", n))
        ev.sort(key=lambda e: e[:2])
        adds = [e for e in ev if e[2] == "add"]
        comps = [e for e in ev if e[2] == "compact"]
        uses = [e for e in ev if e[2] == "use"]
        rr.inst("%s: %d additions, %d compactions, %d uses of the exclusion list" % (_q(f), len(adds), len(comps), len(uses)))
        if adds and uses:
            last_add = adds[-1]
            first_use = uses[0]
            if not any(last_add[:2] < c[:2] < first_use[:2] for c in comps):
                rr.finding(f, last_add[3], _q(f), "CV19: values are added to the exclusion list after its last compaction (sort + merge) and before it is used "
                           "to trim the bins: RangelistModel.intersect walks a sorted list, so an excluded value that sorts before an earlier "
                           "entry is not removed from the regular bins (an illegal value is then counted as a regular hit and as illegal)",
                           text="add after compact")


# --------------------------------------------------------------------------------------- MUT1
def _mut1(prog, rr, classes, what):
    n = 0
    for c in classes:
        cls_level = {}
        for st in c.node.body:
            tg = None
            if isinstance(st, ast.Assign) and len(st.targets) == 1 and isinstance(st.targets[0], ast.Name):
                tg, v = st.targets[0].id, st.value
            elif isinstance(st, ast.AnnAssign) and isinstance(st.target, ast.Name) and st.value is not None:
                tg, v = st.target.id, st.value
            if tg and (isinstance(v, (ast.Dict, ast.List, ast.Set)) or (isinstance(v, ast.Call) and isinstance(v.func, ast.Name) and v.func.id in ("dict", "list", "set"))):
                cls_level[tg] = st
        if not cls_level:
            continue
        inst_assigned = set()
        for m in c.methods.values():
            for x in walk_local(m.node):
                tgs = x.targets if isinstance(x, ast.Assign) else [x.target] if isinstance(x, (ast.AnnAssign, ast.AugAssign)) else []
                for t in tgs:
                    if isinstance(t, ast.Attribute) and isinstance(t.value, ast.Name) and t.value.id == "self":
                        inst_assigned.add(t.attr)
        for a, st in sorted(cls_level.items()):
            n += 1
            if a in inst_assigned:
                continue        # every instance gets its own object in a method; the class attribute is a default only
            muts = []
            for m in c.methods.values():
                for x in walk_local(m.node):
                    if isinstance(x, (ast.Assign, ast.AugAssign)):
                        tgs = x.targets if isinstance(x, ast.Assign) else [x.target]
                        for t in tgs:
                            if isinstance(t, ast.Subscript) and norm(t.value) == "self." + a:
                                muts.append((m, x))
                    if isinstance(x, ast.Call) and isinstance(x.func, ast.Attribute) and norm(x.func.value) == "self." + a \
                            and x.func.attr in ("append", "add", "update", "extend", "pop", "remove", "clear", "insert", "setdefault"):
                        muts.append((m, x))
                    # handed to another object that may fill it (`Helper(self.a)`, `f(self.a)`)
                    if isinstance(x, ast.Call) and any(norm(arg) == "self." + a for arg in list(x.args) + [k.value for k in x.keywords]) \
                            and call_name(x) not in ("len", "print", "str", "list", "sorted", "iter", "isinstance"):
                        muts.append((m, x))
            rr.inst("%s.%s is a class-level container; mutated through self at %d site(s)" % (c.name, a, len(muts)))
            if muts:
                m, x = muts[0]
                rr.finding(m, x, "%s.%s" % (c.name, m.name), "MUT1: %s.%s is a container created once in the class body, never given to the instance, "
                           "and filled through `self.%s` (%s): every instance of %s writes into the same object%s" % (c.name, a, a, norm(x)[:50], c.name, what),
                           text="shared class container " + a)
    return n


@rule("MUT1c", ["C11", "C10", "C12"], "coverage models keep their tables per instance (no class-level container filled through self)", engine="EFF", floor=1)
def mut1c(prog, rr):
    cs = [c for c in prog.classes if c.module.name.startswith("vsc.model.cover") or c.module.name == "vsc.model.rangelist_model"]
    _mut1(prog, rr, cs, " (two crosses of different shapes overwrite each other's tuple<->index tables: samples increment the wrong cross bin)")
    rr.inst("coverage model classes scanned: %d" % len(cs))


@rule("MUT1s", ["C01", "C09", "C20"], "solve-path models and visitors keep their tables per instance", engine="EFF", floor=1)
def mut1s(prog, rr):
    cs = [c for c in prog.classes if (c.module.name.startswith("vsc.model.") or c.module.name.startswith("vsc.visitors."))
          and not c.module.name.startswith("vsc.model.cover")]
    _mut1(prog, rr, cs, "")
    rr.inst("model/visitor classes scanned: %d" % len(cs))


# --------------------------------------------------------------------------------------- CV20
@rule("CV20", ["C13"], "the name a report shows for an instance is the one get_name()/set_name() operate on", engine="EFF", floor=2)
def cv20(prog, rr):
    g = prog.method("CoverageSaveVisitor", "get_cg_instname")
    cgp = g.params[1]
    pref = []
    for n in walk_local(g.node):
        if isinstance(n, ast.Attribute) and isinstance(n.value, ast.Name) and n.value.id == cgp and isinstance(n.ctx, ast.Load) and n.attr not in pref:
            pref.append(n.attr)
    rr.inst("report instance name is read from %s" % pref)
    rr.require("name" in pref, "CoverageSaveVisitor.get_cg_instname no longer reads the model's name")
    setn = [f for f in prog.funcs if f.name == "set_name" and f.module.name == "vsc.coverage"]
    rr.require(setn, "covergroup set_name not found in vsc.coverage")
    set_writes = {t.attr for f in setn for n in walk_local(f.node) if isinstance(n, ast.Assign) for t in n.targets if isinstance(t, ast.Attribute)}
    rr.inst("set_name writes %s" % sorted(set_writes))
    for a in pref:
        if a == "name":
            continue
        for f in prog.funcs:
            if f.module.name != "vsc.coverage":
                continue
            for n in walk_local(f.node):
                if isinstance(n, ast.Assign) and any(isinstance(t, ast.Attribute) and t.attr == a and "model" in norm(t.value) for t in n.targets):
                    if a not in set_writes:
                        rr.finding(f, n, _q(f), "CV20: %s sets the model's `%s`, which the report prefers over `name`, but set_name() only updates `name`: "
                                   "after a rename the report, the text rendering and the XML keep the old instance name while get_name() returns "
                                   "the new one" % (_q(f), a), text="report-preferred name " + a)


# --------------------------------------------------------------------------------------- CV21
@rule("CV21", ["C13", "C12", "C10"], "a regular-bin hit always invalidates the cached percentage and notifies the covergroup exactly when the bin becomes covered",
      engine="DF", floor=2)
def cv21(prog, rr):
    f = prog.method("CoverpointModel", "coverage_ev")
    inval = [n for n in walk_local(f.node) if isinstance(n, ast.Assign) and any(norm(t) == "self.coverage_calc_valid" for t in n.targets)
             and isinstance(n.value, ast.Constant) and n.value.value is False]
    rr.inst("CoverpointModel.coverage_ev invalidations: %d" % len(inval))
    ok_inv = [n for n in inval if all(("bin_type" in g or "CoverpointBinType" in g) for g in guard_facts(f.node, n))]
    if not ok_inv:
        rr.finding(f, (inval or [f.node])[0], "CoverpointModel.coverage_ev", "CV21: the cached coverage percentage is invalidated only under %s: a hit that does "
                   "not change the covered set still changes nothing, but a covering hit on another path leaves a stale percentage"
                   % ([guard_facts(f.node, n) for n in inval] or "no condition at all - it is never invalidated"), text="conditional invalidation")
    # the hit itself is counted on every regular-bin event
    incs = [n for n in walk_local(f.node) if isinstance(n, ast.AugAssign) and isinstance(n.op, ast.Add) and isinstance(n.target, ast.Subscript)
            and norm(n.target.value) in ("self.hit_l",) or (isinstance(n, ast.AugAssign) and "hit_l" in norm(n.target) and "ignore" not in norm(n.target)
                                                           and "illegal" not in norm(n.target))]
    for n in incs:
        extra = [g for g in guard_facts(f.node, n) if not ("bin_type" in g or "CoverpointBinType" in g)]
        rr.inst("hit counter increment %s guarded by %s" % (norm(n), guard_facts(f.node, n)))
        if extra:
            rr.finding(f, n, "CoverpointModel.coverage_ev", "CV21: the hit of a regular bin is only counted when %s: once a model is fully covered its counters "
                       "stop, and the type model - which reaches 100%% before any single instance does - no longer holds the sum of the instances' hits"
                       % extra, text="conditional hit count")
    notes = [n for n in walk_local(f.node) if isinstance(n, ast.Call) and call_name(n) == "coverage_ev" and "parent" in (recv_text(n) or "")]
    rr.inst("covergroup notifications: %d" % len(notes))
    if not notes:
        rr.finding(f, f.node, "CoverpointModel.coverage_ev", "CV21: the covergroup is never told that a bin became covered", text="no notification")
    for n in notes:
        extra = [g for g in guard_facts(f.node, n) if not ("bin_type" in g or "CoverpointBinType" in g or "unhit_s" in g or "at_least" in g)]
        if extra:
            rr.finding(f, n, "CoverpointModel.coverage_ev", "CV21: the covergroup is notified of a newly covered bin only when %s: its cached percentage "
                       "(get_coverage / get_inst_coverage) then stays stale while reports, computed from the bin counts, move on" % extra,
                       text="conditional notification")


# --------------------------------------------------------------------------------------- BD8
@rule("BD8", ["C14"], "no bound is inferred for a field from a constraint on one of its part-selects", engine="XS", floor=1)
def bd8(prog, rr):
    f = prog.method("Expr2FieldVisitor", "visit_expr_partselect")
    descends = [n for n in walk_local(f.node) if isinstance(n, ast.Call) and call_name(n) in ("accept", "field")]
    vb = prog.cls("VariableBoundVisitor")
    aware = any("ExprPartselectModel" in norm(m.node) or "partselect" in norm(m.node).lower() for m in vb.methods.values()
                if m.name in ("visit_expr_bin", "visit_expr_in", "visit_expr_partselect"))
    rr.inst("Expr2FieldVisitor.visit_expr_partselect resolves to the base field: %s; bounds visitor distinguishes part-selects: %s" % (bool(descends), aware))
    if descends and not aware:
        rr.finding(f, descends[0], "Expr2FieldVisitor.visit_expr_partselect", "BD8: a part-select now resolves to the field it selects from, and the bounds "
                   "visitor uses this helper to decide which variable a relational or `in` constraint bounds: `f[1:0] <= k` shrinks the inferred "
                   "range of the whole field to [0..k], so legal values with other upper bits are never produced", text="partselect resolves to field")


# --------------------------------------------------------------------------------------- BD9
@rule("BD9", ["C14", "C20"], "the number of bits the swizzler steers covers the magnitude of both ends of the target range", engine="DF", floor=1)
def bd9(prog, rr):
    f = prog.method("SolveGroupSwizzlerPartsel", "create_rand_domain_constraint")
    widths = [n for n in walk_local(f.node) if isinstance(n, ast.Assign) and isinstance(n.value, ast.Call) and
              any(isinstance(c, ast.Call) and call_name(c) == "max" for c in ast.walk(n.value)) and "[0]" in norm(n.value) and "[1]" in norm(n.value)]
    rr.require(widths, "magnitude computation (max over both range ends) not found in create_rand_domain_constraint")
    for w in widths:
        t = norm(w.value)
        ends = sorted({norm(s) for s in ast.walk(w.value) if isinstance(s, ast.Subscript) and norm(s).endswith(("[0]", "[1]"))})
        covered = {norm(a) for c in ast.walk(w.value) if isinstance(c, ast.Call) and call_name(c) == "abs" for a in c.args}
        rr.inst("swizzle magnitude: %s" % t)
        missing = [e for e in ends if e not in covered]
        if missing:
            rr.finding(f, w, "SolveGroupSwizzlerPartsel.create_rand_domain_constraint", "BD9: the magnitude is computed as %s: the absolute value is not taken of %s "
                       "before the maximum, so for a range with a negative lower end too few bits are steered and the upper bits (and the sign) "
                       "are left to the solver's default" % (t, missing), text="magnitude of one end")


# --------------------------------------------------------------------------------------- FT20
@rule("FT20", ["C18", "C15", "C01"], "every evaluator of a [hi:lo] select uses a mask of hi-lo+1 bits", engine="XS", floor=3)
def ft20(prog, rr):
    sites = [("ExprPartselectModel", "val"), ("type_base", "__getitem__"), ("type_base", "__setitem__"), ("ValueInt", "__getitem__")]
    n = 0
    for cn, mn in sites:
        if not prog.has_cls(cn):
            continue
        f = prog.cls(cn).methods.get(mn)
        if f is None:
            continue
        for x in walk_local(f.node):
            if isinstance(x, ast.BinOp) and isinstance(x.op, ast.LShift) and isinstance(x.left, ast.Constant) and x.left.value == 1:
                amt = x.right
                subs = [s for s in ast.walk(amt) if isinstance(s, ast.BinOp) and isinstance(s.op, ast.Sub)]
                if not subs:
                    continue        # a single-bit mask
                n += 1
                plus1 = isinstance(amt, ast.BinOp) and isinstance(amt.op, ast.Add) and \
                    any(isinstance(k, ast.Constant) and k.value == 1 for k in (amt.left, amt.right))
                rr.inst("%s.%s mask width: %s" % (cn, mn, norm(amt)))
                if not plus1:
                    rr.finding(f, x, "%s.%s" % (cn, mn), "FT20: the mask of a [hi:lo] select is built with %s bits; the other evaluators use hi-lo+1: the top bit of "
                               "the slice is dropped here (a dist weight given as a register slice with its top bit set is read as 0 by the "
                               "weighted draw while the solver sees the real value)" % norm(amt), text="mask width")
    rr.require(n >= 3, "part-select mask computations not recognised (%d)" % n)


# --------------------------------------------------------------------------------------- MUT2
@rule("MUT2", ["C17", "C16", "C09"], "no mutable default argument is mutated, handed on or kept (one object would be shared by every call)", engine="EFF", floor=1)
def mut2(prog, rr):
    mutated_attrs = set()
    for f in prog.funcs:
        for x in walk_local(f.node):
            if isinstance(x, ast.Call) and isinstance(x.func, ast.Attribute) and x.func.attr in ("append", "add", "update", "extend", "pop", "remove", "clear", "insert") \
                    and isinstance(x.func.value, ast.Attribute):
                mutated_attrs.add(x.func.value.attr)
            if isinstance(x, (ast.Assign, ast.AugAssign)):
                for t in (x.targets if isinstance(x, ast.Assign) else [x.target]):
                    if isinstance(t, ast.Subscript) and isinstance(t.value, ast.Attribute):
                        mutated_attrs.add(t.value.attr)
    n = 0
    for f in prog.funcs:
        a = f.node.args
        pos = a.posonlyargs + a.args
        pairs = list(zip(pos[len(pos) - len(a.defaults):], a.defaults)) + [(k, d) for k, d in zip(a.kwonlyargs, a.kw_defaults) if d is not None]
        for arg, d in pairs:
            if not (isinstance(d, (ast.List, ast.Dict, ast.Set)) or (isinstance(d, ast.Call) and isinstance(d.func, ast.Name) and d.func.id in ("list", "dict", "set"))):
                continue
            n += 1
            p = arg.arg
            why = None
            for x in walk_local(f.node):
                if isinstance(x, ast.Call) and isinstance(x.func, ast.Attribute) and isinstance(x.func.value, ast.Name) and x.func.value.id == p \
                        and x.func.attr in ("append", "add", "update", "extend", "pop", "remove", "clear", "insert", "setdefault"):
                    why = "is mutated here (%s)" % norm(x)[:40]
                elif isinstance(x, ast.Call) and any(isinstance(y, ast.Name) and y.id == p for y in list(x.args) + [k.value for k in x.keywords]) \
                        and not (isinstance(x.func, ast.Name) and x.func.id in ("len", "list", "tuple", "set", "sorted", "str", "print", "enumerate", "iter")):
                    why = "is handed on to %s, which may mutate it" % norm(x.func)
                elif isinstance(x, ast.Assign) and isinstance(x.value, ast.Name) and x.value.id == p:
                    for t in x.targets:
                        if isinstance(t, ast.Attribute) and t.attr in mutated_attrs:
                            why = "is kept as %s, which is mutated elsewhere" % norm(t)
                elif isinstance(x, (ast.Assign, ast.AugAssign)) and any(isinstance(t, ast.Subscript) and isinstance(t.value, ast.Name) and t.value.id == p
                                                                        for t in (x.targets if isinstance(x, ast.Assign) else [x.target])):
                    why = "is written through an index"
            rr.inst("%s(%s=%s): %s" % (_q(f), p, norm(d), why or "only read"))
            if why:
                rr.finding(f, f.node, _q(f), "MUT2: the default value of parameter '%s' of %s is one %s object shared by every call that omits the argument, and it %s: "
                           "what one call leaves in it (e.g. the objects on the recursion guard list when a callback raised) is seen by all later calls"
                           % (p, _q(f), norm(d), why), text="mutable default " + p)
    rr.require(n >= 1, "no mutable default argument found (expected the known harmless one)")


# --------------------------------------------------------------------------------------- FT21
@rule("FT21", ["C18"], "a part-select read returns bits of the value on every path (no value-dependent shortcut to a constant)", engine="DF", floor=2)
def ft21(prog, rr):
    for cn, mn in (("ValueInt", "__getitem__"), ("type_base", "__getitem__")):
        f = prog.cls(cn).methods.get(mn)
        if f is None:
            continue
        vals = {n.targets[0].id for n in walk_local(f.node) if isinstance(n, ast.Assign) and len(n.targets) == 1 and isinstance(n.targets[0], ast.Name)
                and ("__int__" in norm(n.value) or "get_val()" in norm(n.value))}
        rets = [n for n in walk_local(f.node) if isinstance(n, ast.Return) and n.value is not None]
        k = 0
        for r in rets:
            facts = guard_facts(f.node, r)
            if any("is_expr_mode()" == g or g == "get_expr_mode()" for g in facts):
                continue        # builds an expression
            k += 1
            uses_val = bool(vals & set(names_in(r.value))) or any(v in expand_locals(f.node, r.value) for v in vals)
            if isinstance(r.value, ast.Constant) or not uses_val:
                rr.finding(f, r, "%s.%s" % (cn, mn), "FT21: under %s the read returns %s without looking at the selected bits: for a negative value the "
                           "sign-extension ones lie above bit_length(), so s[7:4] of an int8 holding -1 reads 0 instead of 15 while the other read "
                           "path returns the real bits" % (facts, norm(r.value)), text="constant part-select read")
        rr.inst("%s.%s value returns: %d" % (cn, mn, k))


# --------------------------------------------------------------------------------------- LW15
@rule("LW15", ["C18", "C01", "C03"], "two's-complement conversions test the sign BIT (value & (1 << width-1)), never an ordering against 2^(width-1)", engine="DF", floor=4)
def lw15(prog, rr):
    n = 0
    for f in prog.funcs:
        if not (f.module.name in ("vsc.types", "vsc.model.field_scalar_model", "vsc.model.value_scalar")):
            continue
        for i in walk_local(f.node):
            if not isinstance(i, ast.If):
                continue
            t = i.test
            # a sign conversion: the guarded body subtracts / negates with 1 << width
            body_txt = " ".join(norm(s) for s in i.body)
            if not ("-=" in body_txt or "= -" in body_txt or "~" in body_txt):
                continue
            atoms = [a for a in ast.walk(t) if isinstance(a, ast.Compare)]
            sign_atoms = [a for a in atoms if "width" in norm(a) and "<<" in norm(a)]
            if not sign_atoms:
                continue
            for a in sign_atoms:
                n += 1
                bit_test = any(isinstance(x, ast.BinOp) and isinstance(x.op, ast.BitAnd) for x in ast.walk(a)) and isinstance(a.ops[0], (ast.NotEq, ast.Eq))
                rr.inst("%s sign test: %s" % (_q(f), norm(a)))
                if not bit_test:
                    rr.finding(f, a, _q(f), "LW15: the sign of a %s-bit pattern is decided by `%s`: an ordering comparison misclassifies the pattern "
                               "100...0 (the most negative value), which is then stored as +2^(width-1), outside the declared type" % ("width", norm(a)),
                               text="sign test by ordering")
    rr.require(n >= 4, "sign conversions not recognised (%d)" % n)


# --------------------------------------------------------------------------------------- CV22
@rule("CV22", ["C19"], "every (value, mask) pattern given to a wildcard bin is kept: one stored entry per pattern, keyed by both", engine="DF", floor=1)
def cv22(prog, rr):
    f = prog.method("WildcardBinspec", "__init__")
    p = f.params[1]
    loops = [lp for lp in walk_local(f.node) if isinstance(lp, ast.For) and norm(lp.iter) == p]
    rr.require(loops, "WildcardBinspec.__init__ no longer iterates its patterns")
    lp = loops[0]
    s = norm(lp.target)
    apps = [n for n in walk_local(lp) if isinstance(n, ast.Call) and call_name(n) == "append" and recv_text(n) == "self.specs"]
    dict_stores = [n for n in walk_local(lp) if isinstance(n, ast.Assign) and isinstance(n.targets[0], ast.Subscript)]
    rr.inst("WildcardBinspec.__init__: %d list appends, %d keyed stores per pattern" % (len(apps), len(dict_stores)))
    for a in apps:
        g = guard_facts(lp, a)
        if g:
            rr.finding(f, a, "WildcardBinspec.__init__", "CV22: a pattern is stored only when %s" % g, text="conditional pattern")
    for d in dict_stores:
        key = d.targets[0].slice
        both = isinstance(key, ast.Tuple) and any(norm(e) == "%s[1]" % s for e in key.elts) and any("%s[0]" % s in norm(e) for e in key.elts)
        if not both:
            rr.finding(f, d, "WildcardBinspec.__init__", "CV22: patterns are collected in a table keyed by %s: two patterns with the same masked value but different "
                       "masks (0x0? and 0x?0) collapse into one, so samples matching the dropped pattern no longer hit the bin" % norm(key),
                       text="patterns keyed by value only")
    if not apps and not dict_stores:
        rr.finding(f, lp, "WildcardBinspec.__init__", "CV22: the patterns are not stored", text="patterns not stored")


# --------------------------------------------------------------------------------------- RS13
@rule("RS13", ["C20", "C06", "C07"], "pass 0 of the rand-info builder (which collects solve_order directives) walks expression statements like pass 1 does", engine="DF", floor=2)
def rs13(prog, rr):
    c = prog.cls("RandInfoBuilder")
    from tables.exceptions import RS13_PASS_GATES
    n = 0
    base = prog.cls("ModelVisitor")
    for name, f in sorted(c.methods.items()):
        if not name.startswith("visit_"):
            continue
        bm = base.methods.get(name)
        if bm is not None and not any(isinstance(x, ast.Call) and (call_name(x) == "accept" or (call_name(x) or "").startswith("visit_")) for x in walk_local(bm.node)):
            continue        # nothing lies below this node kind
        descents = [x for x in walk_local(f.node) if isinstance(x, ast.Call) and isinstance(x.func, ast.Attribute)
                    and (x.func.attr == name or (x.func.attr == "accept" and x.args and norm(x.args[0]) == "self"))]
        for r in [x for x in walk_local(f.node) if isinstance(x, ast.Return)]:
            g = [t for t in guard_facts(f.node, r) if "_pass" in t]
            # only a return that skips a descent into the node's children matters
            if g and any((d.lineno, d.col_offset) > (r.lineno, r.col_offset) for d in descents):
                n += 1
                rr.inst("RandInfoBuilder.%s returns early under %s" % (name, g))
                if name not in RS13_PASS_GATES:
                    rr.finding(f, r, "RandInfoBuilder." + name, "RS13: %s stops the walk under %s: what lies below this node kind is then not seen in that pass - a "
                               "reference to a dynamic constraint is an expression statement, and expanding it is the only way to the solve_order "
                               "directives written inside the block" % (name, g), text="pass-gated return")
        # a whole-body gate `if self._pass == 1:` around the super() call has the same effect
        for i in [x for x in f.node.body if isinstance(x, ast.If) and "_pass" in norm(x.test)]:
            sup = [x for x in walk_local(i) if isinstance(x, ast.Call) and isinstance(x.func, ast.Attribute) and x.func.attr == name]
            outside = [x for x in walk_local(f.node) if isinstance(x, ast.Call) and isinstance(x.func, ast.Attribute) and x.func.attr == name and x not in sup]
            if sup and not outside:
                n += 1
                rr.inst("RandInfoBuilder.%s descends only under %s" % (name, norm(i.test)))
                if name not in RS13_PASS_GATES:
                    rr.finding(f, i, "RandInfoBuilder." + name, "RS13: %s descends only under %s" % (name, norm(i.test)), text="pass-gated descent")
    rr.inst("RandInfoBuilder visit methods examined: %d" % len([m for m in c.methods if m.startswith("visit_")]))


# --------------------------------------------------------------------------------------- FT22
@rule("FT22", ["C08", "C04"], "an object list's facade array and model array change together (nothing can fail between the two updates)", engine="XS+CG", floor=1)
def ft22(prog, rr):
    f = prog.cls("list_t", "vsc.types").methods["append"]
    fac = [n for n in walk_local(f.node) if isinstance(n, ast.Call) and call_name(n) == "append" and "backing_arr" in (recv_text(n) or "")]
    from sa.ir import find_local
    mlocals = set(find_local(f.node, lambda v: norm(v) == "self.get_model()")) | {"self.get_model()"}
    mod = [n for n in walk_local(f.node) if isinstance(n, ast.Call) and call_name(n) == "append" and (recv_text(n) or "") in mlocals
           and n.args and "get_model()" in norm(n.args[0])]
    rr.require(fac and mod, "list_t.append: facade / model updates of the object branch not found")
    a, b = fac[0], mod[0]
    rr.inst("list_t.append: facade update line %d, model update line %d" % (a.lineno, b.lineno))
    if (a.lineno, a.col_offset) < (b.lineno, b.col_offset):
        # the model update runs second: it must not be able to fail
        fam = prog.cls("FieldArrayModel")
        todo, seen, raises = [prog.lookup(fam, "append")], set(), []
        while todo:
            g = todo.pop()
            if g is None or g in seen or len(seen) > 12:
                continue
            seen.add(g)
            for n in walk_local(g.node):
                if isinstance(n, ast.Raise):
                    raises.append((g, n))
                if isinstance(n, ast.Call) and isinstance(n.func, ast.Attribute) and isinstance(n.func.value, (ast.Name, ast.Call)):
                    rv = norm(n.func.value)
                    if rv in ("self", "super()"):
                        todo.append(prog.lookup(g.cls, n.func.attr, after=g.cls if rv == "super()" else None) if g.cls is not None else None)
        rr.inst("FieldArrayModel.append and its helpers: %d functions, %d raise statements" % (len(seen), len(raises)))
        for g, n in raises:
            rr.finding(g, n, _q(g), "FT22: list_t.append has already put the object into the facade's backing array when FieldArrayModel.append runs; "
                       "if this raise fires and the caller carries on, the two arrays are shifted against each other from then on: constraints are "
                       "expanded over the model's elements while lst[k] reads the facade's", text="model append may raise")


# --------------------------------------------------------------------------------------- LW14
@rule("LW14", ["C04", "C01"], "the value substituted for a foreach index is typed like an integer the user writes in an expression", engine="XS", floor=1)
def lw14(prog, rr):
    te = prog.function("vsc.types", "to_expr")
    ref = None
    for i in walk_local(te.node):
        if isinstance(i, ast.If) and "int" in norm(i.test) and "type(" in norm(i.test):
            for c in walk_local(i):
                if isinstance(c, ast.Call) and (dotted(c.func) or "").endswith("ExprLiteralModel") and len(c.args) == 3:
                    ref = [norm(a) for a in c.args[1:]]
            break
    rr.require(ref is not None, "to_expr: integer literal construction not found")
    fe = prog.cls("ForeachRefExpander")
    n = 0
    for m in fe.methods.values():
        for c in walk_local(m.node):
            if isinstance(c, ast.Call) and (dotted(c.func) or "").endswith("ExprLiteralModel") and c.args and "get_val()" in norm(c.args[0]):
                n += 1
                got = [norm(a) for a in c.args[1:]]
                rr.inst("ForeachRefExpander.%s index literal typed (%s); integer literal typed (%s)" % (m.name, ", ".join(got), ", ".join(ref)))
                if got != ref:
                    rr.finding(m, c, "ForeachRefExpander." + m.name, "LW14: the foreach index is substituted as ExprLiteralModel(.., %s) while an integer written in "
                               "a constraint is ExprLiteralModel(.., %s): index arithmetic that goes negative (l[i] <= i-2 at i=0) then wraps as an "
                               "unsigned value and the unrolled constraint is weaker than the loop body" % (", ".join(got), ", ".join(ref)), text="index literal type")
    rr.require(n >= 1, "index literal construction not found in ForeachRefExpander")


# --------------------------------------------------------------------------------------- FT23
@rule("FT23", ["C04", "C08"], "every structural edit of a list's model is mirrored on the facade's object array", engine="XS", floor=2)
def ft23(prog, rr):
    from sa.ir import find_local
    lt = prog.cls("list_t", "vsc.types")
    n = 0
    for name, m in sorted(lt.methods.items()):
        mlocals = set(find_local(m.node, lambda v: norm(v) == "self.get_model()")) | {"self.get_model()"}
        for c in walk_local(m.node):
            if isinstance(c, ast.Call) and call_name(c) in ("clear", "pop", "insert", "remove", "append") and (recv_text(c) or "") in mlocals:
                op = call_name(c)
                if op == "append" and not (c.args and "get_model()" in norm(c.args[0])):
                    continue        # scalar / enum elements have no facade object
                n += 1
                mirrored = any(isinstance(x, ast.Call) and call_name(x) == op and "backing_arr" in (recv_text(x) or "") for x in walk_local(m.node))
                rr.inst("list_t.%s: model.%s mirrored on backing_arr: %s" % (name, op, mirrored))
                if not mirrored:
                    rr.finding(m, c, "list_t." + name, "FT23: list_t.%s edits the model's element list (%s) but not the facade's backing_arr: for a list of objects "
                               "indexing and iteration then return objects that are no longer in the list while constraints apply to the model's elements"
                               % (name, op), text="unmirrored " + op)
    rr.require(n >= 2, "structural edits of the list model not recognised (%d)" % n)


# --------------------------------------------------------------------------------------- CV23
@rule("CV23", ["C10"], "trimming a range list: after a target range was removed the scan of the trim ranges does not go on with the decremented index",
      engine="DF", floor=1)
def cv23(prog, rr):
    f = prog.method("RangelistModel", "intersect")
    h = prog.method("RangelistModel", "_intersect")
    removes = any(isinstance(n, ast.Call) and call_name(n) == "pop" for n in walk_local(h.node)) and \
        any(isinstance(n, ast.AugAssign) and isinstance(n.op, ast.Sub) for n in walk_local(h.node))
    rr.inst("RangelistModel._intersect removes the target and returns the index before it: %s" % removes)
    inner = [lp for lp in walk_local(f.node) if isinstance(lp, ast.For) and any(isinstance(c, ast.Call) and call_name(c) == "_intersect" for c in walk_local(lp))]
    rr.require(inner, "RangelistModel.intersect: loop over the trim ranges not found")
    for lp in inner:
        calls = [c for c in walk_local(lp) if isinstance(c, ast.Call) and call_name(c) == "_intersect"]
        for c in calls:
            idx_names = {n.slice.id for a in c.args for n in ast.walk(a) if isinstance(n, ast.Subscript) and isinstance(n.slice, ast.Name)}
            asg = [a for a in walk_local(lp) if isinstance(a, ast.Assign) and a.value is c]
            tgt = {t.id for a in asg for t in a.targets if isinstance(t, ast.Name)}
            has_break = any(isinstance(b, ast.Break) for b in walk_local(lp))
            rr.inst("intersect: result bound to %s, list indexed by %s, loop breaks on removal: %s" % (sorted(tgt), sorted(idx_names), has_break))
            if removes and (tgt & idx_names) and not has_break:
                rr.finding(f, c, "RangelistModel.intersect", "CV23: when _intersect removes the target range it returns the index before it, and the loop over the "
                           "remaining trim ranges goes on with self.range_l[%s] - for the first range that is range_l[-1], the last range: a later trim "
                           "range is applied to the wrong target and the removed range's successor is never compared with the earlier trim ranges "
                           "([[1,1],[2,2],[3,10]] minus [[0,1],[4,4]] gives [[5,10],[2,2],[3,3]])" % sorted(tgt & idx_names)[0], text="continue with decremented index")


# --------------------------------------------------------------------------------------- SH7
@rule("SH7", ["C16"], "coverpoint and cross constructors leave the shared expression stack empty on every exit, including their own raises", engine="SAI", floor=2)
def sh7(prog, rr):
    from sa.sai import Domain, Interp, FALL
    for cn in ("coverpoint", "cross"):
        f = prog.cls(cn, "vsc.coverage").methods["__init__"]

        class D(Domain):
            def initial_user(s):
                return False            # arguments written as expressions were pushed by the caller

            def on_call(s, st, call, ctx):
                nm = call_name(call)
                if nm == "clear_exprs":
                    return [(FALL, st._replace(u=True), None)]
                if nm in ("to_expr", "push_expr"):
                    return [(FALL, st._replace(u=False), None)]
                if nm == "pop_expr":
                    return [(FALL, st, None)]
                return [(FALL, st, None)]
        outs = Interp(D(), func=f).run(f.node)
        dirty_norm = [s for s in outs.fall | outs.ret if not s.u]
        dirty_raise = [(s, lab, site) for (s, lab, site) in outs.rais if not s.u]
        rr.inst("%s.__init__: %d normal exits, %d raising exits" % (cn, len(outs.fall | outs.ret), len(outs.rais)))
        if dirty_norm:
            rr.finding(f, f.node, cn + ".__init__", "SH7: %s.__init__ can return without clearing the shared expression stack: an iff or target written as an "
                       "expression stays on it and is picked up by the next constraint or covergroup that is built" % cn, text="normal exit dirty")
        seen = set()
        for s, lab, site in dirty_raise:
            ln = getattr(site, "lineno", 0)
            if ln in seen:
                continue
            seen.add(ln)
            rr.finding(f, site if site is not None else f.node, cn + ".__init__", "SH7: %s.__init__ raises (%s) with the shared expression stack not cleared" % (cn, lab),
                       text="raise exit dirty %s" % lab)
