"""ST1/ST3/ST4 (stability), BD1-BD4 (bounds), DS1/DS2 (dist), CV12 (wildcard), SP6 (swizzle covers all fields),
FT9 (sibling list read paths)."""
import ast

from sa.core import rule
from sa.ir import norm, dotted, call_name, recv_text, walk_local, names_in, calls_in_order, AnalysisError, assigned_targets, Module
from sa.pe import specialise, SpecDom
from sa.sai import Interp, Domain, FALL
from sa.cg import callgraph, solve_path


def _q(f):
    return ("%s.%s" % (f.cls.name, f.name)) if f.cls is not None else f.name


def _guards(fnode, node):
    """(test text, in-body?) of the enclosing ifs, plus the canonical facts of sa.ir.guard_facts as (fact, True): inverted
    branches and early exits are seen as the positive guards they are equivalent to"""
    from sa.ir import guard_facts
    par = {}
    for n in ast.walk(fnode):
        for ch in ast.iter_child_nodes(n):
            par[ch] = n
    out = []
    n = node
    while n in par:
        p = par[n]
        if isinstance(p, ast.If):
            out.append((norm(p.test), any(n is x for x in p.body)))
        n = p
    have = {t for t, pos in out if pos}
    for f in guard_facts(fnode, node, with_raise=False):
        if f not in have:
            out.append((f, True))
            have.add(f)
    return out


# --------------------------------------------------------------------------------------- ST1
@rule("ST1", ["C09", "C15"], "every random draw on the solve path goes through the object's RandState; global `random` only at the frozen seeding sites",
      engine="CG", floor=8)
def st1(prog, rr):
    from tables.exceptions import ST1_GLOBAL_RANDOM
    funcs = set(solve_path(prog))
    # plus the rand-state plumbing and the dist scope / swizzler (reached through the call graph already)
    extra = [f for f in prog.funcs if f.module.name in ("vsc.model.rand_state", "vsc.methods", "vsc.impl.randobj_int", "vsc.rand_obj")]
    n_draw = 0
    for f in sorted(funcs | set(extra), key=lambda x: x.qual):
        m = f.module
        for n in walk_local(f.node):
            tgt = None
            if isinstance(n, ast.Call) and isinstance(n.func, ast.Attribute) and isinstance(n.func.value, ast.Name):
                imp = m.imports.get(n.func.value.id)
                if imp == ("mod", "random") and n.func.attr not in ("Random",):
                    tgt = "random." + n.func.attr
            elif isinstance(n, ast.Call) and isinstance(n.func, ast.Name):
                imp = m.imports.get(n.func.id)
                if imp and imp[0] == "sym" and imp[1] == "random" and imp[2] not in ("Random",):
                    tgt = "random." + imp[2]
            # the module object itself handed on as an rng
            elif isinstance(n, ast.Assign) and isinstance(n.value, ast.Name) and m.imports.get(n.value.id) == ("mod", "random"):
                tgt = "random (module used as an rng object)"
            if tgt is None:
                # draws on a RandState are fine; count them as instances
                if isinstance(n, ast.Call) and call_name(n) in ("randint", "rand_u", "rand_s", "sample", "choice", "shuffle", "randrange", "random"):
                    n_draw += 1
                    rr.inst("draw %s in %s" % (norm(n.func), f.qual.replace("vsc.", "", 1)))
                continue
            n_draw += 1
            key = f.qual.replace("vsc.", "", 1)
            rr.inst("global-random use %s in %s" % (tgt, key))
            if key in ST1_GLOBAL_RANDOM:
                rr.note("frozen site %s: %s" % (key, ST1_GLOBAL_RANDOM[key][:80]))
                continue
            rr.finding(f, n, _q(f), "ST1: %s is used on the randomize path: the result then depends on Python's global random state instead of the "
                       "object's RandState (same seed, different values across processes / interleavings)" % tgt)
    rr.note("draw sites examined: %d" % n_draw)


# --------------------------------------------------------------------------------------- ST4
def _yields_clone(prog, e, depth=2):
    """e is `<x>.clone()` or a call of a (uniquely named) method all of whose returns are"""
    if norm(e).endswith(".clone()"):
        return True
    if depth and isinstance(e, ast.Call) and isinstance(e.func, ast.Attribute):
        cands = [f for f in prog.funcs if f.name == e.func.attr]
        if len(cands) == 1:
            rets = [n for n in walk_local(cands[0].node) if isinstance(n, ast.Return)]
            return bool(rets) and all(r.value is not None and _yields_clone(prog, r.value, depth - 1) for r in rets)
    return False


@rule("ST4", ["C09"], "get_randstate returns a clone; set_randstate stores a clone; RandState.clone copies the generator state into a fresh generator",
      engine="DF", floor=4)
def st4(prog, rr):
    cl = prog.method("RandState", "clone")
    t = norm(cl.node)
    rr.inst("RandState.clone")
    news = [n for n in walk_local(cl.node) if isinstance(n, ast.Assign) and isinstance(n.value, ast.Call) and (dotted(n.value.func) or "").endswith("RandState")]
    if not news:
        rr.finding(cl, cl.node, "RandState.clone", "ST4: clone() does not construct a new RandState", text="no new object")
    elif "setstate(self.rng.getstate())" not in t:
        rr.finding(cl, cl.node, "RandState.clone", "ST4: clone() does not copy the generator state (setstate(self.rng.getstate()))", text="no state copy")
    rets = [n for n in walk_local(cl.node) if isinstance(n, ast.Return)]
    for r in rets:
        if news and norm(r.value) != norm(news[0].targets[0]):
            rr.finding(cl, r, "RandState.clone", "ST4: clone() returns '%s', not the fresh copy" % norm(r.value))
    init = prog.method("RandState", "__init__")
    if "random.Random()" not in norm(init.node):
        rr.finding(init, init.node, "RandState.__init__", "ST4: a RandState does not own a private generator (random.Random())", text="private generator")
    rr.inst("RandState.__init__ private generator")
    for c in [k for k in prog.classes if k.name == "randobj_interposer"]:
        g = c.methods["get_randstate"]
        rets = [n for n in walk_local(g.node) if isinstance(n, ast.Return)]
        rr.inst("randobj.get_randstate returns %s" % [norm(r.value) for r in rets])
        for r in rets:
            if not _yields_clone(prog, r.value):
                rr.finding(g, r, "randobj.get_randstate", "ST4: get_randstate() hands out the live state object; later calls on the object advance the snapshot")
    s = prog.method("RandObjInt", "set_randstate")
    asg = [n for n in walk_local(s.node) if isinstance(n, ast.Assign) and any(norm(t_) == "self.randstate" for t_ in n.targets)]
    rr.inst("RandObjInt.set_randstate stores %s" % [norm(a.value) for a in asg])
    for a in asg:
        if not _yields_clone(prog, a.value):
            rr.finding(s, a, "RandObjInt.set_randstate", "ST4: set_randstate() keeps a reference to the caller's state; one RandState could then not seed several replays")
    if not asg:
        rr.finding(s, s.node, "RandObjInt.set_randstate", "ST4: set_randstate() does not store the state", text="no store")


# --------------------------------------------------------------------------------------- ST3
DIAG_WORDS = ("debug", "solve_info", "profile_on", "EN_DEBUG", "in_srcinfo_mode", "srcinfo")
PURE_CALLS = {"print", "len", "str", "int", "format", "do_print", "toString", "time", "round", "randomize_start", "randomize_done",
              "mk", "SolveInfo", "SourceInfo", "bin", "stack", "keys", "create_diagnostics", "create_diagnostics_1", "lint",
              "fullname", "join", "hex", "getframeinfo", "currentframe", "append"}


@rule("ST3", ["C09"], "statements guarded by diagnostic settings have no effect on model, random state or solver", engine="EFF", floor=20)
def st3(prog, rr):
    from tables.exceptions import ST3_DIAG_EFFECTS
    on_path = set(solve_path(prog))
    n = 0
    # diagnostic guards on the solve path; source-info capture (a diagnostic setting too) is tested in the facade, so every function is
    # scanned for guards on in_srcinfo_mode()
    for f in sorted(prog.funcs, key=lambda x: x.qual):
        for i in walk_local(f.node):
            if not isinstance(i, ast.If):
                continue
            t = norm(i.test)
            words = ("debug", "EN_DEBUG", "solve_info is not None", "profile_on()", "in_srcinfo_mode()") if f in on_path else ("in_srcinfo_mode()",)
            if not any(w in t for w in words):
                continue
            # diagnostic branch = the body (positive tests only)
            if t.startswith("not "):
                continue
            n += 1
            rr.inst("diagnostic guard `%s` in %s:%d" % (t[:40], f.qual.replace("vsc.", "", 1), i.lineno))
            for st in i.body:
                for x in walk_local(st):
                    bad = None
                    if isinstance(x, (ast.Assign, ast.AugAssign)):
                        for tg in assigned_targets(x):
                            root = tg.split(".")[0].split("[")[0]
                            if "." in tg and not any(w in tg for w in ("solve_info", "srcinfo", "debug")):
                                bad = "writes %s" % tg
                    elif isinstance(x, ast.Call):
                        nm = call_name(x)
                        rv = recv_text(x) or ""
                        if nm in ("randint", "rand_u", "rand_s", "sample", "choice", "shuffle", "Assume", "Assert", "Sat", "set_val", "set_used_rand",
                                  "dispose", "build", "swizzle", "accept", "post_randomize", "pre_randomize"):
                            bad = "calls %s" % norm(x.func)
                        if isinstance(x.func, ast.Attribute) and "randstate" in rv:
                            bad = "uses the random state: %s" % norm(x.func)
                    elif isinstance(x, (ast.Return, ast.Raise, ast.Break, ast.Continue)):
                        if isinstance(x, ast.Raise) and "SolveFailure" in norm(x):
                            continue        # the diagnostics variant of the same failure
                        bad = "changes control flow (%s)" % type(x).__name__.lower()
                    if bad:
                        key = "%s:%s" % (f.qual.replace("vsc.", "", 1), bad)
                        if key in ST3_DIAG_EFFECTS:
                            continue
                        rr.finding(f, x, _q(f), "ST3: under the diagnostic guard `%s` the code %s: behaviour would differ with the diagnostic setting" % (t[:50], bad))
    rr.note("diagnostic guards examined: %d" % n)


# --------------------------------------------------------------------------------------- BD1
@rule("BD1", ["C14"], "predicate visitors are monotone: after initialisation the accumulator is only and-ed or set to False", engine="XS", floor=2)
def bd1(prog, rr):
    for cn, acc_truth in (("IsNonRandExprVisitor", True), ("IsConstExprVisitor", True)):
        c = prog.cls(cn)
        entry = [f for n, f in c.methods.items() if n.startswith("is_")]
        rr.require(entry, "%s: entry method not found" % cn)
        ent = entry[0]
        inits = [n for n in walk_local(ent.node) if isinstance(n, ast.Assign) and norm(n.targets[0]).startswith("self._")]
        rr.require(inits, "%s.%s: accumulator initialisation not found" % (cn, ent.name))
        acc = norm(inits[0].targets[0])
        for name, f in c.methods.items():
            if f is ent or name == "__init__":
                continue
            for n in walk_local(f.node):
                if isinstance(n, ast.Assign) and any(norm(t) == acc for t in n.targets):
                    rr.inst("%s.%s writes %s: %s" % (cn, name, acc, norm(n)))
                    if not (isinstance(n.value, ast.Constant) and n.value.value is False):
                        rr.finding(f, n, "%s.%s" % (cn, name), "BD1: the predicate accumulator is overwritten with '%s': the answer reflects only the "
                                   "last field visited, so an expression mixing random and non-random fields is classified by its last operand "
                                   "(bounds are then computed from a random field's previous value and legal values are starved)" % norm(n.value))
                if isinstance(n, ast.AugAssign) and norm(n.target) == acc:
                    rr.inst("%s.%s updates %s: %s" % (cn, name, acc, norm(n)))
                    if not isinstance(n.op, ast.BitAnd):
                        rr.finding(f, n, "%s.%s" % (cn, name), "BD1: the predicate accumulator is combined with %s (must be and-ed)" % type(n.op).__name__)


# --------------------------------------------------------------------------------------- BD2
@rule("BD2", ["C14"], "bounds are narrowed only by top-level statements: depth counter balanced; non-descending handlers; propagators only at depth 0",
      engine="SAI", floor=6)
def bd2(prog, rr):
    v = prog.cls("VariableBoundVisitor")
    for h in ("visit_constraint_if_else", "visit_constraint_implies"):
        f = v.methods.get(h)
        if f is None:
            g = prog.lookup(v, h)
            rr.finding(v, v.node, "VariableBoundVisitor." + h, "BD2: %s is inherited: conditional constraints would narrow bounds unconditionally" % h, text="inherited " + h)
            continue

        class D(Domain):
            def initial_user(s):
                return 0

            def on_assign(s, st, stmt):
                if isinstance(stmt, ast.AugAssign) and norm(stmt.target) == "self.depth" and isinstance(stmt.value, ast.Constant):
                    k = stmt.value.value if isinstance(stmt.op, ast.Add) else -stmt.value.value
                    return st._replace(u=st.u + k)
                return st

            def on_call(s, st, call, ctx):
                if call_name(call) in (h, "accept", "visit_constraint_scope") and st.u <= 0:
                    rr.finding(f, call, "VariableBoundVisitor." + h, "BD2: the conditional body is visited at depth %d (not inside a depth += 1 bracket): "
                               "its relational constraints would narrow the field's range although they apply only when the condition holds" % st.u)
                return [(FALL, st, None)]
        outs = Interp(D(), func=f).run(f.node)
        rr.inst("VariableBoundVisitor.%s: %d exits" % (h, len(outs.fall | outs.ret)))
        for s in outs.fall | outs.ret:
            if s.u != 0:
                rr.finding(f, f.node, "VariableBoundVisitor." + h, "BD2: depth counter unbalanced on a path (net %+d)" % s.u, text="depth net %+d" % s.u)
    for h in ("visit_constraint_soft", "visit_expr_unary", "visit_constraint_foreach", "visit_constraint_unique", "visit_constraint_unique_vec", "visit_expr_array_subscript"):
        f = v.methods.get(h)
        rr.inst("VariableBoundVisitor.%s non-descending" % h)
        if f is None:
            rr.finding(v, v.node, "VariableBoundVisitor." + h, "BD2: %s is inherited from the default traversal: soft / negated / unexpanded statements "
                       "would narrow bounds" % h, text="inherited " + h)
            continue
        desc = [n for n in walk_local(f.node) if isinstance(n, ast.Call) and (call_name(n) == "accept" or call_name(n).startswith("visit_"))]
        if desc:
            rr.finding(f, desc[0], "VariableBoundVisitor." + h, "BD2: %s descends into its operands (%s)" % (h, norm(desc[0])))
    # propagators only built at depth 0 in phase 1
    for h in ("visit_expr_bin", "visit_expr_in"):
        f = v.methods[h]
        for depth_pos in (True,):
            hits = []

            def ev(node, st, dom, hits=hits):
                if isinstance(node, ast.Call) and ("propagator" in (call_name(node) or "").lower() or (call_name(node) or "").endswith("Propagator")):
                    hits.append(node)
            specialise(f, None, None, None, on_event=ev, assume={"self.depth > 0": True, "self.depth == 0": False, "self.phase == 0": False, "self.phase == 1": True})
            rr.inst("VariableBoundVisitor.%s at depth>0: %d propagator sites" % (h, len(hits)))
            if hits:
                rr.finding(f, hits[0], "VariableBoundVisitor." + h, "BD2: a bound propagator is built for an expression nested under a condition (depth > 0)")


# --------------------------------------------------------------------------------------- BD3
def _prop_of(call):
    d = dotted(call.func) or ""
    nm = d.split(".")[-1]
    if not nm.endswith("Propagator"):
        return None
    kind = "Max" if "Max" in nm else "Min" if "Min" in nm else "Eq" if "Eq" in nm else "?"
    return nm, kind


def _offset(prog, call, param):
    """numeric offset the bound expression adds to the other side"""
    nm, kind = _prop_of(call)
    if "Bounds" in nm:
        if len(call.args) > 2 and isinstance(call.args[2], (ast.Constant, ast.UnaryOp)):
            try:
                return int(ast.literal_eval(call.args[2]))
            except Exception:
                return None
        return 0
    if len(call.args) < 2:
        return None
    a = call.args[1]
    if norm(a) == param:
        return 0
    if isinstance(a, ast.Call) and (dotted(a.func) or "").endswith("ExprBinModel") and len(a.args) == 3 and norm(a.args[0]) == param:
        op = norm(a.args[1]).split(".")[-1]
        lit = a.args[2]
        if isinstance(lit, ast.Call) and (dotted(lit.func) or "").endswith("ExprLiteralModel") and lit.args and isinstance(lit.args[0], ast.Constant):
            k = lit.args[0].value
            return k if op == "Add" else -k if op == "Sub" else None
    return None


REF_BOUND = {      # op -> (kind when the variable is on the left, admissible offsets), mirrored when on the right
    "Lt": ("Max", lambda o: o >= -1), "Le": ("Max", lambda o: o >= 0),
    "Gt": ("Min", lambda o: o <= 1), "Ge": ("Min", lambda o: o <= 0), "Eq": ("Eq", lambda o: o == 0),
}
MIRROR = {"Lt": "Gt", "Le": "Ge", "Gt": "Lt", "Ge": "Le", "Eq": "Eq"}


@rule("BD3", ["C14", "C04", "C20"], "propagator tables over-approximate: Lt->Max(>=-1) Le->Max(>=0) Gt->Min(<=+1) Ge->Min(<=0) Eq->Eq, none otherwise; mirrored for var on the right",
      engine="PE", floor=45)
def bd3(prog, rr):
    members = prog.enum_members("BinExprType")
    builders = [("lhsvar_rhsvar_propagator", False), ("lhsvar_rhsnre_propagator", False), ("lhsnre_rhsvar_propagator", True)]
    for bname, mirrored in builders:
        f = prog.method("VariableBoundVisitor", bname)
        ps = f.params
        opp = ps[2]
        var_param = ps[3] if mirrored else ps[1]
        other = ps[1] if mirrored else ps[3]
        for m in members:
            made = {}

            def ev(node, st, dom, made=made):
                if isinstance(node, ast.Call) and _prop_of(node):
                    made[id(node)] = node
            specialise(f, opp, "BinExprType", m, on_event=ev)
            calls = list(made.values())
            eff = MIRROR.get(m, m) if mirrored else m
            ref = REF_BOUND.get(eff)
            rr.inst("%s(%s) -> %s" % (bname, m, [(_prop_of(c)[0], _offset(prog, c, other)) for c in calls]))
            if ref is None:
                if calls:
                    rr.finding(f, calls[0], "VariableBoundVisitor." + bname, "BD3: operator %s narrows a bound (%s); only relational operators and == may"
                               % (m, _prop_of(calls[0])[0]), text="op %s" % m)
                continue
            if not calls:
                continue        # no narrowing is always an over-approximation
            if len(calls) > 1:
                rr.finding(f, calls[1], "VariableBoundVisitor." + bname, "BD3: operator %s builds %d propagators" % (m, len(calls)), text="op %s count" % m)
            c = calls[0]
            nm, kind = _prop_of(c)
            off = _offset(prog, c, other)
            tgt = norm(c.args[0]) if c.args else ""
            if tgt != var_param:
                rr.finding(f, c, "VariableBoundVisitor." + bname, "BD3: for %s the bound is attached to '%s', not the variable side '%s'" % (m, tgt, var_param),
                           text="op %s target" % m)
            if kind != ref[0]:
                rr.finding(f, c, "VariableBoundVisitor." + bname, "BD3: `%s %s %s` bounds the variable's %s (%s); a sound over-approximation needs its %s"
                           % ("expr" if mirrored else "var", m, "var" if mirrored else "expr", kind.lower(), nm, ref[0].lower()), text="op %s kind" % m)
            elif off is None or not ref[1](off):
                rr.finding(f, c, "VariableBoundVisitor." + bname, "BD3: `%s %s %s` uses offset %s on the other side; this cuts off feasible values "
                           "(the inferred range must contain every solution)" % ("expr" if mirrored else "var", m, "var" if mirrored else "expr", off),
                           text="op %s offset" % m)


# --------------------------------------------------------------------------------------- BD4
@rule("BD4", ["C14"], "unconstrained draw and swizzle target come from the inferred bound of that very field; empty bounds are skipped", engine="DF", floor=3)
def bd4(prog, rr):
    rnd = prog.method("Randomizer", "randomize")
    draws = [n for n in walk_local(rnd.node) if isinstance(n, ast.Call) and call_name(n) == "randint" and "randstate" in (recv_text(n) or "")]
    rr.inst("unconstrained draws: %d" % len(draws))
    rr.require(draws, "unconstrained draw not found in Randomizer.randomize")
    defs = {}
    for n in walk_local(rnd.node):
        if isinstance(n, ast.Assign) and isinstance(n.targets[0], ast.Name):
            defs.setdefault(n.targets[0].id, []).append(norm(n.value))
    lp_var = None
    for n in walk_local(rnd.node):
        if isinstance(n, ast.For) and any(d is x for d in draws for x in walk_local(n)):
            lp_var = norm(n.target)
    from sa.ir import expand_locals
    # the draw whose two arguments are the two ends of one interval (the other draw picks an index)
    n_single = 0
    for d in draws:
        if len(d.args) != 2:
            continue
        a = [expand_locals(rnd.node, x) for x in d.args]
        if not (a[0].endswith("[0][0]") or a[1].endswith("[0][1]")):
            continue
        n_single += 1
        want = "bound_m[%s].domain.range_l[0]" % lp_var
        ok = a == [want + "[0]", want + "[1]"]
        rr.inst("draw %s" % norm(d))
        if not ok:
            rr.finding(rnd, d, "Randomizer.randomize", "BD4: an unconstrained field is drawn from (%s), not from the two ends of its own inferred range" % ", ".join(a))
    rr.require(n_single >= 1, "single-interval draw of the unconstrained fields not found")
    sw = prog.method("SolveGroupSwizzlerPartsel", "swizzle_field")
    fp = sw.params[1]
    t = norm(sw.node)
    rr.inst("swizzle_field bound lookup")
    if ("bound_m[%s]" % fp) not in t:
        rr.finding(sw, sw.node, "SolveGroupSwizzlerPartsel.swizzle_field", "BD4: the swizzle target is not taken from the bound of the field being swizzled", text="bound lookup")
    for n in walk_local(sw.node):
        if isinstance(n, ast.Call) and call_name(n) == "create_rand_domain_constraint":
            g = _guards(sw.node, n)
            if not any("isEmpty()" in x and x.startswith("not ") and pos for x, pos in g):
                rr.finding(sw, n, "SolveGroupSwizzlerPartsel.swizzle_field", "BD4: a target is drawn from a bound that may be empty")
            if n.args and norm(n.args[0]) != fp:
                rr.finding(sw, n, "SolveGroupSwizzlerPartsel.swizzle_field", "BD4: the domain constraint is built for '%s', not the field being swizzled" % norm(n.args[0]))
    cr = prog.method("SolveGroupSwizzlerPartsel", "create_rand_domain_constraint")
    bp = [n for n in walk_local(cr.node) if isinstance(n, ast.Assign) and norm(n.targets[0]) == "bit_pattern"]
    rr.inst("bit pattern draws: %s" % [norm(b.value) for b in bp])
    for b in bp:
        if norm(b.value) != "self.randstate.randint(t_range[0], t_range[1])":
            rr.finding(cr, b, "SolveGroupSwizzlerPartsel.create_rand_domain_constraint", "BD4: the target bit pattern is '%s'; expected a uniform draw over the selected range" % norm(b.value))


# --------------------------------------------------------------------------------------- DS1 / DS2
@rule("DS1", ["C15", "C01", "C02", "C09"], "dist rewrite: membership over every weight, exclusion per zero weight, both hard, override installed on every path", engine="SAI", floor=4)
def ds1(prog, rr):
    f = prog.method("DistConstraintBuilder", "visit_constraint_dist")
    cp = f.params[1]
    loops = [lp for lp in walk_local(f.node) if isinstance(lp, ast.For) and norm(lp.iter) in (cp + ".weights", "enumerate(%s.weights)" % cp)]
    rr.inst("dist builder loops over weights: %d" % len(loops))
    member, excl, sel = None, None, None
    for lp in loops:
        calls = {call_name(n) for n in walk_local(lp) if isinstance(n, ast.Call)}
        if "add_range" in calls:
            member = lp
        if "ConstraintImpliesModel" in calls or any((dotted(n.func) or "").endswith("ConstraintImpliesModel") for n in walk_local(lp) if isinstance(n, ast.Call)):
            excl = lp
        if "append" in calls and any("weight" in norm(n) for n in walk_local(lp) if isinstance(n, ast.If)):
            sel = lp
    sel_fn = f
    if sel is None:
        # the selection list may be computed by a method of the (per-call) dist scope that the builder calls
        dsm = prog.cls("ConstraintDistScopeModel")
        for c in walk_local(f.node):
            if isinstance(c, ast.Call) and isinstance(c.func, ast.Attribute) and c.func.attr in dsm.methods and not c.args:
                g = dsm.methods[c.func.attr]
                for lp in walk_local(g.node):
                    if isinstance(lp, ast.For) and "weights" in norm(lp.iter) and any(isinstance(n, ast.Call) and call_name(n) == "append" for n in walk_local(lp)) \
                            and any("weight" in norm(n) for n in walk_local(lp) if isinstance(n, ast.If)):
                        sel, sel_fn = lp, g
    if member is None:
        rr.finding(f, f.node, "DistConstraintBuilder.visit_constraint_dist", "DS1: no membership range list is built from the weights", text="membership")
    else:
        for n in walk_local(member):
            if isinstance(n, ast.Call) and call_name(n) == "add_range":
                g = [x for x, pos in _guards(member, n)]
                if any("weight" in x for x in g):
                    rr.finding(f, n, "DistConstraintBuilder.visit_constraint_dist", "DS1: membership ranges are filtered by weight (%s); the zero-weight exclusion is a separate "
                               "conditional constraint because weights can be non-random fields" % g)
    if excl is None:
        rr.finding(f, f.node, "DistConstraintBuilder.visit_constraint_dist", "DS1: no exclusion constraints for zero weights are built", text="exclusion")
    else:
        imps = [n for n in walk_local(excl) if isinstance(n, ast.Call) and (dotted(n.func) or "").endswith("ConstraintImpliesModel")]
        wv = norm(excl.target)
        from sa.ir import local_defs as _ld
        ldefs = _ld(excl)

        def resolve(e):
            """the expression(s) a local stands for (a guard or body hoisted into a local, possibly one per branch)"""
            if isinstance(e, ast.Name) and ldefs.get(e.id):
                return list(ldefs[e.id])
            return [e]
        for i in imps:
            cond = i.args[0] if i.args else None
            conds = resolve(cond) if cond is not None else []
            for cond in conds or [None]:
                ok = cond is not None and isinstance(cond, ast.Call) and len(cond.args) == 3 and norm(cond.args[0]) == wv + ".weight" \
                    and norm(cond.args[1]).endswith("BinExprType.Eq") and "ExprLiteralModel(0" in norm(cond.args[2])
                rr.inst("exclusion guard: %s" % (norm(cond)[:60] if cond is not None else None))
                if not ok:
                    rr.finding(f, i, "DistConstraintBuilder.visit_constraint_dist", "DS1: the exclusion is guarded by '%s', not by (weight == 0)" % (norm(cond)[:80] if cond is not None else ""))
            for b in (resolve(i.args[1]) if len(i.args) > 1 else [None]):
                body = norm(b) if b is not None else ""
                if "UnaryExprType.Not" not in body:
                    rr.finding(f, i, "DistConstraintBuilder.visit_constraint_dist", "DS1: the exclusion body is not the negation of the entry's membership test")
                else:
                    # the negated term must be exactly `lhs >= lo & lhs <= hi` (range) or `lhs == v` (single value)
                    rng = "rng_rhs" in body
                    if rng and not ("BinExprType.Ge" in body and "BinExprType.Le" in body and "BinExprType.And" in body):
                        rr.finding(f, i, "DistConstraintBuilder.visit_constraint_dist", "DS1: the excluded range is not Not(lhs >= lo And lhs <= hi): %s" % body[:120])
                    if not rng and "BinExprType.Eq" not in body:
                        rr.finding(f, i, "DistConstraintBuilder.visit_constraint_dist", "DS1: the excluded value is not Not(lhs == v)")
        adds = [n for n in walk_local(excl) if isinstance(n, ast.Call) and call_name(n) == "addConstraint"]
        if len(adds) < len(imps):
            rr.finding(f, excl, "DistConstraintBuilder.visit_constraint_dist", "DS1: an exclusion constraint is built but not added to the scope", text="excl not added")
    # override installed on every path
    class D(Domain):
        def initial_user(s):
            return False

        def on_call(s, st, call, ctx):
            if call_name(call) == "override_constraint":
                return [(FALL, st._replace(u=True), None)]
            return [(FALL, st, None)]
    outs = Interp(D(), func=f).run(f.node)
    for s in outs.fall | outs.ret:
        if not s.u:
            rr.finding(f, f.node, "DistConstraintBuilder.visit_constraint_dist", "DS1: a path returns without installing the rewritten scope (the dist statement "
                       "then contributes nothing)", text="no override")
    rr.inst("override on %d exits" % len(outs.fall | outs.ret))
    # DS2: zero weights never selectable
    if sel is None:
        rr.finding(f, f.node, "DistConstraintBuilder.visit_constraint_dist", "DS2: selection list is not built from the weights", text="selection list")
    else:
        for n in walk_local(sel):
            if isinstance(n, ast.Call) and call_name(n) == "append" and "weight_list" in (recv_text(n) or ""):
                g = [x.replace(" ", "") for x, pos in _guards(sel, n) if pos]
                rr.inst("selection append guarded by %s" % g)
                from sa.ir import find_local
                wl = find_local(sel_fn.node, lambda v: ".weight.val()" in norm(v)) or ["weight"]
                if not any(x in ("%s>0" % w, "%s>=1" % w, "0<%s" % w) for x in g for w in wl):
                    rr.finding(f, n, "DistConstraintBuilder.visit_constraint_dist", "DS2: entries are added to the selection list without the weight > 0 filter; "
                               "a zero-weight entry can be targeted")
    nt = prog.method("ConstraintDistScopeModel", "next_target_range")
    t = norm(nt.node)
    rr.inst("next_target_range draw")
    if "randint(1, self.total_weight)" not in t:
        rr.finding(nt, nt.node, "ConstraintDistScopeModel.next_target_range", "DS2: the bucket draw is not randint(1, total_weight) on the passed random state", text="draw")
    if "randstate" not in t.split("randint(1, self.total_weight)")[0].split("=")[-1]:
        rr.finding(nt, nt.node, "ConstraintDistScopeModel.next_target_range", "DS2/ST1: the bucket draw does not use the caller's random state", text="draw rng")


@rule("DS2", ["C15"], "distselect/randselect: cumulative walk selects by the entry's own weight and returns the entry's original index", engine="DF", floor=3)
def ds2(prog, rr):
    d = prog.function("vsc.methods", "distselect")
    t = norm(d.node)
    rr.inst("distselect")
    from sa.ir import find_local
    apps = [n for n in walk_local(d.node) if isinstance(n, ast.Call) and call_name(n) == "append" and n.args and isinstance(n.args[0], ast.Tuple)]
    # ... or built by a comprehension:  weight_v = [(int(v), i) for i, v in enumerate(weight_l)]
    comps = [n for n in walk_local(d.node) if isinstance(n, ast.Assign) and len(n.targets) == 1 and isinstance(n.targets[0], ast.Name)
             and isinstance(n.value, ast.ListComp) and isinstance(n.value.elt, ast.Tuple)]
    rr.require(apps or comps, "distselect: (weight, index) vector not found")
    wv = recv_text(apps[0]) if apps else comps[0].targets[0].id
    for a in apps:
        if not (isinstance(a.args[0], ast.Tuple) and len(a.args[0].elts) == 2):
            rr.finding(d, a, "distselect", "DS2: weight vector entries are not (weight, index) pairs")
    for c in comps:
        el = c.value.elt.elts
        gen = c.value.generators[0]
        idx = gen.target.elts[0].id if (isinstance(gen.target, ast.Tuple) and isinstance(gen.iter, ast.Call) and call_name(gen.iter) == "enumerate"
                                        and isinstance(gen.target.elts[0], ast.Name)) else None
        if len(el) != 2 or idx is None or norm(el[1]) != idx or c.value.generators[0].ifs:
            rr.finding(d, c, "distselect", "DS2: weight vector entries are not (weight, original index) pairs for every entry")
    draws = [n for n in walk_local(d.node) if isinstance(n, ast.Call) and norm(n.func) == "random.randint"]
    tot = [x.target.id for x in walk_local(d.node) if isinstance(x, ast.AugAssign) and isinstance(x.op, ast.Add) and isinstance(x.target, ast.Name)]
    # ... or total = sum(e[0] for e in weight_v)
    tot += [x.targets[0].id for x in walk_local(d.node) if isinstance(x, ast.Assign) and len(x.targets) == 1 and isinstance(x.targets[0], ast.Name)
            and isinstance(x.value, ast.Call) and call_name(x.value) == "sum" and x.value.args
            and isinstance(x.value.args[0], (ast.GeneratorExp, ast.ListComp)) and norm(x.value.args[0].generators[0].iter) == wv
            and norm(x.value.args[0].elt) == norm(x.value.args[0].generators[0].target) + "[0]"]
    if not draws or not (len(draws[0].args) == 2 and norm(draws[0].args[0]) == "1" and norm(draws[0].args[1]) in tot):
        rr.finding(d, d.node, "distselect", "DS2: the draw is not randint(1, total weight)", text="draw")
    rv = find_local(d.node, lambda v: isinstance(v, ast.Call) and norm(v.func) == "random.randint")
    rets = [n for n in walk_local(d.node) if isinstance(n, ast.Return)]
    lp = [n for n in walk_local(d.node) if isinstance(n, ast.For) and norm(n.iter) == wv]
    if not lp:
        rr.finding(d, d.node, "distselect", "DS2: cumulative walk over the weight vector not found", text="walk")
    else:
        v = norm(lp[0].target)
        subs = [n for n in walk_local(lp[0]) if isinstance(n, ast.AugAssign) and isinstance(n.op, ast.Sub)]
        if not subs or norm(subs[0].value) != v + "[0]":
            rr.finding(d, lp[0], "distselect", "DS2: the draw is not reduced by each entry's own weight", text="reduce")
        for r in walk_local(lp[0]):
            if isinstance(r, ast.Return) and norm(r.value) != v + "[1]":
                rr.finding(d, r, "distselect", "DS2: the walk returns '%s', not the selected entry's original index" % norm(r.value))
            if isinstance(r, ast.If) and norm(r.test).replace(" ", "") not in [y % x for x in (rv or ["rand_v"]) for y in ("%s<=0", "%s<1", "0>=%s")]:
                rr.finding(d, r, "distselect", "DS2: selection test is '%s'; with randint(1,total) the entry is selected when the remainder is <= 0 "
                           "(otherwise a zero-weight entry can be picked)" % norm(r.test))
    rs = prog.function("vsc.methods", "randselect")
    rr.inst("randselect")
    calls = [n for n in walk_local(rs.node) if isinstance(n, ast.Call) and call_name(n) == "distselect"]
    if not calls:
        rr.finding(rs, rs.node, "randselect", "DS2: randselect no longer selects through distselect", text="no distselect")
    # index spaces agree: weight_v gets one entry per element of sel_l, unconditionally
    for n in walk_local(rs.node):
        if isinstance(n, ast.Call) and call_name(n) == "append" and calls and recv_text(n) == norm(calls[0].args[0]):
            g = [x for x, pos in _guards(rs.node, n)]
            rr.inst("randselect weight append guards: %s" % g)
            if g:
                rr.finding(rs, n, "randselect", "DS2: the weight vector skips entries (%s) but the returned index is applied to the full list: a zero-weight "
                           "callback can be invoked and a later entry starved" % g)
    inv = [n for n in walk_local(rs.node) if isinstance(n, ast.Call) and isinstance(n.func, ast.Subscript)]
    for i in inv:
        idxs = find_local(rs.node, lambda v: isinstance(v, ast.Call) and call_name(v) == "distselect") or ["idx"]
        fn = i.func
        direct = (isinstance(fn.value, ast.Subscript) and norm(fn.value.value) == rs.params[0] and norm(fn.slice) == "1"
                  and isinstance(fn.value.slice, ast.Call) and call_name(fn.value.slice) == "distselect")
        if not direct and norm(i.func) not in ["%s[%s][1]" % (rs.params[0], ix) for ix in idxs]:
            rr.finding(rs, i, "randselect", "DS2: the invoked callback is '%s'; expected the selected element's callable" % norm(i.func))


# --------------------------------------------------------------------------------------- CV12
@rule("CV12", ["C19"], "wildcard parser arms self-consistent (shift, mask, radix) with shared wildcard characters; (value, mask) roles agree at every consumer",
      engine="PE+DF", floor=6)
def cv12(prog, rr):
    f = prog.method("WildcardBinFactory", "str2bin")
    arms = []
    for n in walk_local(f.node):
        # a digit loop: iterates characters and shifts an accumulator
        if isinstance(n, ast.For) and any(isinstance(x, ast.AugAssign) and isinstance(x.op, ast.LShift) for x in walk_local(n)):
            arms.append(n)
    rr.require(len(arms) == 3, "str2bin: expected three base arms, found %d" % len(arms))
    wild = None
    seps = None
    for a in arms:
        shifts = {norm(x.target): x.value.value for x in walk_local(a) if isinstance(x, ast.AugAssign) and isinstance(x.op, ast.LShift) and isinstance(x.value, ast.Constant)}
        ors = {norm(x.target): x.value for x in walk_local(a) if isinstance(x, ast.AugAssign) and isinstance(x.op, ast.BitOr)}
        rt = [r for r in walk_local(f.node) if isinstance(r, ast.Return) and isinstance(r.value, ast.Tuple) and len(r.value.elts) == 2]
        rr.require(rt, "str2bin does not return a pair")
        R0, R1 = norm(rt[0].value.elts[0]), norm(rt[0].value.elts[1])
        # roles inside the arm: the accumulator that receives int(c, radix) is the value, the other shifted one the mask
        VAL = next((t for t, v in ors.items() if isinstance(v, ast.Call) and call_name(v) == "int"), R0)
        MSK = next((t for t in shifts if t != VAL), R1)
        if (VAL, MSK) != (R0, R1):
            # they must reach the returned pair in that order
            flows = [x for x in walk_local(f.node) if isinstance(x, ast.Assign) and len(x.targets) == 1 and isinstance(x.targets[0], ast.Tuple)
                     and [norm(e) for e in x.targets[0].elts] == [R0, R1] and isinstance(x.value, ast.Tuple)
                     and [norm(e) for e in x.value.elts] == [VAL, MSK]]
            singles = {(norm(x.targets[0]), norm(x.value)) for x in walk_local(f.node) if isinstance(x, ast.Assign) and len(x.targets) == 1
                       and isinstance(x.targets[0], ast.Name)}
            if not flows and (R0, VAL) in singles and (R1, MSK) in singles:
                flows = [True]
            if not flows:
                rr.finding(f, a, "WildcardBinFactory.str2bin", "CV12: the accumulators of this arm (%s, %s) do not reach the returned pair (%s, %s) as "
                           "(value, mask)" % (VAL, MSK, R0, R1), text="arm roles")
                continue
        k = shifts.get(VAL)
        rr.inst("str2bin arm shift=%s" % k)
        if k is None or shifts.get(MSK) != k:
            rr.finding(f, a, "WildcardBinFactory.str2bin", "CV12: value and mask are shifted by different amounts (%s)" % shifts, text="arm shifts %s" % sorted(shifts.items()))
            continue
        mk = ors.get(MSK)
        if not (isinstance(mk, ast.Constant) and mk.value == (1 << k) - 1):
            rr.finding(f, a, "WildcardBinFactory.str2bin", "CV12: a %d-bit digit sets mask bits %s; expected %s" % (k, norm(mk) if mk is not None else None, hex((1 << k) - 1)),
                       text="arm %d mask" % k)
        vv = ors.get(VAL)
        radix = None
        if isinstance(vv, ast.Call) and len(vv.args) == 2 and isinstance(vv.args[1], ast.Constant):
            radix = vv.args[1].value
        if radix != (1 << k):
            rr.finding(f, a, "WildcardBinFactory.str2bin", "CV12: a %d-bit digit is parsed with radix %s" % (k, radix), text="arm %d radix" % k)
        ws = sorted({norm(c.comparators[0]) for c in walk_local(a) if isinstance(c, ast.Compare) and isinstance(c.ops[0], ast.NotIn)})
        sp = sorted({norm(c.comparators[0]) for c in walk_local(a) if isinstance(c, ast.Compare) and isinstance(c.ops[0], ast.NotEq)})
        if wild is None:
            wild, seps = ws, sp
        elif ws != wild or sp != seps:
            rr.finding(f, a, "WildcardBinFactory.str2bin", "CV12: arms disagree on wildcard / separator characters (%s/%s vs %s/%s)" % (ws, sp, wild, seps), text="arm %d chars" % k)
        # mask set only for non-wildcard digits: the mask |= sits under the `c not in [...]` test
        for x in walk_local(a):
            if isinstance(x, ast.AugAssign) and isinstance(x.op, ast.BitOr):
                g = [t for t, pos in _guards(a, x) if pos]
                if not any("not in" in t for t in g):
                    rr.finding(f, x, "WildcardBinFactory.str2bin", "CV12: %s is applied to wildcard digits as well" % norm(x))
    ret = [n for n in walk_local(f.node) if isinstance(n, ast.Return)]
    for r in ret:
        if not (isinstance(r.value, ast.Tuple) and len(r.value.elts) == 2):
            rr.finding(f, r, "WildcardBinFactory.str2bin", "CV12: str2bin returns %s; every consumer unpacks (value, mask)" % norm(r.value))
    # consumers
    sm = prog.method("CoverpointBinSingleWildcardModel", "sample")
    tests = [n for n in walk_local(sm.node) if isinstance(n, ast.Compare) and "&" in norm(n)]
    rr.inst("single wildcard match tests: %s" % [norm(t) for t in tests])
    lpv = None
    for lp in walk_local(sm.node):
        if isinstance(lp, ast.For):
            # `for i, s in enumerate(specs)`: the pattern is the last element of the target
            lpv = norm(lp.target.elts[-1]) if isinstance(lp.target, ast.Tuple) else norm(lp.target)
        elif isinstance(lp, (ast.GeneratorExp, ast.ListComp)) and lp.generators:
            lpv = norm(lp.generators[0].target)
    from sa.ir import find_local
    vals = find_local(sm.node, lambda v: "get_val()" in norm(v)) or ["val"]
    from sa.ir import erase_records
    for t in tests:
        tt = norm(erase_records(prog, t, var=lpv)).replace(" ", "")
        if tt not in [y % (v, lpv, lpv) for v in vals for y in ("%s&%s[1]==%s[0]", "(%s&%s[1])==%s[0]")]:
            rr.finding(sm, t, "CoverpointBinSingleWildcardModel.sample", "CV12: the match test is '%s'; with specs stored as (value, mask) it must be "
                       "(val & spec[1]) == spec[0]" % norm(t))
    if not tests:
        rr.finding(sm, sm.node, "CoverpointBinSingleWildcardModel.sample", "CV12: no (val & mask) == value test", text="no test")
    cov = prog.module("vsc.coverage")
    n_cons = 0
    for n in ast.walk(cov.tree):
        if isinstance(n, ast.Call) and call_name(n) == "valmask2binlist":
            n_cons += 1
            a_all = [norm(x) for x in n.args]
            a = a_all[:2]
            rr.inst("valmask2binlist(%s)" % ", ".join(a_all))
            ok = len(a) == 2 and (a[0].endswith("[0]") and a[1].endswith("[1]"))
            from_str = None
            if not ok and len(a) == 2:
                # a pair unpacked from str2bin:  X, Y = WildcardBinFactory.str2bin(..)  ->  valmask2binlist(X, Y)
                best = None
                for u in ast.walk(cov.tree):
                    if isinstance(u, ast.Assign) and isinstance(u.targets[0], ast.Tuple) and len(u.targets[0].elts) == 2 \
                            and isinstance(u.value, ast.Call) and call_name(u.value) == "str2bin" \
                            and [norm(e) for e in u.targets[0].elts] == a and u.lineno <= n.lineno:
                        if best is None or u.lineno > best.lineno:
                            best = u
                if best is not None:
                    ok = True
                    from_str = norm(best.value.args[0]) if best.value.args else None
            if not ok:
                rr.finding(cov, n, "coverage.valmask2binlist call", "CV12: value/mask passed as (%s)" % ", ".join(a))
            elif from_str is not None:
                # a pattern string also says how many bits it spells: wildcard digits above the highest fixed bit are part of the
                # pattern and must reach the expander, which otherwise only sees the integers
                w = a_all[2] if len(a_all) > 2 else None
                if w is None or "str2width(%s)" % from_str not in w:
                    rr.finding(cov, n, "coverage.valmask2binlist call", "CV12: the bins of the pattern string %s are expanded without its width (%s): wildcard "
                               "digits above the highest fixed bit are lost, so '0bxx01' yields the single value 1 instead of 1, 5, 9, 13"
                               % (from_str, w), text="pattern width not passed")
    rr.require(n_cons >= 1, "no consumer of valmask2binlist found in coverage.py")


# --------------------------------------------------------------------------------------- SP6
@rule("SP6", ["C14", "C20"], "every used-random field of a rand set is offered to the swizzler on every path (ordered or not)", engine="SAI", floor=2)
def sp6(prog, rr):
    sw = prog.method("SolveGroupSwizzlerPartsel", "swizzle")
    calls = [n for n in walk_local(sw.node) if isinstance(n, ast.Call) and call_name(n) == "swizzle_field_l"]
    rr.inst("swizzle(): %d swizzle_field_l sites" % len(calls))
    rr.require(calls, "swizzle() no longer calls swizzle_field_l")
    rs = sw.params[2]
    # loop variables of the function: `for g in X` -> what g ranges over; locals holding the group list are followed
    # through their reaching definitions under each assumption
    loop_src = {}
    for lp in walk_local(sw.node):
        if isinstance(lp, ast.For) and isinstance(lp.target, ast.Name):
            loop_src[lp.target.id] = lp.iter
    tracked = tuple({norm(v) for v in loop_src.values() if isinstance(v, ast.Name)})
    for ordered in (False, True):
        args = []

        def ev(node, st, dom, args=args):
            if isinstance(node, ast.Call) and call_name(node) == "swizzle_field_l":
                a = node.args[0]
                if isinstance(a, ast.Name) and a.id in loop_src:
                    src = loop_src[a.id]
                    if isinstance(src, ast.Name):
                        ds = dom.defs_of(st, src.id)
                        for d in ds:
                            v = d.value
                            # a one-element list literal is that element offered whole; otherwise "each of <expr>"
                            if isinstance(v, ast.List) and len(v.elts) == 1:
                                args.append(norm(v.elts[0]))
                            else:
                                args.append("each of " + norm(v))
                        if not ds:
                            args.append("each of " + norm(src))
                    else:
                        args.append("each of " + norm(src))
                else:
                    args.append(norm(a))
        specialise(sw, None, None, None, tracked=tracked, on_event=ev,
                   assume={"%s.rand_order_l is not None" % rs: ordered, "%s.rand_order_l is None" % rs: not ordered,
                           "%s.rand_order_l == None" % rs: not ordered})
        rr.inst("swizzle(ordered=%s) offers %s" % (ordered, sorted(set(args))))
        full = any(a == "%s.rand_fields()" % rs or a == "field_l" for a in args)
        if not ordered and not full:
            rr.finding(sw, sw.node, "SolveGroupSwizzlerPartsel.swizzle", "SP6: without ordering the swizzler is not offered all rand fields of the set (%s)" % sorted(set(args)),
                       text="unordered fields")
        if ordered:
            # Ordered sets swizzle only the groups named by solve_order directives.  An earlier version of this rule reported
            # the remaining random fields of such a set as "starved"; triage (triage/t14) showed they still take every feasible
            # value (the solver model varies with the swizzled fields), so no clause of C14/C20 is violated -> not armed.
            if not any("rand_order_l" in a for a in args):
                rr.finding(sw, calls[0], "SolveGroupSwizzlerPartsel.swizzle", "SP6: the ordered groups of a rand set are never swizzled", text="ordered groups")


# --------------------------------------------------------------------------------------- FT9
@rule("FT9", ["C18", "C04"], "list read paths (indexing and iteration) apply the same sign conversion", engine="XS", floor=2)
def ft9(prog, rr):
    lt = prog.cls("list_t", "vsc.types")
    gi = lt.methods["__getitem__"]
    it = lt.methods["__iter__"]
    nxt = [g for g in prog.funcs if g.name == "__next__" and g.cls is not None and g.cls.outer is it and "scalar" in g.cls.name]
    rr.require(nxt, "scalar list iterator not found")

    def conv(f, sub):
        out = []
        for n in walk_local(f.node):
            if isinstance(n, ast.If) and "is_signed" in norm(n.test):
                for a in walk_local(n):
                    if isinstance(a, (ast.Assign, ast.AugAssign)) and norm(a.targets[0] if isinstance(a, ast.Assign) else a.target) == "v":
                        t = norm(a)
                        for x, y in sub:
                            t = t.replace(x, y)
                        out.append(t)
                    if isinstance(a, ast.If):
                        t = norm(a.test)
                        for x, y in sub:
                            t = t.replace(x, y)
                        out.append("if " + t)
        return out
    a = conv(gi, [("self.t.", "T."), ("self.mask", "MASK")])
    b = conv(nxt[0], [("self.l.t.", "T."), ("self.l.mask", "MASK")])

    def via_helper(f):
        """the read path converts through one helper method of the list facade (self.<h>(..) / self.l.<h>(..))"""
        lt = prog.cls("list_t", "vsc.types")
        for c in walk_local(f.node):
            if isinstance(c, ast.Call) and isinstance(c.func, ast.Attribute) and norm(c.func.value) in ("self", "self.l") and c.func.attr in lt.methods:
                h = lt.methods[c.func.attr]
                if any(isinstance(n, ast.If) and "is_signed" in norm(n.test) for n in walk_local(h.node)):
                    p0 = h.params[1] if len(h.params) > 1 else "v"
                    return ["%s: %s" % (h.name, x.replace(p0, "v")) for x in conv_named(h, p0)]
        return []

    def conv_named(h, var):
        out = []
        for n in walk_local(h.node):
            if isinstance(n, ast.If) and "is_signed" in norm(n.test):
                for x in walk_local(n):
                    if isinstance(x, (ast.Assign, ast.AugAssign)) and norm(x.targets[0] if isinstance(x, ast.Assign) else x.target) == var:
                        out.append(norm(x).replace("self.t.", "T.").replace("self.mask", "MASK"))
                    if isinstance(x, ast.If):
                        out.append("if " + norm(x.test).replace("self.t.", "T.").replace("self.mask", "MASK"))
        return out
    if not a:
        a = via_helper(gi)
    if not b:
        b = via_helper(nxt[0])
    rr.inst("__getitem__ conversion: %s" % a)
    rr.inst("__iter__ conversion: %s" % b)
    if not a or not b:
        rr.finding(gi, gi.node, "list_t.__getitem__/__iter__", "FT9: a scalar list read path has no sign conversion under is_signed", text="missing conversion")
    elif a != b:
        rr.finding(gi, gi.node, "list_t.__getitem__", "FT9: indexing converts with %s but iteration with %s: the two read paths can return different values "
                   "for the same element" % (a, b), text="sibling conversion differs")


# --------------------------------------------------------------------------------------- ST5
@rule("ST5", ["C09"], "no process-dependent value (salted hash(), id(), unordered set/dict-of-objects order, time, os.urandom) feeds seeds or the solve path",
      engine="CG", floor=3)
def st5(prog, rr):
    funcs = set(solve_path(prog)) | {f for f in prog.funcs if f.module.name in ("vsc.model.rand_state", "vsc.impl.randobj_int")}
    bad_names = {"hash": "str/bytes hashes are salted per process (PYTHONHASHSEED)", "id": "object addresses differ between processes"}
    for f in sorted(funcs, key=lambda x: x.qual):
        rs = f.module.name == "vsc.model.rand_state"
        for n in walk_local(f.node):
            if isinstance(n, ast.Call) and isinstance(n.func, ast.Name) and n.func.id in bad_names:
                rr.finding(f, n, _q(f), "ST5: %s() is used on the seed/solve path: %s, so the same seed gives different values in another process"
                           % (n.func.id, bad_names[n.func.id]))
            if isinstance(n, ast.Call) and isinstance(n.func, ast.Attribute) and (norm(n.func) in ("os.urandom", "time.time", "time.time_ns", "uuid.uuid4")) and rs:
                rr.finding(f, n, _q(f), "ST5: %s feeds the random state" % norm(n.func))
        if rs:
            rr.inst("rand_state function %s" % f.qual)
    # seeding: RandState.__init__ seeds from the text of its argument (deterministic across processes)
    init = prog.method("RandState", "__init__")
    seeds = [n for n in walk_local(init.node) if isinstance(n, ast.Call) and call_name(n) == "seed"]
    rr.inst("RandState.__init__ seed calls: %s" % [norm(s) for s in seeds])
    if not seeds:
        rr.finding(init, init.node, "RandState.__init__", "ST5: the private generator is never seeded from the given seed", text="no seed")
    for s in seeds:
        a = s.args[0] if s.args else None
        names = names_in(a) if a is not None else set()
        if init.params[1] not in names:
            rr.finding(init, s, "RandState.__init__", "ST5: the generator is seeded with '%s', which does not depend on the seed argument" % (norm(a) if a is not None else ""))
