"""CV1-CV13: coverage bin protocol, event dispatch, iff gating, cross increment, registry/equals,
monotone counters, options dependence, save-visitor category agreement, cache invalidation."""
import ast

from sa.core import rule
from sa.ir import sig_body, norm, dotted, call_name, recv_text, walk_local, names_in, calls_in_order, AnalysisError, assigned_targets
from sa.pe import specialise, SpecDom
from sa.sai import Interp, Domain, FALL, St
from sa.cg import callgraph


def _q(f):
    return ("%s.%s" % (f.cls.name, f.name)) if f.cls is not None else f.name


def _guards(fnode, node):
    """(test text, in-body?) of the enclosing ifs, plus the canonical facts of sa.ir.guard_facts as (fact, True): inverted
    branches and early exits are seen as the positive guards they are equivalent to"""
    from sa.ir import guard_facts
    par = {}
    for n in ast.walk(fnode):
        for ch in ast.iter_child_nodes(n):
            par[ch] = n
    out = []
    n = node
    while n in par:
        p = par[n]
        if isinstance(p, ast.If):
            out.append((norm(p.test), any(n is x for x in p.body)))
        n = p
    have = {t for t, pos in out if pos}
    for f in guard_facts(fnode, node, with_raise=False):
        if f not in have:
            out.append((f, True))
            have.add(f)
    return out


# --------------------------------------------------------------------------------------- CV1
@rule("CV1", ["C10", "C11", "C19", "C12"], "bin sample() protocol: marker set on all paths, hit iff coverage_ev(bin_idx_base+off, bin_type)", engine="SAI+XS", floor=7)
def cv1(prog, rr):
    base = prog.cls("CoverpointBinModelBase")
    subs = prog.subclasses(base, strict=True)
    rr.require(len(subs) >= 7, "bin model classes not found (%d)" % len(subs))
    for c in sorted(subs, key=lambda k: k.name):
        f = c.methods.get("sample")
        if f is None:
            g = prog.lookup(c, "sample")
            if g is None or g.cls is base:
                rr.finding(c, c.node, c.name, "CV1: bin model has no sample() (the base raises NotImplementedError)", text="no sample")
            continue
        child_loop = any(isinstance(n, ast.Call) and call_name(n) == "sample" and not (isinstance(n.func.value, ast.Name) and n.func.value.id == "self")
                         for n in walk_local(f.node))
        cname = c.name + ".sample"
        problems = []
        offsets, markers = set(), set()

        class D(Domain):
            def initial_user(s):
                return ("unset", 0)

            def on_call(s, st, call, ctx):
                mk, ev = st.u
                nm = call_name(call)
                if nm == "coverage_ev" and recv_text(call) in ("self.cp", "self.parent"):
                    a = [norm(x) for x in call.args]
                    if len(a) < 2 or "self.bin_idx_base" not in a[0]:
                        problems.append((call, "hit reported with index '%s' that does not include self.bin_idx_base (hits land in another bin's counter)"
                                         % (a[0] if a else "")))
                    if len(a) < 2 or a[1] != "self.bin_type":
                        problems.append((call, "hit reported with bin type '%s' instead of self.bin_type (ignore/illegal hits counted as regular or vice versa)"
                                         % (a[1] if len(a) > 1 else "")))
                    # offset relative to the bin's base, as text
                    if a and "self.bin_idx_base" in a[0]:
                        off = a[0].replace("self.bin_idx_base", "", 1).strip()
                        off = off[1:].strip() if off.startswith("+") else off
                        offsets.add((off or "0").replace("(", "").replace(")", "").replace(" ", ""))
                    return [(FALL, st._replace(u=(mk, min(ev + 1, 2))), None)]
                if nm == "sample" and child_loop and not (isinstance(call.func.value, ast.Name) and call.func.value.id == "self"):
                    if mk == "unset":
                        problems.append((call, "children are sampled before the collection's own hit marker is reset (a stale marker from the previous "
                                               "sample survives when no child hits)"))
                return [(FALL, st, None)]

            def on_assign(s, st, stmt):
                mk, ev = st.u
                tg = stmt.targets if isinstance(stmt, ast.Assign) else [stmt.target]
                if any(norm(t) == "self.hit_bin_idx" for t in tg):
                    v = stmt.value
                    miss = isinstance(v, ast.UnaryOp) and isinstance(v.op, ast.USub) and isinstance(v.operand, ast.Constant) and v.operand.value == 1
                    miss = miss or (isinstance(v, ast.Constant) and v.value == -1)
                    if not miss:
                        markers.add(norm(v).replace("(", "").replace(")", "").replace(" ", ""))
                    return st._replace(u=("miss" if miss else "hit", ev))
                return st
        outs = Interp(D(), func=f).run(f.node)
        exits = outs.fall | outs.ret
        rr.inst("%s: %d exit states (%s)" % (cname, len(exits), "collection" if child_loop else "leaf"))
        for s in exits:
            mk, ev = s.u
            if mk == "unset":
                problems.append((f.node, "a path through sample() never assigns self.hit_bin_idx: crosses read the marker left by an earlier sample"))
            if not child_loop:
                if mk == "hit" and ev == 0:
                    problems.append((f.node, "a path marks the bin as hit without calling coverage_ev (hit never counted)"))
                if mk == "miss" and ev > 0:
                    problems.append((f.node, "a path counts a hit (coverage_ev) but leaves the marker at -1 (crosses miss it)"))
                if ev > 1:
                    problems.append((f.node, "a path calls coverage_ev more than once per sample"))
        # a leaf bin's marker is the offset it reports relative to its base (what crosses add to bin_idx_base)
        if not child_loop and offsets and markers:
            from sa.ir import expand_locals
            mk2 = {m for m in markers}
            for m in list(markers):
                # a local holding the offset: compare through its definition
                for n2 in walk_local(f.node):
                    if isinstance(n2, ast.Assign) and len(n2.targets) == 1 and norm(n2.targets[0]) == m:
                        mk2.add(norm(n2.value).replace("(", "").replace(")", "").replace(" ", ""))
            off2 = set(offsets)
            for o in list(offsets):
                for n2 in walk_local(f.node):
                    if isinstance(n2, ast.Assign) and len(n2.targets) == 1 and norm(n2.targets[0]) == o:
                        off2.add(norm(n2.value).replace("(", "").replace(")", "").replace(" ", ""))
            off2 |= {"self.hit_bin_idx"} if any("self.hit_bin_idx" in o for o in offsets) else set()
            if not (mk2 & off2) and not any("self.hit_bin_idx" in o for o in offsets):
                problems.append((f.node, "the hit marker is set to %s but the hit is reported at offset %s from the bin's base: a cross adds the marker to the "
                                         "base and credits another bin" % (sorted(markers), sorted(offsets))))
        seen = set()
        for node, msg in problems:
            if msg in seen:
                continue
            seen.add(msg)
            rr.finding(f, node, cname, "CV1: " + msg, text=msg[:60])
        if child_loop:
            _collection_offsets(rr, f, cname)


def _collection_offsets(rr, f, cname):
    """marker = running offset + child marker; offset advanced by the child's bin count every iteration"""
    for lp in walk_local(f.node):
        if not isinstance(lp, ast.For):
            continue
        v = norm(lp.target)
        asg = [n for n in walk_local(lp) if isinstance(n, ast.Assign) and any(norm(t) == "self.hit_bin_idx" for t in n.targets)]
        if not asg:
            continue
        for a in asg:
            nm = names_in(a.value)
            offs = [x for x in nm if x not in (v, v + ".hit_bin_idx", "self", "self.hit_bin_idx") and "." not in x]
            if (v + ".hit_bin_idx") not in nm and ("%s.hit_idx" % v) not in nm or not offs:
                rr.finding(f, a, cname, "CV1: collection marker '%s' is not (running offset + child marker)" % norm(a.value))
                continue
            off = offs[0]
            inc = [n for n in lp.body if isinstance(n, ast.AugAssign) and norm(n.target) == off and isinstance(n.op, ast.Add)]
            if not inc or not any(("%s.get_n_bins()" % v) in norm(i.value) or ("%s.n_bins" % v) in norm(i.value) for i in inc):
                rr.finding(f, lp, cname, "CV1: the running offset '%s' is not advanced by every child's bin count on each iteration" % off,
                           text="offset advance")


# --------------------------------------------------------------------------------------- CV2
REF_EV = {"Bins": "hit_l", "Ignore": "hit_ignore_l", "Illegal": "hit_illegal_l"}


@rule("CV2", ["C10"], "coverage_ev dispatches exhaustively over CoverpointBinType; one counter list +1 per event", engine="PE", floor=3)
def cv2(prog, rr):
    f = prog.method("CoverpointModel", "coverage_ev")
    members = prog.enum_members("CoverpointBinType")
    rr.require(set(REF_EV) <= set(members), "CoverpointBinType members changed: %s" % members)
    idx, typ = f.params[1], f.params[2]
    for m in members:
        incs_s, unhit = {}, []

        class D(SpecDom):
            def on_stmt(s, st, stmt):
                if isinstance(stmt, ast.AugAssign) and isinstance(stmt.target, ast.Subscript):
                    incs_s[id(stmt)] = (norm(stmt.target.value), norm(stmt.target.slice), type(stmt.op).__name__, norm(stmt.value))
                return st

            def on_call(s, st, call, ctx):
                if "unhit_s" in (recv_text(call) or ""):
                    unhit.append(call_name(call))
                return [(FALL, st, None)]
        d = D(typ, m, "CoverpointBinType")
        d._defs = {}
        Interp(d, func=f).run(f.node)
        incs = sorted(incs_s.values())
        rr.inst("coverage_ev(%s): increments %s, unhit ops %s" % (m, incs, sorted(set(unhit))))
        want = REF_EV.get(m)
        if want is None:
            continue
        good = [i for i in incs if i == ("self." + want, idx, "Add", "1")]
        if len(incs) != 1 or len(good) != 1:
            rr.finding(f, f.node, "CoverpointModel.coverage_ev", "CV2: a %s hit performs %s; expected exactly self.%s[%s] += 1" % (m, incs or "no increment", want, idx),
                       text="arm %s" % m)
        if m != "Bins" and unhit:
            rr.finding(f, f.node, "CoverpointModel.coverage_ev", "CV2: a %s hit touches the not-yet-covered set (%s): ignore/illegal values would count toward coverage"
                       % (m, sorted(set(unhit))), text="arm %s unhit" % m)
        if m == "Bins" and "remove" not in unhit and "discard" not in unhit:
            rr.finding(f, f.node, "CoverpointModel.coverage_ev", "CV2: a regular hit never removes the bin from the not-yet-covered set (coverage never grows)",
                       text="arm Bins unhit")


# --------------------------------------------------------------------------------------- CV3
@rule("CV3", ["C10", "C11", "C12"], "iff gating of all three bin loops; covergroup sample order: coverpoints, crosses, cache copy, type, reset", engine="SAI", floor=6)
def cv3(prog, rr):
    f = prog.method("CoverpointModel", "sample")
    loops = [lp for lp in walk_local(f.node) if isinstance(lp, ast.For) and any(isinstance(n, ast.Call) and call_name(n) == "sample" for n in walk_local(lp))]
    iters = sorted(norm(lp.iter) for lp in loops)
    rr.inst("CoverpointModel.sample bin loops: %s" % iters)
    for want in ("self.bin_model_l", "self.ignore_bin_model_l", "self.illegal_bin_model_l"):
        if want not in iters:
            rr.finding(f, f.node, "CoverpointModel.sample", "CV3: bins of %s are never sampled" % want, text="loop " + want)
    for lp in loops:
        g = _guards(f.node, lp)
        if not any(t == "self.iff_val_cache" and pos for t, pos in g):
            rr.finding(f, lp, "CoverpointModel.sample", "CV3: the loop over %s is not gated by the coverpoint's iff value (samples taken while iff is false are counted)"
                       % norm(lp.iter))
    # iff evaluated at most once per sample (valid flag)
    evals = [n for n in walk_local(f.node) if isinstance(n, ast.Call) and norm(n.func) == "self.iff.val"]
    rr.inst("CoverpointModel.sample iff evaluations: %d" % len(evals))
    for e in evals:
        g = _guards(f.node, e)
        if not any("not self.iff_val_cache_valid" in t and pos for t, pos in g):
            rr.finding(f, e, "CoverpointModel.sample", "CV3: iff is re-evaluated although a cached value is valid (type covergroups would ignore the value copied from the instance)")
    # covergroup order
    g = prog.method("CovergroupModel", "sample")
    order = []

    class D(Domain):
        def initial_user(s):
            return frozenset()

        def on_for(s, st, node, first=True):
            tok = None
            it = norm(node.iter)
            body_calls = {call_name(n): n for n in walk_local(node) if isinstance(n, ast.Call)}
            if it == "self.coverpoint_l" and "sample" in body_calls:
                tok = "cp_sample"
            elif it == "self.cross_l" and "sample" in body_calls:
                tok = "cr_sample"
            elif it == "self.coverpoint_l" and "reset" in body_calls:
                tok = "cp_reset"
            elif it == "self.cross_l" and "reset" in body_calls:
                tok = "cr_reset"
            elif "set_target_value_cache" in body_calls:
                tok = "copy_" + ("cp" if "coverpoint_l" in it else "cr")
            if tok:
                if first:
                    chk(tok, st, node)
                return [("enter", st), ("exit", st._replace(u=st.u | {tok}))]
            return [("enter", st), ("exit", st)]

        def on_call(s, st, call, ctx):
            if norm(call.func) == "self.type_cg.sample":
                chk("type_sample", st, call)
                return [(FALL, st._replace(u=st.u | {"type_sample"}), None)]
            return [(FALL, st, None)]
    need = {"cr_sample": {"cp_sample"}, "copy_cp": {"cp_sample", "cr_sample"}, "copy_cr": {"cp_sample", "cr_sample"},
            "type_sample": {"copy_cp", "copy_cr"}, "cp_reset": {"cp_sample", "cr_sample"}, "cr_reset": {"cp_sample", "cr_sample"}}
    rep = set()

    def chk(tok, st, node):
        if tok.endswith("_reset") and ("self.type_cg is not None == None" not in []):
            pass
        for r in need.get(tok, ()):
            if r not in st.u and (tok, r) not in rep:
                rep.add((tok, r))
                rr.finding(g, node, "CovergroupModel.sample", "CV3: step '%s' happens on a path where step '%s' has not completed "
                           "(coverpoints before crosses; caches copied to the type before it is sampled; markers reset last)" % (tok, r),
                           text="%s before %s" % (tok, r))
        if tok.endswith("_reset"):
            # reset after the type has been fed (when there is a type)
            facts = {k[0]: v for k, v in st.facts}
            has_type = facts.get("self.type_cg == None")
            if has_type is False and "type_sample" not in st.u and (tok, "type") not in rep:
                rep.add((tok, "type"))
                rr.finding(g, node, "CovergroupModel.sample", "CV3: markers/caches are reset before the type covergroup was sampled", text=tok + " before type")
    outs = Interp(D(), func=g).run(g.node)
    for s in outs.fall | outs.ret:
        for t in ("cp_sample", "cr_sample", "cp_reset", "cr_reset"):
            if t not in s.u:
                rr.finding(g, g.node, "CovergroupModel.sample", "CV3: a path through sample() skips step '%s' (stale hit markers / iff caches leak into the next sample)" % t,
                           text="missing " + t)
        facts = {k[0]: v for k, v in s.facts}
        if facts.get("self.type_cg == None") is False and "type_sample" not in s.u:
            rr.finding(g, g.node, "CovergroupModel.sample", "CV3: the type covergroup is not sampled although the instance has one", text="missing type sample")
    rr.inst("CovergroupModel.sample: %d exits" % len(outs.fall | outs.ret))
    # reset() of coverpoint and cross invalidate the caches
    for cn in ("CoverpointModel", "CoverpointCrossModel"):
        r = prog.method(cn, "reset")
        w = {norm(t) for n in walk_local(r.node) if isinstance(n, ast.Assign) and isinstance(n.value, ast.Constant) and n.value.value is False for t in n.targets}
        rr.inst("%s.reset clears %s" % (cn, sorted(w)))
        if "self.iff_val_cache_valid" not in w:
            rr.finding(r, r.node, cn + ".reset", "CV3: reset() does not invalidate the iff cache", text="iff cache")
        if cn == "CoverpointModel" and "self.target_val_cache_valid" not in w:
            rr.finding(r, r.node, cn + ".reset", "CV3: reset() does not invalidate the sampled-value cache (the next sample re-counts the old value)", text="value cache")
    # the copy to the type passes value and iff of the coverpoint with the same index
    for n in walk_local(g.node):
        if isinstance(n, ast.Call) and call_name(n) == "set_target_value_cache":
            rv, args = recv_text(n), [norm(a) for a in n.args]
            rr.inst("cache copy %s(%s)" % (rv, ", ".join(args)))
            if "coverpoint_l" in rv:
                idx = rv[rv.index("[") + 1: rv.rindex("]")]
                want = ["self.coverpoint_l[%s].target_val_cache" % idx, "self.coverpoint_l[%s].iff_val_cache" % idx]
                if args != want:
                    rr.finding(g, n, "CovergroupModel.sample", "CV3: type coverpoint %s receives (%s); expected (%s)" % (idx, ", ".join(args), ", ".join(want)))
            elif "cross_l" in rv:
                idx = rv[rv.index("[") + 1: rv.rindex("]")]
                if args != ["self.cross_l[%s].iff_val_cache" % idx]:
                    rr.finding(g, n, "CovergroupModel.sample", "CV3: type cross %s receives (%s); expected its instance cross's iff value" % (idx, ", ".join(args)))


# --------------------------------------------------------------------------------------- CV7
@rule("CV7", ["C11"], "cross increment is control-dependent on cross iff, each coverpoint's iff and a found hit per coverpoint", engine="SAI", floor=3)
def cv7(prog, rr):
    f = prog.method("CoverpointCrossModel", "sample")
    cname = "CoverpointCrossModel.sample"
    # boolean locals assigned only constants / the cross iff value
    bools = {}
    for n in walk_local(f.node):
        if isinstance(n, ast.Assign) and len(n.targets) == 1 and isinstance(n.targets[0], ast.Name):
            v = n.value
            k = "T" if isinstance(v, ast.Constant) and v.value is True else "F" if isinstance(v, ast.Constant) and v.value is False \
                else "IFF" if norm(v) == "self.iff_val_cache" else None
            bools.setdefault(n.targets[0].id, []).append(k)
    bools = {k for k, v in bools.items() if all(x is not None for x in v)}
    # found-flag: boolean set True under a `<x>.hit_idx() != -1` test
    found_flags = set()
    for n in walk_local(f.node):
        if isinstance(n, ast.If) and "hit_idx()" in norm(n.test) or isinstance(n, ast.If) and "hit_bin_idx" in norm(n.test):
            for a in walk_local(n):
                if isinstance(a, ast.Assign) and isinstance(a.targets[0], ast.Name) and a.targets[0].id in bools \
                        and isinstance(a.value, ast.Constant) and a.value.value is True:
                    found_flags.add(a.targets[0].id)
    cp_loops = [lp for lp in walk_local(f.node) if isinstance(lp, ast.For) and norm(lp.iter) == "self.coverpoint_model_l"]
    if not cp_loops:
        # the key may be computed by a helper of the class that returns it, or None when the cross is not hit
        return _cv7_via_helper(prog, rr, f, cname)
    cpv = norm(cp_loops[0].target)
    incs = [n for n in walk_local(f.node) if isinstance(n, ast.AugAssign) and isinstance(n.target, ast.Subscript) and norm(n.target.value) == "self.hit_l"]
    rr.inst("cross increments: %d; boolean locals %s; found flags %s" % (len(incs), sorted(bools), sorted(found_flags)))
    if len(incs) != 1:
        rr.finding(f, f.node, cname, "CV7: %d increments of self.hit_l in cross sample(); exactly one expected" % len(incs), text="increments %d" % len(incs))
        return
    inc = incs[0]
    if not (isinstance(inc.op, ast.Add) and norm(inc.value) == "1"):
        rr.finding(f, inc, cname, "CV7: cross bin is changed by '%s'; expected += 1" % norm(inc))
    problems = set()

    class D(Domain):
        # u = (frozenset of (bool local, value), failed flag, cp iff seen true in this iteration, cross iff true)
        def initial_user(s):
            return (frozenset(), False, False, False)

        def pure_call(s, call):
            return super().pure_call(call) or call_name(call) in ("hit_idx", "get_n_bins")

        def val(s, st, name):
            return dict(st.u[0]).get(name)

        def decide(s, st, test, ctx):
            vals, failed, cpiff, xiff = st.u
            if isinstance(test, ast.Name) and test.id in bools:
                v = s.val(st, test.id)
                if v == "T":
                    return [(True, st)]
                if v == "F":
                    out = st
                    if test.id in found_flags:
                        out = st._replace(u=(vals, True, cpiff, xiff))
                    return [(False, out)]
                if v == "IFF":
                    t = st._replace(u=(frozenset((k, "T" if k == test.id else x) for k, x in vals), failed, cpiff, True))
                    fl = st._replace(u=(frozenset((k, "F" if k == test.id else x) for k, x in vals), failed, cpiff, xiff))
                    return [(True, t), (False, fl)]
            if norm(test) == cpv + ".iff_val_cache":
                return [(True, st._replace(u=(vals, failed, True, xiff))), (False, st._replace(u=(vals, True, False, xiff)))]
            return super().decide(st, test, ctx)

        def on_for(s, st, node, first=True):
            if node in cp_loops:
                vals, failed, cpiff, xiff = st.u
                st = st._replace(u=(vals, failed, False, xiff))
            return [("enter", st), ("exit", st)]

        def on_assign(s, st, stmt):
            vals, failed, cpiff, xiff = st.u
            if isinstance(stmt, ast.Assign) and len(stmt.targets) == 1 and isinstance(stmt.targets[0], ast.Name) and stmt.targets[0].id in bools:
                n = stmt.targets[0].id
                v = stmt.value
                k = "T" if isinstance(v, ast.Constant) and v.value is True else "F" if isinstance(v, ast.Constant) and v.value is False else "IFF"
                d = dict(vals)
                d[n] = k
                return st._replace(u=(frozenset(d.items()), failed, cpiff, xiff))
            if stmt is inc:
                if failed:
                    problems.add("a cross bin is incremented on a path where an earlier coverpoint was gated off by its iff or hit no bin "
                                 "(the failing coverpoint does not stop the combination)")
                if not xiff:
                    problems.add("a cross bin is incremented on a path that never tested the cross's own iff value")
            return st

        def on_stmt(s, st, stmt):
            # passing a coverpoint requires its iff to have been seen true in this iteration
            vals, failed, cpiff, xiff = st.u
            if isinstance(stmt, ast.Call):
                return st
            return st

        def on_call(s, st, call, ctx):
            vals, failed, cpiff, xiff = st.u
            if call_name(call) == "append" and "hit_idx" in norm(call) and not cpiff:
                problems.add("a coverpoint's hit marker is read on a path where that coverpoint's iff value was not tested true "
                             "(a gated-off coverpoint still holds the marker of an earlier sample)")
            return [(FALL, st, None)]
    Interp(D(), func=f).run(f.node)
    for p in sorted(problems):
        rr.finding(f, inc, cname, "CV7: " + p, text=p[:70])
    # key: child marker + running offset, offset advanced by get_n_bins of the bins skipped, reset per coverpoint
    apps = [n for n in walk_local(f.node) if isinstance(n, ast.Call) and call_name(n) == "append" and "hit_idx" in norm(n)]
    rr.inst("cross key construction sites: %d" % len(apps))
    if not apps:
        rr.finding(f, f.node, cname, "CV7: the cross key is not built from the coverpoints' hit markers", text="no key")
    for a in apps:
        nm = [x for x in names_in(a.args[0]) if "." not in x]
        offs = [x for x in nm if x not in (cpv,)]
        ok = False
        for o in offs:
            inc_o = [n for n in walk_local(f.node) if isinstance(n, ast.AugAssign) and norm(n.target) == o and "get_n_bins()" in norm(n.value)]
            rst = [n for n in walk_local(cp_loops[0]) if isinstance(n, ast.Assign) and norm(n.targets[0]) == o and norm(n.value) == "0"]
            if inc_o and rst:
                ok = True
        if not ok:
            rr.finding(f, a, cname, "CV7: key element '%s' is not (bin marker + running offset reset per coverpoint and advanced by get_n_bins())" % norm(a.args[0]))
    _cv7_hit_map(prog, rr)


def _cv7_hit_map(prog, rr):
    from sa.ir import expand_locals
    bh = prog.method("CoverpointCrossModel", "_build_hit_map")
    rr.inst("_build_hit_map present")
    ok = False
    for c in walk_local(bh.node):
        if isinstance(c, ast.Call) and call_name(c) == "get_n_bins" and isinstance(c.func.value, ast.Subscript) \
                and expand_locals(bh.node, c.func.value.value) == "self.coverpoint_model_l":
            ok = True
    if not ok:
        rr.finding(bh, bh.node, "CoverpointCrossModel._build_hit_map", "CV7: cross bins are not enumerated over each coverpoint's flat bin count", text="enumeration")


def _cv7_via_helper(prog, rr, f, cname):
    """sample(): `key = self.<helper>()` ; `if key is not None: ... self.hit_l[...] += 1`.  The helper returns the key on the
    paths where the cross iff, every coverpoint's iff and a hit per coverpoint were seen, and None (or nothing) otherwise."""
    from sa.ir import guard_facts
    cls = prog.cls("CoverpointCrossModel")
    cands = []
    for a in walk_local(f.node):
        if isinstance(a, ast.Assign) and len(a.targets) == 1 and isinstance(a.targets[0], ast.Name) and isinstance(a.value, ast.Call) \
                and recv_text(a.value) == "self" and call_name(a.value) in cls.methods and not a.value.args and not a.value.keywords:
            g = cls.methods[call_name(a.value)]
            if any(isinstance(lp, ast.For) and norm(lp.iter) == "self.coverpoint_model_l" for lp in walk_local(g.node)):
                cands.append((a, g))
    rr.require(len(cands) == 1, "cross sample(): loop over self.coverpoint_model_l not found")
    asg, g = cands[0]
    kv = asg.targets[0].id
    gname = "CoverpointCrossModel." + g.name
    cp_loops = [lp for lp in walk_local(g.node) if isinstance(lp, ast.For) and norm(lp.iter) == "self.coverpoint_model_l"]
    cpv = norm(cp_loops[0].target)
    incs = [n for n in walk_local(f.node) if isinstance(n, ast.AugAssign) and isinstance(n.target, ast.Subscript) and norm(n.target.value) == "self.hit_l"]
    incs += [n for n in walk_local(g.node) if isinstance(n, ast.AugAssign) and isinstance(n.target, ast.Subscript) and norm(n.target.value) == "self.hit_l"]
    rr.inst("cross increments: %d; key computed by %s" % (len(incs), gname))
    if len(incs) != 1:
        rr.finding(f, f.node, cname, "CV7: %d increments of self.hit_l in cross sample(); exactly one expected" % len(incs), text="increments %d" % len(incs))
        return
    inc = incs[0]
    if not (isinstance(inc.op, ast.Add) and norm(inc.value) == "1"):
        rr.finding(f, inc, cname, "CV7: cross bin is changed by '%s'; expected += 1" % norm(inc))
    facts = guard_facts(f.node, inc, with_raise=False)
    stores = [n for n in walk_local(f.node) if isinstance(n, ast.Name) and n.id == kv and isinstance(n.ctx, ast.Store)]
    if not any(x in ("%s is not None" % kv, "%s != None" % kv, "not %s is None" % kv, "not %s == None" % kv) for x in facts) or len(stores) != 1 \
            or inc.lineno < asg.lineno:
        rr.finding(f, inc, cname, "CV7: the cross bin is incremented without testing that %s() found a key (guards: %s)" % (g.name, facts), text="key not tested")
    xiff_outside = any(x in ("self.iff_val_cache",) for x in guard_facts(f.node, asg, with_raise=False))
    problems = set()

    class D(Domain):
        # u = (failed, cp iff seen true in this iteration, cross iff true, key element appended in this iteration, iterations started)
        def initial_user(s):
            return (False, False, xiff_outside, False, False)

        def pure_call(s, call):
            return super().pure_call(call) or call_name(call) in ("hit_idx", "get_n_bins")

        def decide(s, st, test, ctx):
            failed, cpiff, xiff, app, started = st.u
            if norm(test) == "self.iff_val_cache":
                return [(True, st._replace(u=(failed, cpiff, True, app, started))), (False, st)]
            if norm(test) == cpv + ".iff_val_cache":
                return [(True, st._replace(u=(failed, True, xiff, app, started))), (False, st._replace(u=(True, False, xiff, app, started)))]
            return super().decide(st, test, ctx)

        def on_for(s, st, node, first=True):
            if node in cp_loops:
                failed, cpiff, xiff, app, started = st.u
                if started and not app:
                    failed = True       # the previous coverpoint contributed no key element
                ent = st._replace(u=(failed, False, xiff, False, True))
                ext = st._replace(u=(failed, False, xiff, False, False))
                return [("enter", ent), ("exit", ext)]
            return [("enter", st), ("exit", st)]

        def on_call(s, st, call, ctx):
            failed, cpiff, xiff, app, started = st.u
            if call_name(call) == "append" and "hit_idx" in norm(call):
                if not cpiff:
                    problems.add("a coverpoint's hit marker is read on a path where that coverpoint's iff value was not tested true "
                                 "(a gated-off coverpoint still holds the marker of an earlier sample)")
                st = st._replace(u=(failed, cpiff, xiff, True, started))
            return [(FALL, st, None)]

        def on_return(s, st, stmt):
            failed, cpiff, xiff, app, started = st.u
            if stmt.value is None or (isinstance(stmt.value, ast.Constant) and stmt.value.value is None):
                return st
            if started and not app:
                failed = True
            if failed:
                problems.add("a key is returned on a path where an earlier coverpoint was gated off by its iff or hit no bin "
                             "(the failing coverpoint does not stop the combination)")
            if not xiff:
                problems.add("a key is returned on a path that never tested the cross's own iff value")
            return st
    Interp(D(), func=g).run(g.node)
    for p in sorted(problems):
        rr.finding(g, g.node, gname, "CV7: " + p, text=p[:70])
    apps = [n for n in walk_local(g.node) if isinstance(n, ast.Call) and call_name(n) == "append" and "hit_idx" in norm(n)]
    rr.inst("cross key construction sites: %d" % len(apps))
    if not apps:
        rr.finding(g, g.node, gname, "CV7: the cross key is not built from the coverpoints' hit markers", text="no key")
    for a in apps:
        offs = [x for x in names_in(a.args[0]) if "." not in x and x != cpv]
        ok = False
        for o in offs:
            inc_o = [n for n in walk_local(g.node) if isinstance(n, ast.AugAssign) and norm(n.target) == o and "get_n_bins()" in norm(n.value)]
            rst = [n for n in walk_local(cp_loops[0]) if isinstance(n, ast.Assign) and norm(n.targets[0]) == o and norm(n.value) == "0"]
            if inc_o and rst:
                ok = True
        if not ok:
            rr.finding(g, a, gname, "CV7: key element '%s' is not (bin marker + running offset reset per coverpoint and advanced by get_n_bins())" % norm(a.args[0]))
    _cv7_hit_map(prog, rr)


# --------------------------------------------------------------------------------------- CV8 / monotone accumulators
def _acc_findings(rr, f, cname, rid):
    """`eq`-style accumulators: after initialisation only and-ed or set False"""
    inits = {}
    for n in walk_local(f.node):
        if isinstance(n, ast.Assign) and len(n.targets) == 1 and isinstance(n.targets[0], ast.Name):
            inits.setdefault(n.targets[0].id, []).append(n)
    rets = {norm(r.value) for r in walk_local(f.node) if isinstance(r, ast.Return) and isinstance(r.value, ast.Name)}
    n_acc = 0
    for name in rets:
        asg = inits.get(name, [])
        aug = [n for n in walk_local(f.node) if isinstance(n, ast.AugAssign) and norm(n.target) == name]
        if not aug:
            continue
        n_acc += 1
        first = min(a.lineno for a in asg) if asg else None
        for a in asg:
            if a.lineno == first:
                continue
            if isinstance(a.value, ast.Constant) and a.value.value is False:
                continue
            rr.finding(f, a, cname, "%s: the and-accumulator '%s' is overwritten by '%s' after earlier comparisons were folded in "
                       "(only the last comparison decides the result)" % (rid, name, norm(a)))
        for a in aug:
            if not isinstance(a.op, ast.BitAnd):
                rr.finding(f, a, cname, "%s: the and-accumulator '%s' is combined with %s" % (rid, name, type(a.op).__name__))
    return n_acc


@rule("CV8", ["C12"], "type registry: type_cg set and instance appended on every path; equals() compares all of clone()'s inputs and fails on length mismatch",
      engine="XS+SAI", floor=10)
def cv8(prog, rr):
    f = prog.method("CoverageRegistry", "register_cg")
    cg = f.params[1]

    class D(Domain):
        def initial_user(s):
            return frozenset()

        def on_assign(s, st, stmt):
            u = st.u
            for t in assigned_targets(stmt):
                if t == cg + ".type_cg":
                    u = u | {"type_cg"}
            return st._replace(u=u)

        def on_call(s, st, call, ctx):
            u = st.u
            if call_name(call) == "append" and (recv_text(call) or "").endswith(".cg_inst_l") and call.args and norm(call.args[0]) == cg:
                u = u | {"inst"}
            if call_name(call) == "finalize":
                u = u | {"finalize"}
            if call_name(call) == "clone" and recv_text(call) == cg:
                u = u | {"clone"}
            return [(FALL, st._replace(u=u), None)]
    outs = Interp(D(), func=f).run(f.node)
    rr.inst("register_cg: %d exits" % len(outs.fall | outs.ret))
    for s in outs.fall | outs.ret:
        for t, msg in (("type_cg", "the instance's type_cg is not set"), ("inst", "the instance is not appended to its type's instance list")):
            if t not in s.u:
                rr.finding(f, f.node, "CoverageRegistry.register_cg", "CV8: on some path " + msg, text="missing " + t)
        if "clone" in s.u and "finalize" not in s.u:
            rr.finding(f, f.node, "CoverageRegistry.register_cg", "CV8: a freshly cloned type covergroup is not finalized (no counters allocated)", text="clone without finalize")
    # cloned type: coverpoint targets cleared
    clears = [n for n in walk_local(f.node) if isinstance(n, ast.Assign) and any(norm(t).endswith(".target") for t in n.targets)
              and isinstance(n.value, ast.Constant) and n.value.value is None]
    clones = [n for n in walk_local(f.node) if isinstance(n, ast.Call) and call_name(n) == "clone"]
    rr.inst("register_cg clone sites %d, target-clear sites %d" % (len(clones), len(clears)))
    if len(clears) < len(clones):
        rr.finding(f, f.node, "CoverageRegistry.register_cg", "CV8: a cloned type covergroup keeps the instance's sampling targets "
                   "(the type would sample the first instance's variables itself)", text="targets not cleared")
    # equals(): length guards have a failing else; accumulators monotone; compares clone inputs
    n = 0
    for c in prog.classes:
        e = c.methods.get("equals")
        if e is None or not (c.name.startswith("Cover") or c.name in ("RangelistModel", "WildcardBinspec")):
            continue
        n += 1
        cname = c.name + ".equals"
        rr.inst(cname)
        _acc_findings(rr, e, cname, "CV8")
        for i in walk_local(e.node):
            if isinstance(i, ast.If) and "len(" in norm(i.test) and isinstance(i.test, ast.Compare) and isinstance(i.test.ops[0], ast.Eq):
                sets_false = any(isinstance(a, ast.Assign) and isinstance(a.value, ast.Constant) and a.value.value is False for b in i.orelse for a in walk_local(b)) \
                    or any(isinstance(a, ast.Return) and isinstance(a.value, ast.Constant) and a.value.value is False for b in i.orelse for a in walk_local(b))
                if not sets_false:
                    rr.finding(e, i, cname, "CV8: element-wise comparison guarded by '%s' has no failing else: models of different length compare equal "
                               "(parameterised covergroups with different bin counts share one type)" % norm(i.test), text="no else for " + norm(i.test))
    rr.require(n >= 8, "coverage equals() methods not found (%d)" % n)


# --------------------------------------------------------------------------------------- CV9 / CV13
@rule("CV9", ["C12", "C13"], "hit counters only grow; not-yet-covered sets only shrink; covering a new bin invalidates the cached percentages up the tree",
      engine="EFF", floor=6)
def cv9(prog, rr):
    counters = ("hit_l", "hit_ignore_l", "hit_illegal_l")
    for c in prog.classes:
        if c.name not in ("CoverpointModel", "CoverpointCrossModel"):
            continue
        for name, f in c.methods.items():
            for n in walk_local(f.node):
                if isinstance(n, ast.AugAssign) and isinstance(n.target, ast.Subscript) and norm(n.target.value) in ["self." + x for x in counters]:
                    rr.inst("%s.%s: %s" % (c.name, name, norm(n)))
                    if not (isinstance(n.op, ast.Add) and isinstance(n.value, ast.Constant) and n.value.value == 1):
                        rr.finding(f, n, "%s.%s" % (c.name, name), "CV9: counter changed by '%s'; after finalize counters may only be incremented by 1" % norm(n))
                if isinstance(n, ast.Assign):
                    for t in n.targets:
                        if isinstance(t, ast.Subscript) and norm(t.value) in ["self." + x for x in counters]:
                            rr.finding(f, n, "%s.%s" % (c.name, name), "CV9: counter element overwritten: %s" % norm(n))
                        if norm(t) in ["self." + x for x in counters] and name not in ("__init__", "finalize"):
                            rr.finding(f, n, "%s.%s" % (c.name, name), "CV9: counter list re-created outside __init__/finalize: %s" % norm(n))
                if isinstance(n, ast.Call) and recv_text(n) == "self.unhit_s":
                    rr.inst("%s.%s: unhit_s.%s" % (c.name, name, call_name(n)))
                    if call_name(n) in ("add", "update") and name not in ("finalize", "_build_hit_map", "__init__"):
                        rr.finding(f, n, "%s.%s" % (c.name, name), "CV9: the not-yet-covered set grows outside finalize (coverage would decrease)")
                    if call_name(n) in ("remove", "discard"):
                        # CV13: same path invalidates own cache and notifies the parent
                        blk = _block_of(f.node, n)
                        txt = [norm(s) for s in blk]
                        whole = norm(f.node)
                        if not any("self.parent.coverage_ev(" in s for s in txt):
                            rr.finding(f, n, "%s.%s" % (c.name, name), "CV13: a newly covered bin does not notify the covergroup (self.parent.coverage_ev): "
                                       "the covergroup's cached percentage stays stale", text="no parent.coverage_ev")
                        if "self.coverage_calc_valid = False" not in whole:
                            rr.finding(f, n, "%s.%s" % (c.name, name), "CV13: a newly covered bin does not invalidate this item's cached percentage", text="no own invalidation")
    cg = prog.method("CovergroupModel", "coverage_ev")
    inv = [n for n in walk_local(cg.node) if isinstance(n, ast.Assign) and norm(n.targets[0]) == "self.coverage_calc_valid"
           and isinstance(n.value, ast.Constant) and n.value.value is False]
    rr.inst("CovergroupModel.coverage_ev invalidates cache: %s" % bool(inv))
    if not inv:
        rr.finding(cg, cg.node, "CovergroupModel.coverage_ev", "CV13: the covergroup does not invalidate its cached percentage when a bin is covered", text="no invalidation")


def _block_of(fnode, node):
    best = None
    for n in ast.walk(fnode):
        for fld in ("body", "orelse"):
            b = getattr(n, fld, None)
            if isinstance(b, list) and any(any(x is node for x in ast.walk(s)) for s in b):
                best = b
    return best or []


# --------------------------------------------------------------------------------------- CV10
@rule("CV10", ["C12", "C13"], "get_coverage depends on at_least; covergroup average depends on weight; no division by zero bins", engine="DF", floor=3)
def cv10(prog, rr):
    def reads(cls, meth, attr, depth=0, seen=None):
        seen = seen or set()
        f = prog.lookup(cls, meth)
        if f is None or f in seen or depth > 3:
            return False
        seen.add(f)
        for n in walk_local(f.node):
            if isinstance(n, ast.Attribute) and n.attr == attr:
                return True
            if isinstance(n, ast.Call) and isinstance(n.func, ast.Attribute) and isinstance(n.func.value, ast.Name) and n.func.value.id == "self":
                if reads(cls, n.func.attr, attr, depth + 1, seen):
                    return True
        return False
    def covered_set_honours_at_least(c):
        """get_coverage is computed from the not-yet-covered set; that set shrinks only under a test reading at_least"""
        rem = []
        for name, f in c.methods.items():
            for n in walk_local(f.node):
                if isinstance(n, ast.Call) and recv_text(n) == "self.unhit_s" and call_name(n) in ("remove", "discard"):
                    rem.append((f, n))
        if not rem:
            return False
        for f, n in rem:
            tests = [t for t, pos in _guards(f.node, n) if pos]
            ok = False
            for t in tests:
                if "at_least" in t:
                    ok = True
                for nm in [x for x in ast.walk(ast.parse(t, mode="eval")) if isinstance(x, ast.Name)]:
                    for a in walk_local(f.node):
                        if isinstance(a, ast.Assign) and any(isinstance(tg, ast.Name) and tg.id == nm.id for tg in a.targets) and "at_least" in norm(a.value):
                            ok = True
            if not ok:
                return False
        return True
    for cn in ("CoverpointModel", "CoverpointCrossModel"):
        c = prog.cls(cn)
        ok = reads(c, "get_coverage", "at_least") or (reads(c, "get_coverage", "unhit_s") and covered_set_honours_at_least(c))
        rr.inst("%s.get_coverage depends on at_least: %s" % (cn, ok))
        if not ok:
            f = prog.lookup(c, "get_coverage")
            rr.finding(f, f.node, cn + ".get_coverage", "CV10: the returned percentage does not depend on options.at_least (a bin hit once counts as covered "
                       "even with at_least > 1; reports, which honour at_least, disagree)", text="at_least unread")
    c = prog.cls("CovergroupModel")
    ok = reads(c, "get_inst_coverage", "weight")
    rr.inst("CovergroupModel.get_inst_coverage reads weight: %s" % ok)
    if not ok:
        f = prog.lookup(c, "get_inst_coverage")
        rr.finding(f, f.node, "CovergroupModel.get_inst_coverage", "CV10: the covergroup average ignores the coverpoints' weight option", text="weight unread")


# --------------------------------------------------------------------------------------- CV11
CAT = {
    "bins": {"count": "get_n_bins", "name": "get_bin_name", "hits": "get_bin_hits", "kind": "UCIS_CVGBIN"},
    "ignore": {"count": "get_n_ignore_bins", "name": "get_ignore_bin_name", "hits": "get_ignore_bin_hits", "kind": "UCIS_IGNOREBIN"},
    "illegal": {"count": "get_n_illegal_bins", "name": "get_illegal_bin_name", "hits": "get_illegal_bin_hits", "kind": "UCIS_ILLEGALBIN"},
}


@rule("CV11", ["C13"], "save visitor: count/name/hit getters and UCIS kind agree per bin category; all categories, crosses, types and instances are reached; reporting is read-only",
      engine="XS+EFF", floor=5)
def cv11(prog, rr):
    sv = prog.cls("CoverageSaveVisitor")
    f = prog.method("CoverageSaveVisitor", "visit_coverpoint")
    seen_cat = set()
    for lp in walk_local(f.node):
        if not isinstance(lp, ast.For):
            continue
        it = norm(lp.iter)
        cat = next((k for k, v in CAT.items() if (v["count"] + "()") in it), None)
        if cat is None:
            continue
        seen_cat.add(cat)
        v = norm(lp.target)
        used = {"name": set(), "hits": set(), "kind": set()}
        for n in walk_local(lp):
            if isinstance(n, ast.Call) and isinstance(n.func, ast.Attribute):
                for k2, spec in CAT.items():
                    if n.func.attr == spec["name"]:
                        used["name"].add(k2)
                    if n.func.attr == spec["hits"]:
                        used["hits"].add(k2)
                if n.func.attr in ("get_bin_name", "get_ignore_bin_name", "get_illegal_bin_name", "get_bin_hits", "get_ignore_bin_hits", "get_illegal_bin_hits"):
                    if not n.args or norm(n.args[0]) != v:
                        rr.finding(f, n, "CoverageSaveVisitor.visit_coverpoint", "CV11: %s called with '%s' instead of the loop index" % (n.func.attr, norm(n.args[0]) if n.args else ""))
            if isinstance(n, ast.Name):
                for k2, spec in CAT.items():
                    if n.id == spec["kind"]:
                        used["kind"].add(k2)
        rr.inst("save visitor %s loop: names %s hits %s kind %s" % (cat, sorted(used["name"]), sorted(used["hits"]), sorted(used["kind"])))
        for what, s in used.items():
            if s != {cat}:
                rr.finding(f, lp, "CoverageSaveVisitor.visit_coverpoint", "CV11: in the %s-bin loop the %s come from category %s "
                           "(saved database shows another category's %s)" % (cat, what, sorted(s) or "none", what), text="%s loop %s" % (cat, what))
    for cat in CAT:
        if cat not in seen_cat:
            rr.finding(f, f.node, "CoverageSaveVisitor.visit_coverpoint", "CV11: %s bins are not written to the database" % cat, text="missing " + cat)
    # crosses
    fx = prog.method("CoverageSaveVisitor", "visit_coverpoint_cross")
    t = norm(fx.node)
    rr.inst("save visitor cross handler present")
    for need in ("get_n_bins()", "get_bin_hits(", "get_bin_name(", "coverpoints()"):
        if need not in t:
            rr.finding(fx, fx.node, "CoverageSaveVisitor.visit_coverpoint_cross", "CV11: cross handler no longer uses %s" % need, text="cross " + need)
    # reach: covergroup handler descends (super().visit_covergroup visits coverpoints, crosses, instances)
    vc = prog.method("CoverageSaveVisitor", "visit_covergroup")
    if "super().visit_covergroup(" not in norm(vc.node):
        rr.finding(vc, vc.node, "CoverageSaveVisitor.visit_covergroup", "CV11: covergroup handler does not descend into coverpoints/crosses/instances", text="no descent")
    mv = prog.method("ModelVisitor", "visit_covergroup")
    its = sorted(norm(lp.iter) for lp in walk_local(mv.node) if isinstance(lp, ast.For))
    p = mv.params[1]
    rr.inst("ModelVisitor.visit_covergroup iterates %s" % its)
    for need in (p + ".coverpoint_l", p + ".cross_l", p + ".cg_inst_l"):
        if need not in its:
            rr.finding(mv, mv.node, "ModelVisitor.visit_covergroup", "CV11: default covergroup traversal skips %s" % need, text="skip " + need)
    # read-only: the save visitor writes no attribute of a coverage model object
    for name, g in sv.methods.items():
        if len(g.params) < 2:
            continue
        p = g.params[1]
        for n in walk_local(g.node):
            if isinstance(n, (ast.Assign, ast.AugAssign)):
                for tg in assigned_targets(n):
                    if tg.startswith(p + "."):
                        rr.finding(g, n, "CoverageSaveVisitor." + name, "CV11: saving/reporting writes coverage state: %s" % norm(n))
            if isinstance(n, ast.Call) and isinstance(n.func, ast.Attribute) and norm(n.func.value).startswith(p) \
                    and n.func.attr in ("sample", "reset", "finalize", "coverage_ev", "set_target_value_cache", "append", "clear", "remove", "pop"):
                rr.finding(g, n, "CoverageSaveVisitor." + name, "CV11: saving/reporting mutates coverage state: %s" % norm(n))


# --------------------------------------------------------------------------------------- CV6
@rule("CV6", ["C10", "C13"], "finalize gives contiguous bases; the three flat-index walkers/getter families are the same code up to their list", engine="XS", floor=6)
def cv6(prog, rr):
    f = prog.method("CoverpointModel", "finalize")
    pairs = {"self.bin_model_l": "self.n_bins", "self.ignore_bin_model_l": "self.n_ignore_bins", "self.illegal_bin_model_l": "self.n_illegal_bins"}
    for lp in walk_local(f.node):
        if isinstance(lp, ast.For) and norm(lp.iter) in pairs:
            cnt = pairs[norm(lp.iter)]
            v = norm(lp.target)
            ok = any(isinstance(n, ast.AugAssign) and norm(n.target) == cnt and isinstance(n.op, ast.Add) and norm(n.value) == "%s.finalize(%s)" % (v, cnt)
                     for n in lp.body)
            rr.inst("finalize loop %s -> %s contiguous=%s" % (norm(lp.iter), cnt, ok))
            if not ok:
                rr.finding(f, lp, "CoverpointModel.finalize", "CV6: bins of %s do not get contiguous bases (expected `%s += b.finalize(%s)`)" % (norm(lp.iter), cnt, cnt))
    # allocation of the counter lists from the matching counts
    t = norm(f.node)
    for lst, cnt in (("self.hit_l", "self.n_bins"), ("self.hit_ignore_l", "self.n_ignore_bins"), ("self.hit_illegal_l", "self.n_illegal_bins")):
        allocs = [n for n in walk_local(f.node) if isinstance(n, ast.Assign) and any(norm(x) == lst for x in n.targets)]
        if not allocs or not all(cnt in names_in(a.value) for a in allocs):
            rr.finding(f, f.node, "CoverpointModel.finalize", "CV6: %s is not allocated from %s (found %s)" % (lst, cnt, [norm(a.value) for a in allocs]), text="alloc " + lst)
    inits = [n for n in walk_local(f.node) if (isinstance(n, ast.Call) and recv_text(n) == "self.unhit_s" and call_name(n) in ("update", "add")) or
             (isinstance(n, ast.Assign) and any(norm(x) == "self.unhit_s" for x in n.targets))]
    if not inits or not any("self.n_bins" in names_in(n) for n in inits):
        rr.finding(f, f.node, "CoverpointModel.finalize", "CV6: the not-yet-covered set is not initialised from the regular bin count", text="unhit init")
    # sibling walkers
    fam = [("_get_target_bin", "bin_model_l"), ("_get_target_ignore_bin", "ignore_bin_model_l"), ("_get_target_illegal_bin", "illegal_bin_model_l")]
    ref = None
    for name, lst in fam:
        g = prog.method("CoverpointModel", name)
        body = norm(sig_body(g.node)).replace("self." + lst, "self.<L>")
        rr.inst("walker %s" % name)
        if lst not in norm(g.node):
            rr.finding(g, g.node, "CoverpointModel." + name, "CV6: walker does not walk self.%s" % lst, text="list")
        if ref is None:
            ref = (name, body)
        elif body != ref[1]:
            rr.finding(g, g.node, "CoverpointModel." + name, "CV6: walker differs from its sibling %s beyond the list it walks" % ref[0], text="sibling diff")
    getters = [("get_bin_name", "_get_target_bin"), ("get_ignore_bin_name", "_get_target_ignore_bin"), ("get_illegal_bin_name", "_get_target_illegal_bin")]
    for gname, walker in getters:
        g = prog.method("CoverpointModel", gname)
        calls = {call_name(n) for n in walk_local(g.node) if isinstance(n, ast.Call)}
        rr.inst("getter %s uses %s" % (gname, sorted(calls)))
        if walker not in calls:
            rr.finding(g, g.node, "CoverpointModel." + gname, "CV6: %s resolves names through %s instead of %s" % (gname, sorted(c for c in calls if c.startswith("_get")), walker),
                       text="walker")
    hits = [("get_bin_hits", "self.hit_l"), ("get_ignore_bin_hits", "self.hit_ignore_l"), ("get_illegal_bin_hits", "self.hit_illegal_l")]
    for gname, lst in hits:
        g = prog.method("CoverpointModel", gname)
        r = [norm(n.value) for n in walk_local(g.node) if isinstance(n, ast.Return)]
        if r != ["%s[%s]" % (lst, g.params[1])]:
            rr.finding(g, g.node, "CoverpointModel." + gname, "CV6: %s returns %s; expected %s[%s]" % (gname, r, lst, g.params[1]), text="hits list")
