"""Rules added after the second round of independently seeded changes (DESIGN.md section 12):
FOLD, NM2, LW11, RN7, SH5, FT11, LW12, FT12, FE1, OPT1."""
import ast

from sa.core import rule
from sa.ir import guard_facts, sig_body, norm, dotted, call_name, recv_text, walk_local, names_in, calls_in_order, AnalysisError, assigned_targets
from sa.sai import Interp, Domain, FALL
from sa.pe import specialise


def _q(f):
    return ("%s.%s" % (f.cls.name, f.name)) if f.cls is not None else f.name


def _guards(fnode, node):
    """(test text, in-body?) of the enclosing ifs, plus the canonical facts of sa.ir.guard_facts as (fact, True): inverted
    branches and early exits are seen as the positive guards they are equivalent to"""
    from sa.ir import guard_facts
    par = {}
    for n in ast.walk(fnode):
        for ch in ast.iter_child_nodes(n):
            par[ch] = n
    out = []
    n = node
    while n in par:
        p = par[n]
        if isinstance(p, ast.If):
            out.append((norm(p.test), any(n is x for x in p.body)))
        n = p
    have = {t for t, pos in out if pos}
    for f in guard_facts(fnode, node, with_raise=False):
        if f not in have:
            out.append((f, True))
            have.add(f)
    return out


def _enclosing_loops(fnode, node):
    par = {}
    for n in ast.walk(fnode):
        for ch in ast.iter_child_nodes(n):
            par[ch] = n
    out = []
    n = node
    while n in par:
        n = par[n]
        if isinstance(n, (ast.For, ast.While)):
            out.append(n)
    return out


# --------------------------------------------------------------------------------------- FOLD
def _fold_check(rr, f, acc, rid, what):
    """inside loops of f, every assignment to the accumulator `acc` either mentions `acc` on the right-hand side or is
    guarded by `acc is None` (first element); an assignment that drops the accumulated value loses earlier elements."""
    n = 0
    for a in walk_local(f.node):
        if not isinstance(a, ast.Assign) or not any(norm(t) == acc for t in a.targets):
            continue
        if not _enclosing_loops(f.node, a):
            continue
        n += 1
        mentions = acc in names_in(a.value)
        g = _guards(f.node, a)
        first = any((t.replace(" ", "") in ("%sisNone" % acc, "%s==None" % acc) and pos) or
                    (t.replace(" ", "") in ("%sisnotNone" % acc, "%s!=None" % acc) and not pos) for t, pos in g) or \
            any(t.replace(" ", "") in ("%sisNone" % acc, "%s==None" % acc) for t in guard_facts(f.node, a))
        if not mentions and not first:
            rr.finding(f, a, _q(f), "%s: inside the loop '%s = %s' replaces the accumulated %s instead of extending it: everything folded in by earlier "
                       "iterations is dropped" % (rid, acc, norm(a.value)[:70], what))
    return n


@rule("FOLD", ["C01", "C05", "C04", "C06"], "conjunction / guard / sum folds keep what earlier iterations accumulated", engine="DF", floor=5)
def fold(prog, rr):
    sites = [
        (prog.method("ConstraintScopeModel", "build"), "ret", "conjunction of the scope's statements"),
        (prog.method("RandInfoBuilder", "visit_constraint_soft"), "and_cond", "conjunction of the enclosing if/implies guards"),
        (prog.method("ConstraintUniqueModel", "build"), "ret", "conjunction of pairwise inequalities"),
        (prog.method("FieldArrayModel", "get_sum_expr"), "ret", "sum over the list elements"),
        (prog.method("FieldArrayModel", "get_product_expr"), "ret", "product over the list elements"),
        (prog.method("ConstraintForeachModel", "build"), "ret_l", "list of unrolled bodies"),
    ]
    for f, acc, what in sites:
        n = _fold_check(rr, f, acc, "FOLD", what)
        rr.inst("%s accumulator '%s': %d loop assignments" % (_q(f), acc, n))
    # ConstraintScopeModel.build: a child that builds to None (a soft statement in hard mode) must leave the accumulator untouched
    f = prog.method("ConstraintScopeModel", "build")

    class D(Domain):
        def initial_user(s):
            return ("none", False)          # (accumulator state, lost flag)

        def decide(s, st, test, ctx):
            out = []
            for r in super().decide(st, test, ctx):
                t = norm(test).replace(" ", "")
                if r[0] is True and t in ("retisNone", "ret==None"):
                    out.append((True, r[1]._replace(u=("none", r[1].u[1]))))
                elif r[0] is False and t in ("retisnotNone", "ret!=None"):
                    out.append((False, r[1]._replace(u=("none", r[1].u[1]))))
                else:
                    out.append(r)
            return out

        def on_assign(s, st, stmt):
            state, lost = st.u
            if isinstance(stmt, ast.Assign) and any(norm(t) == "ret" for t in stmt.targets) and _enclosing_loops(f.node, stmt):
                v = stmt.value
                if "ret" in names_in(v):
                    return st._replace(u=("has", lost))
                facts = {k[0]: val for k, val in st.facts}
                maybe_none = isinstance(v, ast.Name) and facts.get("%s == None" % v.id) is not False
                if state == "has":
                    return st._replace(u=("has", True))
                return st._replace(u=("has" if not maybe_none else "has?", lost))
            return st
    outs = Interp(D(), func=f).run(f.node)
    if any(s.u[1] for s in outs.fall | outs.ret):
        rr.finding(f, f.node, "ConstraintScopeModel.build", "FOLD: on some path the conjunction built so far is overwritten by a later statement's node "
                   "(for example when a soft statement builds to None in hard mode): the hard statements before it in that scope are not enforced",
                   text="accumulator overwritten")
    rr.inst("ConstraintScopeModel.build paths: %d" % len(outs.fall | outs.ret))


# --------------------------------------------------------------------------------------- NM2
@rule("NM2", ["C01", "C04", "C15"], "constraint statement models keep no derived state between calls (no memo of expansions)", engine="EFF", floor=10)
def nm2(prog, rr):
    from tables.exceptions import NM2_STATEFUL
    cm = prog.cls("ConstraintModel")
    # statement classes whose objects are built afresh in every call: every constructor call sits in a per-call rewriter
    # (a subclass of ConstraintOverrideVisitor); state on such an object is per-call state
    rewriters = {k.name for k in [prog.cls("ConstraintOverrideVisitor")] + list(prog.subclasses(prog.cls("ConstraintOverrideVisitor")))}
    per_call = set()
    for c in prog.subclasses(cm):
        sites = [(g, n) for g in prog.funcs for n in walk_local(g.node) if isinstance(n, ast.Call) and (dotted(n.func) or "").split(".")[-1] == c.name]
        if sites and all(g.cls is not None and g.cls.name in rewriters for g, n in sites):
            per_call.add(c.name)
    rr.inst("per-call statement classes: %s" % sorted(per_call))
    for c in prog.subclasses(cm):
        if c.name in per_call:
            continue
        for name, f in c.methods.items():
            if name in ("__init__", "clone", "dispose", "accept", "__str__"):
                continue
            rr.inst("%s.%s" % (c.name, name))
            for n in walk_local(f.node):
                tgts = []
                if isinstance(n, (ast.Assign, ast.AugAssign)):
                    tgts = [t for t in assigned_targets(n) if t.startswith("self.")]
                for t in tgts:
                    key = "%s.%s:%s" % (c.name, name, t.rstrip("[]"))
                    if key in NM2_STATEFUL:
                        continue
                    rr.finding(f, n, "%s.%s" % (c.name, name), "NM2: %s writes %s on the statement model: statement models live as long as the object, so state derived from "
                               "the list's / fields' contents at one call (an expansion, a resolved target) is reused unchanged by later calls" % (name, t))


# --------------------------------------------------------------------------------------- LW11
@rule("LW11", ["C02", "C04", "C01", "C15", "C05", "C08"], "the constraint copier copies every expression operand and fills the matching branch", engine="DF", floor=8)
def lw11(prog, rr):
    cb = prog.cls("ConstraintCopyBuilder")
    leaf_passthrough = {"visit_expr_fieldref", "visit_expr_literal", "visit_expr_indexed_fieldref"}
    for name, f in sorted(cb.methods.items()):
        if not name.startswith("visit_") or len(f.params) < 2:
            continue
        p = f.params[1]
        rr.inst("ConstraintCopyBuilder." + name)
        # (1) constructor arguments that are expression children of the source must be wrapped in self.expr(...)
        for n in walk_local(f.node):
            if isinstance(n, ast.Call) and (dotted(n.func) or "").split(".")[-1].endswith("Model"):
                for a in n.args:
                    t = norm(a)
                    if isinstance(a, ast.Attribute) and t.startswith(p + ".") and a.attr in ("cond", "e", "expr", "lhs", "rhs", "upper", "lower", "root",
                                                                                            "cond_e", "true_e", "false_e", "rng_lhs", "rng_rhs", "weight"):
                        rr.finding(f, n, "ConstraintCopyBuilder." + name, "LW11: the copy is built from the original's own '%s' instead of self.expr(%s): inside a foreach "
                                   "the un-copied operand still refers to the index variable and is resolved when the solver nodes are built, i.e. with the "
                                   "index's last value for every unrolled element" % (t, t))
        # (1b) a statement whose class takes a condition / expression in its constructor is copied by re-building that operand with
        #      self.expr(...); clone() would share the original's operand
        if name.startswith("visit_constraint_") and f.node.args.args[1].annotation is not None:
            cn = (dotted(f.node.args.args[1].annotation) or "").split(".")[-1]
            if prog.has_cls(cn):
                init = prog.cls(cn).methods.get("__init__")
                ops = [a for a in (init.params[1:] if init else []) if a in ("cond", "e", "expr")]
                for a in ops:
                    copied = any(isinstance(n, ast.Call) and norm(n.func) == "self.expr" and n.args and norm(n.args[0]) == "%s.%s" % (p, a)
                                 for n in walk_local(f.node))
                    cloned = [n for n in walk_local(f.node) if isinstance(n, ast.Call) and norm(n.func) == p + ".clone"]
                    if not copied and cloned:
                        rr.finding(f, cloned[0], "ConstraintCopyBuilder." + name, "LW11: the %s statement is copied with %s.clone(), which keeps the original's '%s' "
                                   "expression: inside a foreach every unrolled copy is then guarded by the un-expanded condition, evaluated with the "
                                   "index's last value" % (cn, p, a), text="clone keeps %s" % a)
        # (2) ConstraintCollector slots: the branch collected into ret.X is the source's X
        for w in walk_local(f.node):
            if not isinstance(w, ast.With):
                continue
            for it in w.items:
                ce = it.context_expr
                if isinstance(ce, ast.Call) and (dotted(ce.func) or "").endswith("ConstraintCollector") and len(ce.args) == 2:
                    slot = ce.args[1]
                    if not isinstance(slot, ast.Attribute) or slot.attr not in ("true_c", "false_c"):
                        continue
                    srcs = set()
                    for n in walk_local(w):
                        if isinstance(n, ast.Attribute) and norm(n).startswith(p + ".") and n.attr in ("true_c", "false_c") and isinstance(n.value, ast.Name):
                            srcs.add(n.attr)
                    rr.inst("collector slot %s <- %s" % (slot.attr, sorted(srcs)))
                    if srcs and srcs != {slot.attr}:
                        rr.finding(f, w, "ConstraintCopyBuilder." + name, "LW11: the statements of %s.%s are collected into the copy's %s: the unrolled if/else has the "
                                   "wrong (or an empty) branch" % (p, "/".join(sorted(srcs)), slot.attr))


# --------------------------------------------------------------------------------------- RN7
@rule("RN7", ["C03", "C06", "C16", "C02"], "a field solved or drawn in a call is locked again (set_used_rand(False)) before the call ends", engine="SAI", floor=2)
def rn7(prog, rr):
    f = prog.method("Randomizer", "randomize")
    # (a) unconstrained draw loop
    loops = [lp for lp in walk_local(f.node) if isinstance(lp, ast.For) and any(isinstance(n, ast.Call) and call_name(n) == "set_val" for n in walk_local(lp))
             and not any(isinstance(n, ast.Call) and call_name(n) == "post_randomize" for n in walk_local(lp))]
    rr.require(loops, "unconstrained draw loop not found")
    for lp in loops:
        v = norm(lp.target)

        class D(Domain):
            def initial_user(s):
                return (False, False)

            def on_call(s, st, call, ctx):
                drawn, locked = st.u
                if call_name(call) == "set_val" and recv_text(call) == v:
                    return [(FALL, st._replace(u=(True, False)), None)]
                if call_name(call) == "set_used_rand" and recv_text(call) == v and call.args and isinstance(call.args[0], ast.Constant) and call.args[0].value is False:
                    return [(FALL, st._replace(u=(drawn, True)), None)]
                return [(FALL, st, None)]
        fake = ast.FunctionDef(name="body", args=f.node.args, body=lp.body, decorator_list=[], lineno=lp.lineno, col_offset=0)
        outs = Interp(D(), func=f).run(fake, loop_body=True)
        rr.inst("unconstrained loop over %s: %d paths" % (norm(lp.iter), len(outs.fall)))
        if any(d and not l for d, l in (s.u for s in outs.fall)):
            rr.finding(f, lp, "Randomizer.randomize", "RN7: an unconstrained field is drawn but not locked afterwards (set_used_rand(False)): its used-as-random flag stays on "
                       "after the call, so a later call that only *references* the field treats it as a solver variable and overwrites it")
    # (b) read-back loop
    rb = [lp for lp in walk_local(f.node) if isinstance(lp, ast.For)
          and any(isinstance(n, ast.Call) and call_name(n) == "post_randomize" and recv_text(n) == norm(lp.target) for n in walk_local(lp))]
    rr.require(rb, "read-back loop not found")
    for lp in rb:
        v = norm(lp.target)
        locks = [n for st in lp.body for n in walk_local(st) if isinstance(n, ast.Call) and call_name(n) == "set_used_rand" and recv_text(n) == v
                 and n.args and isinstance(n.args[0], ast.Constant) and n.args[0].value is False]
        rr.inst("read-back loop over %s locks: %d" % (norm(lp.iter), len(locks)))
        if not locks:
            rr.finding(f, lp, "Randomizer.randomize", "RN7: fields read back from the solver are not locked afterwards (set_used_rand(False))")
    # (c) the SolveFailure branch: fields it disposes are locked as well
    fail_if = None
    for n in walk_local(f.node):
        if isinstance(n, ast.If) and "Sat()" in norm(n.test) and any(isinstance(x, ast.Raise) for b in n.body + n.orelse for x in walk_local(b)):
            fail_if = n
    rr.require(fail_if is not None, "hard not-SAT branch not found in Randomizer.randomize")
    fb = fail_if.body if any(isinstance(x, ast.Raise) for b in fail_if.body for x in walk_local(b)) else fail_if.orelse
    disp = [n for b in fb for n in walk_local(b) if isinstance(n, ast.Call) and call_name(n) == "dispose"]
    for d in disp:
        v = recv_text(d)
        lps = [lp for b in fb for lp in walk_local(b) if isinstance(lp, ast.For) and norm(lp.target) == v and any(x is d for x in walk_local(lp))]
        locked = any(isinstance(n, ast.Call) and call_name(n) == "set_used_rand" and recv_text(n) == v and n.args and isinstance(n.args[0], ast.Constant)
                     and n.args[0].value is False for lp in lps for n in walk_local(lp))
        rr.inst("failure branch: fields disposed in `for %s in ...` are locked: %s" % (v, locked))
        if not locked:
            rr.finding(f, d, "Randomizer.randomize", "RN7: on SolveFailure the fields of the rand sets are disposed but stay marked used-as-random: a later call "
                       "on another object whose inline constraint only references such a field treats it as a solve target and overwrites it",
                       text="failure path not locked")


# --------------------------------------------------------------------------------------- SH5
@rule("SH5", ["C16", "C03", "C02"], "every solver session of the Randomizer (including diagnostics) disposes all fields it built", engine="DF", floor=3)
def sh5(prog, rr):
    from rules.r40_randness import _full_field_getters
    full = _full_field_getters(prog)
    rc = prog.cls("Randomizer")
    for name, f in rc.methods.items():
        builds = [n for n in walk_local(f.node) if isinstance(n, ast.Call) and call_name(n) == "build" and recv_text(n) and _loop_getter(f, n)]
        disp = [n for n in walk_local(f.node) if isinstance(n, ast.Call) and call_name(n) == "dispose" and _loop_getter(f, n)]
        for d in disp:
            g = _loop_getter(f, d)
            rr.inst("Randomizer.%s disposes %s()" % (name, g))
            if g not in full:
                rr.finding(f, d, "Randomizer." + name, "SH5: only %s() of each rand set is disposed; the non-random fields a constraint references were built as constant nodes "
                           "of this solver instance too and keep that stale node (the next call fails with 'different Boolector instance' or silently reverts "
                           "the field)" % g)
        # dispose loops over a local list instead of the rand sets' own getters: the list must be as wide as what was built
        for d in [n for n in walk_local(f.node) if isinstance(n, ast.Call) and call_name(n) == "dispose" and not _loop_getter(f, n)]:
            lps = [lp for lp in _enclosing_loops(f.node, d) if isinstance(lp, ast.For) and norm(lp.target) == (recv_text(d) or "")]
            if not lps or not isinstance(lps[0].iter, ast.Name):
                continue
            lst = lps[0].iter.id
            fills = [n for n in walk_local(f.node) if isinstance(n, ast.Call) and call_name(n) in ("extend", "append") and recv_text(n) == lst]
            from rules.r97_round2b import _guards
            cond = [n for n in fills if _guards(f.node, n)]
            narrow = [n for n in fills if n.args and isinstance(n.args[0], ast.Call) and isinstance(n.args[0].func, ast.Attribute)
                      and n.args[0].func.attr not in full]
            rr.inst("Randomizer.%s disposes the local list %s (filled at %d sites, %d conditional)" % (name, lst, len(fills), len(cond)))
            if builds and (cond or narrow or not fills):
                rr.finding(f, d, "Randomizer." + name, "SH5: %s builds solver nodes for the fields of every rand set it is given but disposes only those "
                           "collected in %s (%s): the other fields keep nodes of this solver instance and the next call fails with 'different "
                           "Boolector instance'" % (name, lst, "filled conditionally" if cond else "filled from a narrower getter"), text="dispose narrower than build")
                disp.append(d)
        if builds and not disp and name != "randomize":
            rr.finding(f, f.node, "Randomizer." + name, "SH5: %s builds solver nodes for rand-set fields but never disposes them" % name, text="no dispose")


def _loop_getter(f, node):
    for lp in _enclosing_loops(f.node, node):
        if isinstance(lp, ast.For) and isinstance(lp.iter, ast.Call) and isinstance(lp.iter.func, ast.Attribute) and norm(lp.target) == (recv_text(node) or ""):
            return lp.iter.func.attr
    return None


# --------------------------------------------------------------------------------------- FT11
@rule("FT11", ["C06"], "each randomize_with block records into a block created for that block entry", engine="DF", floor=2)
def ft11(prog, rr):
    n = 0
    for c in prog.classes:
        en = c.methods.get("__enter__")
        if en is None:
            continue
        for call in walk_local(en.node):
            if isinstance(call, ast.Call) and call_name(call) == "push_constraint_scope" and call.args:
                a = call.args[0]
                src = norm(a)
                if "inline" not in src and not (isinstance(a, (ast.Name, ast.Attribute))):
                    continue
                is_inline = "inline" in src
                if isinstance(a, (ast.Name, ast.Attribute)):
                    # where does it come from?
                    d = dotted(a)
                    defs = [x for m in c.methods.values() for x in walk_local(m.node) if isinstance(x, ast.Assign) and any(dotted(t) == d for t in x.targets)]
                    is_inline = any("inline" in norm(x.value) for x in defs)
                    if not is_inline:
                        continue
                    n += 1
                    rr.inst("%s.__enter__ pushes %s" % (c.name, src))
                    fresh_here = any(any(x is y for y in walk_local(en.node)) for x in defs)
                    if not fresh_here:
                        rr.finding(en, call, c.name + ".__enter__", "FT11: the inline block pushed by __enter__ (%s) is created elsewhere and reused: constraints written in an "
                                   "earlier with-block stay in it and are conjoined with every later call made through the same object" % src)
                    continue
                n += 1
                rr.inst("%s.__enter__ pushes a fresh %s" % (c.name, src))
    rr.require(n >= 2, "randomize_with __enter__ implementations not found (%d)" % n)


# --------------------------------------------------------------------------------------- LW12
@rule("LW12", ["C06", "C05"], "a referenced dynamic block is built as a hard Boolean term (never with a width or soft flag passed through)", engine="DF", floor=2)
def lw12(prog, rr):
    for cn in ("ExprDynRefModel", "ExprIndexedDynRefModel"):
        f = prog.method(cn, "build")
        calls = [n for n in walk_local(f.node) if isinstance(n, ast.Call) and call_name(n) == "build" and not (isinstance(n.func.value, ast.Call))]
        rr.inst("%s.build -> %s" % (cn, [norm(c) for c in calls]))
        for c in calls:
            extra = c.args[1:] + [k.value for k in c.keywords]
            for a in extra:
                if not (isinstance(a, ast.Constant) and a.value is False):
                    rr.finding(f, c, cn + ".build", "LW12: the referenced constraint block is built with second argument '%s'; for a constraint block that parameter is "
                               "`soft`, so a context width (never 0) turns every soft statement inside the dynamic constraint into a hard one" % norm(a))
        w = prog.method(cn, "width")
        rets = [norm(r.value) for r in walk_local(w.node) if isinstance(r, ast.Return)]
        if rets != ["1"]:
            rr.finding(w, w.node, cn + ".width", "LW12: a dynamic-constraint reference is a Boolean term of width 1, got %s" % rets, text="width")


# --------------------------------------------------------------------------------------- FT12
@rule("FT12", ["C07"], "the class-level enabled flag is written only by the class-level API; block lookup by name searches this object's own blocks", engine="EFF", floor=3)
def ft12(prog, rr):
    ct = prog.cls("constraint_t")
    for name, f in ct.methods.items():
        for n in walk_local(f.node):
            if isinstance(n, (ast.Assign, ast.AugAssign)) and "self.enabled" in assigned_targets(n):
                rr.inst("constraint_t.%s writes self.enabled" % name)
                if name not in ("__init__", "constraint_mode"):
                    rr.finding(f, n, "constraint_t." + name, "FT12: the per-class enabled flag (which seeds the block of every instance built later) is overwritten in %s "
                               "from instance state: a toggle on one instance changes what new instances start with" % name)
    gc = prog.method("FieldCompositeModel", "get_constraint")
    loops = [lp for lp in walk_local(gc.node) if isinstance(lp, ast.For)]
    # a search written as next(<generator>) / a comprehension iterates its generators' sources
    loops += [g for n in walk_local(gc.node) if isinstance(n, (ast.GeneratorExp, ast.ListComp)) for g in n.generators]
    rr.inst("FieldCompositeModel.get_constraint iterates %s" % [norm(lp.iter) for lp in loops])
    if not loops or any(norm(lp.iter) != "self.constraint_model_l" for lp in loops):
        rr.finding(gc, gc.node, "FieldCompositeModel.get_constraint", "FT12: a block is looked up by name in %s instead of this object's own constraint_model_l: with a "
                   "same-named block in a sub-object, constraint_mode() toggles the wrong object's block" % [norm(lp.iter) for lp in loops], text="lookup scope")
    for c in walk_local(gc.node):
        if isinstance(c, ast.Call) and call_name(c) in ("get_constraints", "get_fields"):
            rr.finding(gc, c, "FieldCompositeModel.get_constraint", "FT12: name lookup collects blocks of sub-objects (%s)" % norm(c))


# --------------------------------------------------------------------------------------- FE1
@rule("FE1", ["C08", "C04"], "inside a foreach, a subscript resolves to the element at the value of the whole index expression", engine="DF", floor=1)
def fe1(prog, rr):
    f = prog.method("ForeachRefExpander", "visit_expr_array_subscript")
    p = f.params[1]
    subs = [n for n in walk_local(f.node) if isinstance(n, ast.Subscript) and norm(n.value).endswith(".field_l") and isinstance(n.ctx, ast.Load)]
    rr.inst("ForeachRefExpander.visit_expr_array_subscript element lookups: %s" % [norm(s) for s in subs])
    rr.require(subs, "element lookup not found in ForeachRefExpander.visit_expr_array_subscript")
    for s in subs:
        idx = s.slice
        srcs = {norm(idx)}
        if isinstance(idx, ast.Name):
            srcs = {norm(a.value) for a in walk_local(f.node) if isinstance(a, ast.Assign) and any(norm(t) == idx.id for t in a.targets)}
        bad = [x for x in srcs if x.replace(" ", "") not in ("int(%s.rhs.val())" % p, "%s.rhs.val()" % p)]
        if bad:
            rr.finding(f, s, "ForeachRefExpander.visit_expr_array_subscript", "FE1: the element index comes from %s; it must be the value of the whole subscript expression "
                       "(%s.rhs.val()): a register left by visiting part of it (the bare index variable) drops index arithmetic such as i+1" % (sorted(bad), p))


# --------------------------------------------------------------------------------------- OPT1
@rule("OPT1", ["C10", "C12"], "every cascading coverage option is taken from the item when set there and otherwise inherited from the covergroup", engine="XS", floor=4)
def opt1(prog, rr):
    f = prog.method("Options", "create_model")
    par = f.params[1]
    local, inherit = {}, {}
    from sa.ir import find_local
    rets = find_local(f.node, lambda v: isinstance(v, ast.Call) and (dotted(v.func) or "").endswith("CoverageOptionsModel")) or ["ret"]
    for n in walk_local(f.node):
        if isinstance(n, ast.Assign) and len(n.targets) == 1 and isinstance(n.targets[0], ast.Attribute) and norm(n.targets[0].value) in rets:
            opt = n.targets[0].attr
            g = _guards(f.node, n)
            if norm(n.value) == "self." + opt:
                local[opt] = g
            elif norm(n.value) == "%s.%s" % (par, opt):
                inherit[opt] = g
            else:
                rr.finding(f, n, "Options.create_model", "OPT1: option %s of the model is set from '%s'" % (opt, norm(n.value)))
    from tables.exceptions import OPT1_NO_CASCADE
    for opt in sorted(local):
        rr.inst("option %s: local arm %s, inherit arm %s" % (opt, bool(local.get(opt)), opt in inherit))
        lg = local[opt]
        if not any(t.replace(" ", "") == "self.%sisnotNone" % opt and pos for t, pos in lg):
            rr.finding(f, f.node, "Options.create_model", "OPT1: the item's own %s is not guarded by `self.%s is not None`" % (opt, opt), text="local guard " + opt)
        if opt in OPT1_NO_CASCADE:
            continue
        if opt not in inherit:
            rr.finding(f, f.node, "Options.create_model", "OPT1: option %s is not inherited from the covergroup when the item does not set it" % opt, text="no inherit " + opt)
            continue
        ig = inherit[opt]
        # the inherit arm must be the else-side of *its own* local test (and only of that one)
        own = [t for t, pos in ig if "self." in t and not pos]
        foreign = [t for t in own if ("self.%s " % opt) not in t + " " and ("self.%s" % opt) != t.split(" ")[0]]
        if not any(t.replace(" ", "") == "self.%sisnotNone" % opt for t in own) or foreign:
            rr.finding(f, f.node, "Options.create_model", "OPT1: option %s is inherited under the test(s) %s, i.e. depending on whether *another* option was set on the item: "
                       "an item that sets that other option silently loses the covergroup's %s" % (opt, own, opt), text="inherit guard " + opt)
