"""FT1-FT8: facade write paths, attribute routing, enum conversion, list extent, index tables,
per-class wrappers, constraint-list ownership, inline-block flow."""
import ast

from sa.core import rule
from sa.ir import norm, dotted, call_name, recv_text, walk_local, names_in, calls_in_order, AnalysisError, assigned_targets
from sa.pe import specialise, SpecDom
from sa.sai import Interp, Domain, FALL
from sa.cg import callgraph, solve_path


def _q(f):
    return ("%s.%s" % (f.cls.name, f.name)) if f.cls is not None else f.name


def _is_width_mask(node):
    """expression that is a width mask: (1 << W) - 1, self.mask, self.l.mask ... where W mentions 'width'"""
    t = norm(node).replace(" ", "")
    if t.endswith(".mask") or t == "mask":
        return True
    if "(1<<" in t and "width" in t and t.endswith("-1") or ("1<<" in t and "width" in t and "-1" in t):
        return True
    return False


def _masked(expr, defs_of, depth=0):
    """does the value carry `& <width mask>` (directly or through the local it was computed into)?"""
    if depth > 4:
        return False
    for n in ast.walk(expr):
        if isinstance(n, ast.BinOp) and isinstance(n.op, ast.BitAnd) and (_is_width_mask(n.left) or _is_width_mask(n.right)):
            return True
        # two's complement re-interpretation of an already masked value:  v - (1 << width)
    for n in ast.walk(expr):
        if isinstance(n, ast.Name):
            for d in defs_of(n.id):
                if d.value is not expr and _masked(d.value, defs_of, depth + 1):
                    return True
    return False


# part-select write: its bit arithmetic is value-level (DESIGN section 5, C18 "not decided"); every other facade function of
# type_base / list_t that writes a model value is discovered from the code
FT1_NOT_DECIDED = {("type_base", "__setitem__")}


def scalar_write_paths(prog):
    out = []
    for cn in ("type_base", "list_t"):
        c = prog.cls(cn, "vsc.types")
        for mn, f in sorted(c.methods.items()):
            if (cn, mn) in FT1_NOT_DECIDED:
                continue
            for n in walk_local(f.node):
                if isinstance(n, ast.Call) and call_name(n) == "set_val" and n.args:
                    rv = recv_text(n) or ""
                    if rv != "self" and not rv.startswith("super()"):
                        out.append((cn, mn))
                        break
    return out


@rule("FT1", ["C18"], "every facade write path to a scalar model value passes a width-masked value on every branch", engine="DF", floor=4)
def ft1(prog, rr):
    paths = scalar_write_paths(prog)
    rr.require(len(paths) >= 4, "facade write paths not found (%s)" % paths)
    for cn, mn in paths:
        c = prog.cls(cn, "vsc.types")
        f = c.methods.get(mn)
        rr.require(f is not None, "%s.%s not found" % (cn, mn))
        tracked = {t.id for n in walk_local(f.node) if isinstance(n, (ast.Assign, ast.AugAssign))
                   for t in (n.targets if isinstance(n, ast.Assign) else [n.target]) if isinstance(t, ast.Name)}
        sites = {}

        def ev(node, st, dom, sites=sites):
            if isinstance(node, ast.Call) and call_name(node) == "set_val" and node.args:
                rv = recv_text(node) or ""
                if rv == "self" or rv.startswith("super()"):
                    return
                arg = node.args[0]
                facts = dom.facts_of(st)
                # enum path is FT3's business
                if facts.get("self.is_enum") is True or "e2v(" in norm(arg) or "enum_m" in rv:
                    return
                ok = _masked(arg, lambda nm: dom.defs_of(st, nm))
                key = (node.lineno, tuple(sorted((k, v) for k, v in facts.items() if "signed" in k or "scalar" in k)))
                sites[key] = (node, ok, facts)
        specialise(f, None, None, None, tracked=tracked, on_event=ev)
        rr.inst("%s.%s: %d (write site, branch) pairs" % (cn, mn, len(sites)))
        for (ln, fk), (node, ok, facts) in sorted(sites.items()):
            if not ok:
                br = ", ".join("%s=%s" % kv for kv in fk) or "unconditional"
                rr.finding(f, node, "%s.%s" % (cn, mn.replace("@setter", " (setter)")),
                           "FT1: on the branch [%s] the value written to the field model is not reduced modulo 2^width "
                           "(reads can then return a value outside the declared type)" % br, text="%s :: %s" % (norm(node)[:80], br))
    # constructor initial value goes through set_val
    b = prog.method("type_base", "build_field_model", "vsc.types")
    calls = [n for n in walk_local(b.node) if isinstance(n, ast.Call) and call_name(n) == "set_val" and recv_text(n) == "self"]
    rr.inst("type_base.build_field_model initial-value writes through self.set_val: %d" % len(calls))
    if not calls:
        rr.finding(b, b.node, "type_base.build_field_model", "FT1: the constructor's initial value bypasses set_val (not masked)", text="init path")


# --------------------------------------------------------------------------------------- FT2
@rule("FT2", ["C18"], "attribute access on rand objects routes type_base fields to get_val()/set_val() exactly outside raw/expression mode", engine="PE", floor=2)
def ft2(prog, rr):
    for cls in [c for c in prog.classes if c.name in ("randobj_interposer", "generator_interposer")]:
        ga = cls.methods.get("__getattribute__")
        sa = cls.methods.get("__setattr__")
        rr.require(ga is not None and sa is not None, "%s: attribute hooks not found" % cls.name)
        for raw in (False, True):
            hits = []

            def ev(node, st, dom, hits=hits):
                if isinstance(node, ast.Call) and call_name(node) == "get_val":
                    hits.append(node)
            specialise(ga, None, None, None, on_event=ev, assume={"isinstance(ret, type_base)": True, "is_raw_mode()": raw})
            rr.inst("%s.__getattribute__(raw=%s): get_val sites %d" % (cls.name, raw, len(hits)))
            if raw and hits:
                rr.finding(ga, hits[0], cls.name + ".__getattribute__", "FT2: inside a constraint (raw/expression mode) a field read yields its value instead of the field object")
            if not raw and not hits:
                rr.finding(ga, ga.node, cls.name + ".__getattribute__", "FT2: outside constraints a field read does not go through get_val()", text="no get_val")
        for raw in (False, True):
            hits, raises = [], []

            def ev2(node, st, dom, hits=hits):
                if isinstance(node, ast.Call) and call_name(node) == "set_val":
                    hits.append(node)
            dom, outs = specialise(sa, None, None, None, on_event=ev2,
                                   assume={"isinstance(fo, type_base)": True, "is_raw_mode()": raw, "isinstance(val, type_base)": False})
            rr.inst("%s.__setattr__(raw=%s): set_val sites %d" % (cls.name, raw, len(hits)))
            if raw and hits:
                rr.finding(sa, hits[0], cls.name + ".__setattr__", "FT2: assignment inside a constraint writes the field value")
            if not raw and not hits:
                rr.finding(sa, sa.node, cls.name + ".__setattr__", "FT2: assignment outside constraints does not go through set_val() (value not masked)", text="no set_val")


# --------------------------------------------------------------------------------------- FT3
@rule("FT3", ["C18", "C01"], "enum fields: every write converts with e2v, every read with v2e (scalar and list paths)", engine="PE", floor=5)
def ft3(prog, rr):
    te = prog.cls("type_enum", "vsc.types")
    sv = te.methods.get("set_val")
    gv = te.methods.get("get_val")
    rr.require(sv is not None and gv is not None, "type_enum.get_val/set_val not found")
    w = [n for n in walk_local(sv.node) if isinstance(n, ast.Call) and call_name(n) == "set_val"]
    rr.inst("type_enum.set_val model writes: %d" % len(w))
    for n in w:
        if not n.args or "e2v(" not in norm(n.args[0]):
            rr.finding(sv, n, "type_enum.set_val", "FT3: enum write stores '%s' without converting the enumerator to its value (e2v)" % (norm(n.args[0]) if n.args else ""))
    r = [n for n in walk_local(gv.node) if isinstance(n, ast.Return)]
    rr.inst("type_enum.get_val returns: %d" % len(r))
    for n in r:
        if n.value is None or "v2e(" not in norm(n.value):
            rr.finding(gv, n, "type_enum.get_val", "FT3: enum read returns '%s' without converting the value to its enumerator (v2e)" % norm(n.value))
    lt = prog.cls("list_t", "vsc.types")
    for mn in ("append", "__setitem__"):
        f = lt.methods[mn]
        hits = []

        def ev(node, st, dom, hits=hits):
            if isinstance(node, ast.Call) and call_name(node) == "set_val" and node.args:
                hits.append(node)
        tracked = {t.id for n in walk_local(f.node) if isinstance(n, ast.Assign) for t in n.targets if isinstance(t, ast.Name)}
        dom, _ = specialise(f, None, None, None, tracked=tracked, on_event=ev, assume={"self.is_enum": True})
        rr.inst("list_t.%s enum path writes: %d" % (mn, len(hits)))
        if not hits:
            rr.finding(f, f.node, "list_t." + mn, "FT3: enum list %s writes nothing" % mn, text="no write")
        for n in hits:
            a = n.args[0]
            ok = "e2v(" in norm(a)
            if isinstance(a, ast.Name):
                for d in walk_local(f.node):
                    if isinstance(d, ast.Assign) and any(isinstance(t, ast.Name) and t.id == a.id for t in d.targets) and "e2v(" in norm(d.value):
                        ok = True
            if not ok:
                rr.finding(f, n, "list_t." + mn, "FT3: enum list element written with '%s' (no e2v conversion)" % norm(a))
    gi = lt.methods["__getitem__"]
    rets = []

    def ev3(node, st, dom):
        if isinstance(node, ast.Return) and node.value is not None:
            rets.append(node)
    specialise(gi, None, None, None, on_event=ev3, assume={"self.is_enum": True, "get_expr_mode()": False})
    rr.inst("list_t.__getitem__ enum path returns: %d" % len(rets))
    for n in rets:
        if "v2e(" not in norm(n.value):
            rr.finding(gi, n, "list_t.__getitem__", "FT3: enum list read returns '%s' (no v2e conversion)" % norm(n.value))
    # iteration over a scalar/enum list: the iterator's __next__ converts like indexing does
    its = [g for g in prog.funcs if g.name == "__next__" and g.cls is not None and g.module.name == "vsc.types"
           and any(isinstance(x, ast.Attribute) and x.attr == "field_l" for x in walk_local(g.node))]
    rr.require(its, "scalar list iterator (__next__ reading model.field_l) not found")
    for it in its:
        rets2 = []

        def ev4(node, st, dom, rets2=rets2):
            if isinstance(node, ast.Return) and node.value is not None:
                rets2.append(node)
        specialise(it, None, None, None, on_event=ev4, assume={"self.l.is_enum": True, "self.is_enum": True})
        rr.inst("%s.__next__ enum path returns: %d" % (it.cls.name, len(rets2)))
        from sa.ir import expand_locals
        def reaching(fnode, ret):
            """text of the returned value, with a returned local replaced by its last assignment in the same block"""
            t = expand_locals(fnode, ret.value)
            if isinstance(ret.value, ast.Name):
                for o in ast.walk(fnode):
                    for fld in ("body", "orelse", "finalbody"):
                        blk = getattr(o, fld, None)
                        if isinstance(blk, list) and any(x is ret for x in blk):
                            for st_ in reversed(blk[:blk.index(ret)]):
                                if isinstance(st_, (ast.Assign, ast.AnnAssign)) and any(norm(tg) == ret.value.id for tg in
                                                                                          (st_.targets if isinstance(st_, ast.Assign) else [st_.target])):
                                    return norm(st_.value)
            return t
        for n in rets2:
            if "v2e(" not in reaching(it.node, n):
                rr.finding(it, n, "list_t.__iter__", "FT3: iterating an enum list returns '%s' (no v2e conversion) while indexing returns the enumerator: "
                           "the two access paths disagree on the type of the value" % norm(n.value), text="iter no v2e")


# --------------------------------------------------------------------------------------- FT4
@rule("FT4", ["C04"], "list facade extent: iteration, indexing helpers and length are bounded by the size field, not by the element storage", engine="DF", floor=4)
def ft4(prog, rr):
    lt = prog.cls("list_t", "vsc.types")
    # procedural (non-expression-mode) views
    for mn in ("size", "sum", "product", "__len__", "__contains__", "__str__", "__iter__"):
        f = lt.methods.get(mn)
        if f is None:
            continue
        loops = []
        for n in walk_local(f.node, into_lambda=True):
            if isinstance(n, ast.For):
                loops.append(n)
        # include nested iterator classes
        for g in prog.funcs:
            if g.outer is f or (g.cls is not None and g.cls.outer is f):
                for n in walk_local(g.node):
                    if isinstance(n, ast.For):
                        loops.append(n)
        for lp in loops:
            it = norm(lp.iter)
            rr.inst("list_t.%s loop over %s" % (mn, it))
            if "field_l" in it or "backing_arr" in it:
                rr.finding(f, lp, "list_t." + mn, "FT4: procedural %s walks the element storage (%s) instead of the first `size` elements: after a "
                           "random-size solve the storage holds pre-extended stale elements beyond the list the user sees" % (mn, it))
    # __iter__ iterators stop at size
    it_f = lt.methods["__iter__"]
    nexts = [g for g in prog.funcs if g.name == "__next__" and g.cls is not None and g.cls.outer is it_f]
    rr.require(len(nexts) >= 2, "list_t.__iter__ iterator classes not found")
    for g in nexts:
        tests = [norm(n.test) for n in walk_local(g.node) if isinstance(n, ast.If)]
        rr.inst("%s.__next__ stop tests %s" % (g.cls.name, tests))
        if not any(".size.get_val()" in t and ">=" in t for t in tests):
            rr.finding(g, g.node, g.cls.name + ".__next__", "FT4: iteration is not bounded by the size field", text="stop test")
    # model-level size bookkeeping: every structural edit re-syncs size with the storage
    fam = prog.cls("FieldArrayModel")
    for mn in ("append", "pop", "clear", "add_field"):
        f = fam.methods.get(mn)
        if f is None:
            continue
        calls = [norm(n) for n in walk_local(f.node) if isinstance(n, ast.Call) and call_name(n) == "_set_size"]
        rr.inst("FieldArrayModel.%s size sync: %s" % (mn, calls))
        if not calls:
            rr.finding(f, f.node, "FieldArrayModel." + mn, "FT4: structural edit does not update the size field", text="no _set_size")
    ss = fam.methods["_set_size"]
    resets = {norm(t) for n in walk_local(ss.node) if isinstance(n, ast.Assign) and isinstance(n.value, ast.Constant) and n.value.value is None for t in n.targets}
    rr.inst("FieldArrayModel._set_size invalidates %s" % sorted(resets))
    for a in ("self.sum_expr", "self.sum_expr_btor", "self.product_expr", "self.product_expr_btor"):
        if a not in resets:
            rr.finding(ss, ss.node, "FieldArrayModel._set_size", "FT4: a size change does not invalidate %s" % a, text="invalidate " + a)


# --------------------------------------------------------------------------------------- FT5
@rule("FT5", ["C08"], "composite index tables: idx = len(field_l) assigned before the append; name table filled; parent set", engine="DF", floor=1)
def ft5(prog, rr):
    f = prog.method("FieldCompositeModel", "add_field")
    p = f.params[1]
    order = []
    for st in f.node.body:
        t = norm(st)
        if isinstance(st, ast.Assign) and norm(st.targets[0]) == p + ".idx":
            order.append(("idx", norm(st.value)))
        elif isinstance(st, ast.Assign) and norm(st.targets[0]) == p + ".parent":
            order.append(("parent", norm(st.value)))
        elif isinstance(st, ast.Assign) and "self.field_id_m[" in norm(st.targets[0]):
            order.append(("name", norm(st.targets[0]) + "=" + norm(st.value)))
        elif isinstance(st, ast.Expr) and isinstance(st.value, ast.Call) and call_name(st.value) == "append" and recv_text(st.value) == "self.field_l":
            order.append(("append", norm(st.value.args[0])))
    rr.inst("FieldCompositeModel.add_field: %s" % order)
    kinds = [k for k, _ in order]
    d = dict(order)
    if "append" not in kinds or d.get("append") != p:
        rr.finding(f, f.node, "FieldCompositeModel.add_field", "FT5: the field is not appended to self.field_l", text="append")
        return
    if "idx" not in kinds or d["idx"] != "len(self.field_l)" or kinds.index("idx") > kinds.index("append"):
        rr.finding(f, f.node, "FieldCompositeModel.add_field", "FT5: the child's index is not len(self.field_l) taken before the append "
                   "(indexed references resolve to the neighbouring field)", text="idx")
    if "parent" not in kinds or d["parent"] != "self":
        rr.finding(f, f.node, "FieldCompositeModel.add_field", "FT5: the child's parent link is not set to this composite", text="parent")
    if "name" not in kinds or ("[%s.name]=%s.idx" % (p, p)) not in d["name"].replace(" ", "").replace("self.field_id_m", ""):
        rr.finding(f, f.node, "FieldCompositeModel.add_field", "FT5: the name table does not map the child's name to its index", text="name table")
    gt = prog.method("ExprIndexedFieldRefModel", "get_target")
    t = norm(gt.node)
    rr.inst("ExprIndexedFieldRefModel.get_target walks idx_t through get_field: %s" % ("get_field(" in t))
    if "get_field(" not in t or "self.idx_t" not in t:
        rr.finding(gt, gt.node, "ExprIndexedFieldRefModel.get_target", "FT5: indexed references no longer walk the child indices from the root", text="walk")
    # the resolved target must not be memoised on the expression node (the tree under a list element can be replaced between calls)
    for n in walk_local(gt.node):
        if isinstance(n, ast.Assign):
            for tg in assigned_targets(n):
                if tg.startswith("self."):
                    rr.finding(gt, n, "ExprIndexedFieldRefModel.get_target", "FT5: get_target() caches state on the expression node (%s); the object under a "
                               "list index can change between calls, so a memoised target aliases another sub-object's field" % tg)


# --------------------------------------------------------------------------------------- FT6
@rule("FT6D", ["C06"], "the per-class dynamic-constraint wrapper is never used to resolve which instance's block a reference means", engine="EFF", floor=1)
def ft6d(prog, rr):
    _ft6(prog, rr, ("dynamic_constraint_t",), False)


@rule("FT6", ["C07", "C01"], "per-class constraint wrappers are never used to resolve per-instance behaviour; the proxy writes only the instance's block", engine="EFF", floor=6)
def ft6(prog, rr):
    _ft6(prog, rr, ("constraint_t",), True)


def _ft6(prog, rr, wrappers, rest):
    # (1) reads of .model on wrapper-typed objects
    for f in prog.funcs:
        narrowed = set()
        for n in walk_local(f.node):
            if isinstance(n, ast.Call) and isinstance(n.func, ast.Name) and n.func.id == "isinstance" and len(n.args) == 2:
                ts = n.args[1].elts if isinstance(n.args[1], ast.Tuple) else [n.args[1]]
                tn = [(dotted(t) or "").split(".")[-1] for t in ts]
                if any(t in wrappers for t in tn) and isinstance(n.args[0], ast.Name):
                    narrowed.add(n.args[0].id)
        if f.cls is not None and f.cls.name in wrappers:
            narrowed.add("self")
        if not narrowed:
            continue
        for n in walk_local(f.node):
            if isinstance(n, ast.Attribute) and n.attr == "model" and isinstance(n.ctx, ast.Load) and isinstance(n.value, ast.Name) and n.value.id in narrowed:
                q = _q(f)
                rr.inst("wrapper .model read in %s" % q)
                allowed = (f.name == "build_field_model") or (f.cls is not None and f.cls.name in wrappers and f.name in ("set_model", "constraint_mode", "__init__"))
                if not allowed:
                    rr.finding(f, n, q, "FT6: the per-class wrapper's `model` (which points at the most recently constructed instance's block) is read "
                               "to resolve behaviour for whichever instance is being used; with several live instances the wrong object's block is used")
    if not rest:
        return
    # (2) the proxy is built from this instance's model and writes only to it
    for cls in [c for c in prog.classes if c.name == "randobj_interposer"]:
        ga = cls.methods["__getattribute__"]
        px = [n for n in walk_local(ga.node) if isinstance(n, ast.Call) and (dotted(n.func) or "").endswith("ConstraintProxy")]
        rr.inst("ConstraintProxy constructions: %d" % len(px))
        rr.require(px, "ConstraintProxy construction not found in randobj __getattribute__")
        for n in px:
            for a in n.args:
                srcs = _local_sources(ga, a)
                if not any("get_constraint(" in s for s in srcs):
                    rr.finding(ga, n, "randobj.__getattribute__", "FT6: ConstraintProxy receives '%s', which does not come from this instance's "
                               "model.get_constraint(name)" % norm(a))
    cp = prog.cls("ConstraintProxy")
    for name, f in cp.methods.items():
        for n in walk_local(f.node):
            if isinstance(n, (ast.Assign, ast.AugAssign)):
                for tg in assigned_targets(n):
                    if tg.startswith("self.") and tg.count(".") >= 2:
                        rr.finding(f, n, "ConstraintProxy." + name, "FT6: the proxy writes %s on an object it merely references (a per-class wrapper or "
                                   "model attribute shared across instances)" % tg)
    # (3) who writes `.enabled`
    for f in prog.funcs:
        for n in walk_local(f.node):
            if isinstance(n, (ast.Assign, ast.AugAssign)):
                tg = n.targets if isinstance(n, ast.Assign) else [n.target]
                for t in tg:
                    if isinstance(t, ast.Attribute) and t.attr == "enabled":
                        q = _q(f)
                        rv = norm(t.value)
                        rr.inst("enabled write in %s: %s" % (q, norm(n)))
                        fresh = any(isinstance(a, ast.Assign) and any(norm(x) == rv for x in a.targets) and isinstance(a.value, ast.Call)
                                    and (dotted(a.value.func) or "").split(".")[-1].endswith("Model") for a in walk_local(f.node))
                        ok = rv == "self" or fresh
                        if not ok:
                            rr.finding(f, n, q, "FT6: `%s.enabled` is written from outside its owner: the per-class flag seeds every instance built later, "
                                       "so a per-instance toggle leaks to new instances" % rv)
    sm = prog.method("constraint_t", "set_model")
    t = norm(sm.node)
    rr.inst("constraint_t.set_model seeds the new block from the class flag: %s" % ("set_constraint_enabled(self.enabled)" in t))
    if "set_constraint_enabled(self.enabled)" not in t:
        rr.finding(sm, sm.node, "constraint_t.set_model", "FT6: a new instance's block is not seeded from the class-level enabled flag", text="seed")


def _local_sources(f, expr):
    out = {norm(expr)}
    if isinstance(expr, ast.Name):
        for n in walk_local(f.node):
            if isinstance(n, ast.Assign) and any(isinstance(t, ast.Name) and t.id == expr.id for t in n.targets):
                out.add(norm(n.value))
    return out


# --------------------------------------------------------------------------------------- FT7
@rule("FT7", ["C03", "C06"], "persistent constraint lists are written only at construction; dynamic blocks are kept apart and read by index only", engine="EFF+CG", floor=4)
def ft7(prog, rr):
    lists = ("constraint_model_l", "constraint_dynamic_model_l")
    allowed = {"FieldCompositeModel.__init__", "FieldCompositeModel.add_constraint", "FieldCompositeModel.add_dynamic_constraint"}
    for f in prog.funcs:
        for n in walk_local(f.node):
            w = None
            if isinstance(n, ast.Call) and isinstance(n.func, ast.Attribute) and n.func.attr in ("append", "extend", "insert", "pop", "remove", "clear") \
                    and isinstance(n.func.value, ast.Attribute) and n.func.value.attr in lists:
                w = n
            elif isinstance(n, (ast.Assign, ast.AugAssign)):
                tg = n.targets if isinstance(n, ast.Assign) else [n.target]
                for t in tg:
                    if isinstance(t, ast.Attribute) and t.attr in lists:
                        w = n
                    if isinstance(t, ast.Subscript) and isinstance(t.value, ast.Attribute) and t.value.attr in lists:
                        w = n
            if w is not None:
                q = _q(f)
                rr.inst("write to constraint list in %s" % q)
                if q not in allowed:
                    rr.finding(f, w, q, "FT7: a persistent constraint list is modified outside construction: %s" % norm(w)[:90])
    # adders are called only from build_field_model / model builders
    for f in prog.funcs:
        for n in walk_local(f.node):
            if isinstance(n, ast.Call) and call_name(n) in ("add_constraint", "add_dynamic_constraint") and recv_text(n) in ("model",) :
                rr.inst("%s call in %s" % (call_name(n), _q(f)))
                if f.name != "build_field_model":
                    rr.finding(f, n, _q(f), "FT7: a class-level constraint block is attached to an object model outside build_field_model")
    # dynamic list: read only by index from the two dyn-ref sites; never enumerated
    for f in prog.funcs:
        for n in walk_local(f.node):
            if isinstance(n, ast.Attribute) and n.attr == "constraint_dynamic_model_l" and isinstance(n.ctx, ast.Load):
                q = _q(f)
                par_ok = q in allowed
                par = _parent(f.node, n)
                if isinstance(par, ast.Subscript) and par.value is n:
                    par_ok = True
                if isinstance(par, ast.Call) and isinstance(par.func, ast.Name) and par.func.id == "len":
                    par_ok = True
                if isinstance(par, ast.Attribute) and par.attr == "append":
                    par_ok = True
                rr.inst("read of constraint_dynamic_model_l in %s" % q)
                if not par_ok:
                    rr.finding(f, n, q, "FT7: dynamic constraint blocks are enumerated (%s): a dynamic block would be enforced without being referenced"
                               % norm(par)[:80])
    # build_field_model keeps the two kinds apart
    for cls in [c for c in prog.classes if c.name == "randobj_interposer"]:
        b = cls.methods["build_field_model"]
        for val, want in (("constraint_t", "add_constraint"), ("dynamic_constraint_t", "add_dynamic_constraint")):
            hits = set()

            def ev(node, st, dom, hits=hits):
                if isinstance(node, ast.Call) and call_name(node) in ("add_constraint", "add_dynamic_constraint"):
                    hits.add(call_name(node))
            from sa.ir import find_local
            fos = find_local(b.node, lambda v: isinstance(v, ast.Call) and call_name(v) == "getattr") or ["fo"]
            asm = {"self._int_field_info.model is None": True}
            for fo in fos:
                asm["isinstance(%s, constraint_t)" % fo] = (val == "constraint_t")
                asm["isinstance(%s, dynamic_constraint_t)" % fo] = (val == "dynamic_constraint_t")
                asm["hasattr(%s, '_int_field_info')" % fo] = False
            specialise(b, None, None, None, on_event=ev, assume=asm)
            rr.inst("build_field_model(%s) -> %s" % (val, sorted(hits)))
            if hits != {want}:
                rr.finding(b, b.node, "randobj.build_field_model", "FT7: a %s block is registered through %s; expected %s only" % (val, sorted(hits) or "nothing", want),
                           text="%s -> %s" % (val, sorted(hits)))


def _parent(fnode, node):
    for n in ast.walk(fnode):
        for ch in ast.iter_child_nodes(n):
            if ch is node:
                return n
    return None


# --------------------------------------------------------------------------------------- FT8
@rule("FT8", ["C06"], "the inline block popped in __exit__ flows only into that call's constraint list", engine="DF", floor=2)
def ft8(prog, rr):
    sites = []
    for c in prog.classes:
        ex = c.methods.get("__exit__")
        if ex is None:
            continue
        pops = [n for n in walk_local(ex.node) if isinstance(n, ast.Assign) and isinstance(n.value, ast.Call) and call_name(n.value) == "pop_constraint_scope"]
        if not pops:
            continue
        calls = [n for n in walk_local(ex.node) if isinstance(n, ast.Call) and call_name(n) == "do_randomize"]
        if not calls:
            continue
        sites.append((c, ex, pops, calls))
    rr.require(len(sites) >= 2, "randomize_with __exit__ implementations not found (%d)" % len(sites))
    dr = prog.method("Randomizer", "do_randomize")
    cl_param_idx = dr.params.index("constraint_l") if "constraint_l" in dr.params else 3
    for c, ex, pops, calls in sites:
        v = norm(pops[0].targets[0])
        rr.inst("%s.__exit__: inline block '%s'" % (c.name, v))
        uses = [n for n in walk_local(ex.node) if isinstance(n, ast.Name) and n.id == v and isinstance(n.ctx, ast.Load)]
        ok_lists = []
        for call in calls:
            a = call.args[cl_param_idx] if len(call.args) > cl_param_idx else next((k.value for k in call.keywords if k.arg == "constraint_l"), None)
            if isinstance(a, ast.Name):
                # a local bound once to the list (e.g. a parameter of an inlined helper)
                defs = [d for d in walk_local(ex.node) if isinstance(d, ast.Assign) and len(d.targets) == 1 and norm(d.targets[0]) == a.id]
                luses = [u for u in walk_local(ex.node) if isinstance(u, ast.Name) and u.id == a.id and isinstance(u.ctx, ast.Load)]
                if len(defs) == 1 and len(luses) == 1 and isinstance(defs[0].value, ast.List):
                    a = defs[0].value
            ok_lists.append(a)
            if a is None or norm(a) != "[%s]" % v:
                rr.finding(ex, call, c.name + ".__exit__", "FT8: the inline block is not passed as this call's constraint list (argument: %s)" % (norm(a) if a is not None else "missing"))
        for u in uses:
            par = _parent(ex.node, u)
            if not (isinstance(par, ast.List) and any(par is a for a in ok_lists)):
                rr.finding(ex, u, c.name + ".__exit__", "FT8: the inline block escapes the call (%s)" % norm(par)[:80])
    # do_randomize stores constraint_l elements only in per-call objects
    for n in walk_local(dr.node):
        if isinstance(n, ast.Assign):
            for tg in assigned_targets(n):
                if "." in tg and "constraint_l" in norm(n.value) and not tg.startswith(("solve_info", "r.")):
                    rr.finding(dr, n, "Randomizer.do_randomize", "FT8: the call's inline constraints are stored in %s" % tg)
    rr.inst("do_randomize inline-constraint stores checked")
